"""Shared generators and helpers for the property modules."""
import numpy as np


def dyadic(nrng, n, bits=6, scale=4):
    """n real numbers k/2^bits in [-scale, scale): exactly representable doubles and exact rationals."""
    return nrng.integers(-scale * 2 ** bits, scale * 2 ** bits, n).astype(float) / 2 ** bits


def gen_data(nrng, N, cplx, kind=None, exact=False):
    """A data vector of one of the classes the properties quantify over.
    Returns (x, tag).  With exact=True every sample is a small dyadic rational."""
    kinds = ["noise", "const", "int", "dyn", "tone", "trend", "intdtype", "czero", "list"]
    if kind is None:
        kind = kinds[int(nrng.integers(0, len(kinds)))]
    n = np.arange(N)
    if kind == "noise":
        x = dyadic(nrng, N) if exact else nrng.standard_normal(N)
        if cplx:
            x = x + 1j * (dyadic(nrng, N) if exact else nrng.standard_normal(N))
    elif kind == "const":
        c = float(nrng.integers(1, 5))
        x = np.full(N, c) + (1j * float(nrng.integers(-3, 4)) if cplx else 0)
    elif kind in ("int", "intdtype", "list"):
        x = nrng.integers(-5, 6, N).astype(float)
        if N > 0 and not np.any(x):
            x[0] = 1.0
        if cplx:
            x = x + 1j * nrng.integers(-5, 6, N)
        elif kind == "intdtype":
            x = x.astype(int)
    elif kind == "dyn":
        e = nrng.integers(-20, 21, N)
        x = dyadic(nrng, N) * (2.0 ** e)
        if cplx:
            x = x + 1j * dyadic(nrng, N) * (2.0 ** nrng.integers(-20, 21, N))
    elif kind == "tone":
        f = nrng.uniform(0.05, 0.45)
        x = np.cos(2 * np.pi * f * n + nrng.uniform(0, 6)) + 0.2 * nrng.standard_normal(N)
        if cplx:
            x = np.exp(2j * np.pi * f * n) + 0.2 * (nrng.standard_normal(N) + 1j * nrng.standard_normal(N))
        if exact:
            x = np.round(x * 64) / 64
    elif kind == "trend":
        x = 0.125 * n + (dyadic(nrng, N) if exact else nrng.standard_normal(N))
        if cplx:
            x = x + 1j * (dyadic(nrng, N) if exact else nrng.standard_normal(N))
    elif kind == "czero":
        # complex dtype whose imaginary part is identically zero ("real samples declared complex")
        x = (dyadic(nrng, N) if exact else nrng.standard_normal(N)).astype(complex)
        cplx = True
    else:
        raise ValueError(kind)
    if cplx and not np.iscomplexobj(x):
        x = x.astype(complex)
    if N > 0 and not np.any(x):
        x = x.copy()
        x[0] = 1
    return x, kind


def as_input(x, kind):
    """what is handed to the real API: a list for kind 'list', the array otherwise"""
    if kind == "list":
        return [complex(v) if np.iscomplexobj(x) else float(v) for v in x]
    return x


def rel(a, b):
    a = np.asarray(a)
    b = np.asarray(b)
    if a.shape != b.shape:
        return float("inf")
    if a.size == 0:
        return 0.0
    if not (np.all(np.isfinite(a)) and np.all(np.isfinite(b))):
        return float("inf")
    s = max(float(np.max(np.abs(b))), float(np.max(np.abs(a))), 1e-300)
    return float(np.max(np.abs(a - b))) / s


def cvec(x):
    return np.asarray(x).astype(complex).ravel()


def nfft_choices(nrng, N, lo=None):
    """a varied NFFT >= max(N, lo): N, N+1, 2N-1, 2N, a prime, a power of two, odd/even"""
    lo = max(N, lo or 1, 1)
    primes = [p for p in (2, 3, 5, 7, 11, 13, 17, 19, 23, 29, 31, 37, 41, 43, 47, 53, 59, 61, 67, 71, 73, 79, 83,
                          89, 97, 101, 127, 131, 151, 199, 211, 257) if p >= lo]
    p2 = 1
    while p2 < lo:
        p2 *= 2
    opts = [lo, lo + 1, 2 * lo - 1 if lo > 1 else 1, 2 * lo, p2, 2 * p2, lo + int(nrng.integers(0, 9))]
    if primes:
        opts.append(primes[0])
    return int(opts[int(nrng.integers(0, len(opts)))])
