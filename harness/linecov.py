"""Which source lines of the library did a check actually execute?

The correspondence is differential testing, and generator quality bounds what it sees (DESIGN.md §3.4).  This module measures
that bound on every run: it records, with `sys.monitoring` (Python >= 3.12; each location reports once and is then disabled, so
the cost is negligible), every line of the imported `spectrum` package executed while the cases of a check run, and reports, for
the files a property is anchored in, per function: executable lines, executed lines and the line numbers never reached.  The
report goes into the evidence file (`coverage.code_lines`); it is a measurement about the generators, not a proof obligation.
"""
import ast
import os
import sys

_hits = {}
_root = None
_active = False


def start():
    """begin recording; silently does nothing where sys.monitoring is unavailable or the tool id is taken"""
    global _root, _active
    mon = getattr(sys, "monitoring", None)
    if mon is None or _active:
        return False
    try:
        import spectrum
        _root = os.path.dirname(os.path.abspath(spectrum.__file__)) + os.sep
        mon.use_tool_id(mon.COVERAGE_ID, "verif-linecov")
    except Exception:
        return False

    def on_line(code, line):
        fn = code.co_filename
        if fn.startswith(_root):
            s = _hits.get(fn)
            if s is None:
                s = _hits[fn] = set()
            s.add(line)
        return mon.DISABLE

    mon.register_callback(mon.COVERAGE_ID, mon.events.LINE, on_line)
    mon.set_events(mon.COVERAGE_ID, mon.events.LINE)
    _active = True
    return True


def _function_lines(path):
    """{qualified function name: (first line, set of executable body lines)} from the compiled file"""
    import warnings
    src = open(path).read()
    out = {}
    try:
        with warnings.catch_warnings():
            warnings.simplefilter("ignore")
            top = compile(src, path, "exec")
            tree = ast.parse(src)
    except SyntaxError:
        return out
    # docstring lines are not executable but appear in no line table anyway
    doc_lines = set()
    for node in ast.walk(tree):
        if isinstance(node, (ast.FunctionDef, ast.AsyncFunctionDef, ast.ClassDef)) and node.body:
            b0 = node.body[0]
            if isinstance(b0, ast.Expr) and isinstance(getattr(b0, "value", None), ast.Constant) and isinstance(b0.value.value, str):
                doc_lines.update(range(b0.lineno, b0.end_lineno + 1))

    class_heads = {(n.name, n.lineno) for n in ast.walk(tree) if isinstance(n, ast.ClassDef)}
    # decorated definitions: co_firstlineno is the first decorator line
    for n in ast.walk(tree):
        if isinstance(n, ast.ClassDef) and n.decorator_list:
            class_heads.add((n.name, n.decorator_list[0].lineno))

    def walk(code, prefix):
        for c in code.co_consts:
            if not hasattr(c, "co_code"):
                continue
            name = c.co_name
            q = (prefix + "." + name) if prefix else name
            if (name, c.co_firstlineno) in class_heads:
                walk(c, q)                      # class body: executed at import time, only its methods are reported
                continue
            if not name.startswith("<"):
                lines = {l for (_, _, l) in c.co_lines() if l is not None}
                lines.discard(c.co_firstlineno)
                lines -= doc_lines
                if lines:
                    out[q] = (c.co_firstlineno, lines)
            walk(c, q if not name.startswith("<") else prefix)

    walk(top, "")
    return out


def report(anchor_files, repo_src_prefix="src/spectrum/"):
    """anchor_files: paths as written in properties.jsonl (src/spectrum/x.py).  Returns a JSON-able summary."""
    if not _active:
        return {"available": False}
    res = {"available": True, "files": {}}
    tot_exec = tot_hit = 0
    for af in anchor_files:
        base = af[len(repo_src_prefix):] if af.startswith(repo_src_prefix) else os.path.basename(af)
        path = os.path.join(_root, base)
        if not os.path.exists(path):
            continue
        hit = _hits.get(path, set())
        funcs = _function_lines(path)
        fsum = {}
        f_exec = f_hit = 0
        for q, (first, lines) in sorted(funcs.items(), key=lambda kv: kv[1][0]):
            h = lines & hit
            f_exec += len(lines)
            f_hit += len(h)
            if not h:
                fsum[q] = {"executed": 0, "executable": len(lines)}
            else:
                missed = sorted(lines - hit)
                fsum[q] = {"executed": len(h), "executable": len(lines)}
                if missed:
                    fsum[q]["missed_lines"] = missed[:60]
        res["files"][af] = {"executable": f_exec, "executed": f_hit, "functions": fsum}
        tot_exec += f_exec
        tot_hit += f_hit
    res["executable"] = tot_exec
    res["executed"] = tot_hit
    res["note"] = ("lines inside function bodies of the property's anchor files executed while this run's cases ran "
                   "(def lines and docstrings excluded); functions with executed = 0 were never entered by this property's cases")
    return res
