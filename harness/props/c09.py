"""C09  Correlation estimates match their definition and are consistent."""
import numpy as np

import single

import proto
from common import gen_data, as_input, rel, dyadic

TRUSTED_BASE = [
    "scipy.signal.correlate(x, y, 'full') is modelled by its defining sum (parameter of the model)",
    "scipy.linalg.toeplitz is modelled by its defining index rule",
    "exact mode: inputs are small dyadic rationals (exactly representable doubles); the model computes in exact "
    "Gaussian rationals and is compared with the float result at rtol 1e-12",
]
PARTIAL = ["coeff normalisation is specified (and modelled) for the autocorrelation only; cross-correlation "
           "with norm='coeff' is outside the statement",
           "records longer than 600 samples crossed with the norms / lag ranges are checked against the definition "
           "(oracle) only: the exact-rational model needs seconds per record there",
           "block-boundary records (N = q*2^k + r, maxlags <= 8) longer than 2100 samples (one record in 4096..4104 per run "
           "excepted) and every data matrix of such a record are checked against the definition (oracle) only, for the same reason; "
           "their lag range is 0..8 (CORRELATION costs O(N * maxlags) interpreter steps); lengths around 2^16 in the thorough tier only",
           "call sequences (seq kinds): only the last call of a history is compared with the exact model (one request per case); the "
           "other calls, and every call of a history on a record longer than 600 samples or not ending with CORRELATION, against the "
           "definition evaluated in floating point (oracle) only; corrmtx methods other than 'autocorrelation' inside a history are "
           "checked for shape, repeatability and non-aliasing only (their entries are checked by the single-call corrmtx kind)",
           "nearly equal pairs (near kinds): equal lengths only; eps below about 1e-12 (and a one-ulp change of one sample) is not "
           "resolved by the floating-point result itself - those cases only check that the result stays within 3e-13 of the definition; "
           "the corrmtx functions take one record: nearly equal records reach them only through the call sequences (seq:y=near), "
           "judged at 1e-10",
           "error paths are outside the statement; a few rejected calls (CORRELATION maxlags >= N, xcorr unequal lengths or "
           "maxlags > N, corrmtx unknown method) are compared with the model's error kind only.  xcorr(maxlags=N) passes the "
           "code's own assertion and then raises IndexError: not generated"]
ASSUMPTIONS = ["xcorr requires equal lengths (the code asserts it)",
               "call sequences: the statement is read as holding for every call on valid inputs whatever the caller did before with "
               "arrays it owns (its input records between calls, the arrays earlier calls returned to it); a returned array that is "
               "not writeable is left alone (not counted as a violation)",
               "norm='coeff' requires a record of non-zero energy (rms(x) = 0 gives 0/0 = nan: degenerate, not generated); "
               "all-zero records are generated for 'biased', 'unbiased' and None, where the estimate is exactly zero",
               "inputs are 1-D numpy arrays (float64, complex128, float32, complex64, integer dtypes of any width) or "
               "Python lists of numbers"]
RULE = ("random real/complex data (dyadic rationals, integers, constants), equal and unequal lengths 1..16 (quick) / 1..40 "
        "(thorough), maxlags in [0, N-1] and None, four norms, data class / norm / maxlags / auto-cross indexed by independent "
        "moduli; long records N = 64..1000 crossed with the four norms and maxlags in {N//2, N-1, None} (xcorr) and "
        "min(maxlags, 60) (CORRELATION), long unequal pairs (300/130 ...); input containers (list of float / complex / int, "
        "int64, int16, int8, uint8 at full range, float32 / complex64 against double), mixed real/complex/integer pairs of "
        "equal and unequal lengths; default arguments, positional arguments, explicit y = copy of x; all-zero records; "
        "read-only non-owning views; every call is followed by a bytes/shape comparison of its arguments (non-mutation); "
        "corrmtx: 5 methods x orders m in [0, N-1], N >= 1; non-trivial = N >= 2; "
        "long records at and just above block-size boundaries N = q*2^k + r, 2^k in {1024, 2048, 4096, 8192}, q in {1, 2, 3}, "
        "r in {0, 1, 2, 3, 5, 8} (quick: two residues per (2^k, q), rotating with the run, every 2^k with all six residues = 24 "
        "lengths; thorough: all 72 per round plus two lengths 2^16 + r), maxlags 8 or r + 1 so that the number of products N - k "
        "of the lags sweeps across the boundary; mode (auto / cross equal / cross y shorter / cross x shorter, the shorter record "
        "1..3 samples short or about N/3) x norm rotating, real / complex and dyadic / generic doubles (noise, tone, trend, "
        "per-sample dynamic range 2^-20..2^20) by balanced random permutations, one pair in four mixing real and complex: "
        "CORRELATION for every length, xcorr for the equal-length ones, the corrmtx 'autocorrelation' Gram clause (order = maxlags) "
        "for every other length; exact model up to N = 2100 and for one record in 4096..4104 per run; "
        "in EVERY CORRELATION / xcorr / Gram case each lag is compared with its own defined value at 1e-10 relative to "
        "max(|e[k]|, 1e-3 * sum_n |x[n+k]| |y[n]| / divisor [, 1e-3 * ||x|| ||y|| / divisor for the FFT-based xcorr]) in addition to the "
        "max-norm comparison (tags blk:*); "
        "call SEQUENCES on one or two records (kinds seq / seq_o, tags seq:*; quick 140 histories N = 1..16 + 10 on N = 64..2051, "
        "thorough 700 per round N = 1..40 + 26 on N = 64..4099): a first call (CORRELATION / xcorr / corrmtx, norm = i mod 4) whose RETURNED "
        "array(s) the caller then modifies in place (i mod 7: r /= r[0], r *= 0, r[:] = nan, r -= mean, r[0] = c, r *= c, reversal; the xcorr "
        "lag vector too), then 2..4 further calls - 60 % on the same records with the same or fewer lags, same and other norms, through "
        "all three functions (corrmtx: all five methods, 'autocorrelation' judged by its Gram clause), the same array objects or new "
        "arrays / lists with equal values, half of them again followed by an in-place edit of their result - with (25 %) an in-place "
        "edit of an INPUT record (negate, double, exchange two samples, bump one, rotate) or a rejected call (maxlags >= N) in between, "
        "and a last CORRELATION call on the first records (exact model on the records' values at that point up to N = 600); the second "
        "record is independent / equal to the first but two interior samples exchanged (same length, sum, energy, end samples) / shorter / "
        "of the other type; EVERY call is judged against the definition (max-norm and per lag), arrays returned earlier must keep the "
        "bytes the caller left in them after every later call and every later edit, editing a result must not change any input record "
        "or argument, no call may modify its arguments, a repeated call on unchanged values must repeat its numbers, and in a closing "
        "round all results are overwritten in place and every call of the history is made and judged once more; "
        "NEARLY EQUAL pairs (kinds near / near_o, tags near:*; quick 231 pairs + 66 equal-valued, thorough 770 + 220 per round; N = 2..16 "
        "(quick) / 2..40, one in ten N in {64, 129, 256, 300, 513, 1000}): y = x (1 + eps) (one gain / one per sample), x + noise at "
        "eps of each sample / of the rms, a float32 round trip of x, x with ONE sample moved by one ulp / by eps, x e^{i eps} (one phase / "
        "one per sample), x delayed by one sample (with and without wrap-around) on a record drifting by eps per sample; eps in {1e-3, "
        "1e-4, 1e-5, 3e-6, 1e-6, ..., 1e-12} (offset rotating with the run); mode x eps x function (xcorr 2/3, CORRELATION 1/3) x norm "
        "(biased, unbiased, None) x argument order (x, y) / (y, x) by independent moduli, dyadic and generic doubles (noise, tone, trend, "
        "per-sample dynamic range 2^-20..2^20), real and complex; every lag compared with the definition evaluated in EXACT integer / "
        "rational arithmetic on the doubles (rounded once) at 3e-13 of sum_n |x[n+k]| |y[n]| / divisor (xcorr on N > 40: of "
        "||x|| ||y|| / divisor), the asymmetry r[k] - conj(r[-k]) of the two-sided variant against its exact value at the same "
        "tolerance, xcorr against CORRELATION at 6e-13, and the exact Lean model at rtol 1e-12 up to N = 300; y EQUAL IN VALUE to x but "
        "another object (copy, view of x's memory, x itself passed as y, read-only view, stride 3, negative stride, complex dtype with "
        "zero imaginary part, list, float32, int64, swapped byte order): the autocorrelation values, all four norms; 24 (thorough 72 "
        "per round) call sequences whose second record is the first with a per-sample gain mismatch of 1e-6 .. 1e-8 (seq:y=near)")

# kinds that only compare the error kind of a rejected call with the model: no amplitude / stride variants
NO_VARY = {"corr_err", "xcorr_err", "corrmtx_err"}

NORMS = ["biased", "unbiased", "coeff", None]


def _sp():
    import spectrum
    return spectrum


def _ref(x, y, k, norm):
    N = max(len(x), len(y))
    xx = np.zeros(N, dtype=complex)
    yy = np.zeros(N, dtype=complex)
    xx[: len(x)] = x
    yy[: len(y)] = y
    if N > 64:
        # long records: the same lag sum, vectorised (the Python generator below costs O(N) interpreter steps per lag)
        s = np.sum(xx[k:N] * np.conj(yy[: N - k]))
    else:
        s = sum(xx[n + k] * np.conj(yy[n]) for n in range(N - k))
    if norm == "biased":
        return s / N
    if norm == "unbiased":
        return s / (N - k)
    if norm is None:
        return s
    if norm == "coeff":  # autocorrelation only
        return s / (N * np.mean(np.abs(xx) ** 2))
    raise ValueError(norm)


# --------------------------------------------------------------------------------------------------
# per-lag comparison.  The max-norm comparisons below are relative to the LARGEST lag value (r[0] for an autocorrelation):
# one wrong low-power lag (a product dropped or counted twice at a block boundary of a long record, a wrong divisor at one
# lag) may stay below them.  Every lag k is therefore also compared with its own defined value e[k], at relative
# tolerance tol on the scale
#       max(|e[k]|,  LAGFLOOR * B[k],  gfloor * G[k])
#   B[k] = sum_n |x[n+k]| |y[n]| / divisor   (the lag's own absolute sum: floor for lags whose products cancel)
#   G[k] = ||x||_2 ||y||_2 / divisor         (bound of every lag; round-off scale of an FFT-based correlation)
# gfloor = 0 for the explicit lag sums (CORRELATION, the corrmtx Gram matrix: a lag without non-zero products must be
# exactly zero) and 1e-3 for xcorr (scipy.signal.correlate switches to the FFT on long records).
# Measured on the unchanged code (/tmp/c09_probe.py: N = 1024 .. 65539, noise / int / const / trend / tone / dyn data,
# dyadic and generic doubles, amplitudes 2^-30 .. 2^23, and the quick + thorough runs of this module):
#   CORRELATION  worst |r-e| / max(|e|, 1e-3 B)          = 1.2e-13   (tol 1e-10: margin 800x)
#   Gram matrix  worst                                    = 2.5e-14   (margin 4000x)
#   xcorr        worst |r-e| / max(|e|, 1e-3 B)          = 3.6e-13   (margin 270x);   worst |r-e| / G = 9.7e-16, i.e.
#                1e-10 * gfloor = 1e-13 leaves a margin of 100x for the lags whose own scale is below 1e-3 G
LAGFLOOR = 1e-3
TOL_LAG = 1e-10


def _pad2(x, y):
    N = max(len(x), len(y))
    xx = np.zeros(N, dtype=complex)
    yy = np.zeros(N, dtype=complex)
    xx[: len(x)] = x
    yy[: len(y)] = y
    return xx, yy


def _lagscale(x, y, ks, norm, gfloor):
    """per-lag scale for the lags ks (k >= 0: r_xy[k]; k < 0: conj(r_yx[-k]), same absolute sums with x and y swapped)"""
    xx, yy = _pad2(x, y)
    N = len(xx)
    ax, ay = np.abs(xx), np.abs(yy)
    g = float(np.sqrt(np.sum(ax ** 2))) * float(np.sqrt(np.sum(ay ** 2)))
    B = np.zeros(len(ks))
    d = np.ones(len(ks))
    for i, k in enumerate(ks):
        a = abs(int(k))
        B[i] = float(np.dot(ax[a:N], ay[: N - a])) if k >= 0 else float(np.dot(ay[a:N], ax[: N - a]))
        if norm == "biased":
            d[i] = N
        elif norm == "unbiased":
            d[i] = N - a
        elif norm == "coeff":      # autocorrelation only
            d[i] = N * float(np.mean(ax ** 2))
    return B / d, np.full(len(ks), g) / d * gfloor


def _perlag(r, e, B, Gf, tol):
    """None, or (index, |r-e|, scale) of the lag that is worst relative to its own scale"""
    r = np.asarray(r).astype(complex)
    e = np.asarray(e).astype(complex)
    if r.shape != e.shape or not (np.all(np.isfinite(r)) and np.all(np.isfinite(e))):
        return None                 # reported by the max-norm comparison
    sc = np.maximum(np.maximum(np.abs(e), LAGFLOOR * B), Gf)
    err = np.abs(r - e)
    bad = err > tol * sc
    if not np.any(bad):
        return None
    q = np.where(bad, err / np.maximum(sc, 1e-300), 0.0)
    i = int(np.argmax(q))
    return i, float(err[i]), float(sc[i])


def _nm(norm):
    return "none" if norm is None else norm


# --------------------------------------------------------------------------------------------------
# what is handed to the library: the stored samples, or (param "ro": "x" | "y") a read-only view of them that does not own
# its memory; (param "call") the calling convention; every call is bracketed by a snapshot of its arguments

def _mk(p, k):
    a = p[k]
    if p.get("ro") == k:
        v = np.asarray(a).view()
        v.flags.writeable = False
        return v
    return a


def _snap(a):
    if a is None:
        return None
    if isinstance(a, list):
        return ("list", len(a), [(type(v).__name__, complex(v)) for v in a])
    a_ = np.asarray(a)
    return (type(a).__name__, a_.shape, a_.dtype.str, a_.tobytes(), bool(a_.flags.writeable))


def _copy_of(a):
    return list(a) if isinstance(a, list) else np.array(a, copy=True)


def _invoke(name, p):
    """name: "CORRELATION" or "xcorr".  Returns (result, names of the arguments the call modified)."""
    fn = getattr(_sp(), name)
    c = p.get("call", "kw")
    x = _mk(p, "x")
    y = None if p["auto"] else _mk(p, "y")
    if c == "ycopy":                       # autocorrelation requested with an explicit second argument equal to the first
        y = _copy_of(x)
    before = (_snap(x), _snap(y))
    if c in ("kw", "ycopy"):
        if c == "ycopy" and p["maxlags"] is None:
            out = fn(x, y, norm=p["norm"])
        else:
            out = fn(x, y, maxlags=p["maxlags"], norm=p["norm"])
    elif c == "default":                   # p["norm"] / p["maxlags"] state what the defaults are documented to be
        dn = "unbiased" if name == "CORRELATION" else "biased"
        if p["norm"] != dn or p["maxlags"] is not None:
            raise RuntimeError("harness: a 'default' call case must carry the documented defaults")
        out = fn(x) if y is None else fn(x, y)
    elif c == "pos":
        out = fn(x, y, p["maxlags"], p["norm"])
    else:
        raise RuntimeError("harness: unknown call style %r" % (c,))
    changed = [n for n, a, s in (("x", x, before[0]), ("y", y, before[1])) if a is not None and _snap(a) != s]
    return out, changed


def _second(p):
    """the second sequence of the definition (the model / reference view of the call)"""
    return np.asarray(p["x"]) if p["auto"] else np.asarray(p["y"])


def impl_corr(p):
    r, _ = _invoke("CORRELATION", p)
    return [np.asarray(r)]


def model_corr(p):
    x = np.asarray(p["x"])
    y = _second(p)
    N = max(len(x), len(y))
    ml = N - 1 if p["maxlags"] is None else p["maxlags"]
    return ("Q", proto.request("corr", "Q", [ml, _nm(p["norm"])], [x, y]))


def _oracle_corr(tol):
    def oracle_corr(p):
        x = np.asarray(p["x"])
        y = _second(p)
        N = max(len(x), len(y))
        ml = N - 1 if p["maxlags"] is None else p["maxlags"]
        r, changed = _invoke("CORRELATION", p)
        r = np.asarray(r)
        out = []
        for c in changed:
            out.append("CORRELATION modified its argument %s (lens %d/%d, maxlags=%s)" % (c, len(x), len(y), p["maxlags"]))
        if r.ndim != 1 or len(r) != ml + 1:
            return out + ["CORRELATION returned %s lags for maxlags=%s (N=%d)" % (r.shape, p["maxlags"], N)]
        e = np.array([_ref(x, y, k, p["norm"]) for k in range(ml + 1)])
        if rel(r.astype(complex), e) > tol:
            out.append("CORRELATION(%s, norm=%s, lens %d/%d, maxlags=%s, call=%s, %s/%s) differs from the definition: got %s expected %s" % (
                "auto" if p["auto"] else "cross", p["norm"], len(x), len(y), p["maxlags"], p.get("call", "kw"),
                _cls(p["x"]), _cls(p.get("y")), np.round(r[:4], 6), np.round(e[:4], 6)))
        B, Gf = _lagscale(x, y, range(ml + 1), p["norm"], 0.0)
        w = _perlag(r, e, B, Gf, max(tol, TOL_LAG))
        if w:
            out.append("CORRELATION(%s, norm=%s, lens %d/%d, maxlags=%s, call=%s, %s/%s) lag %d differs from its definition relative to "
                       "that lag's own scale: got %r expected %r (|diff| %.3e, scale %.3e, lag sum over %d products)" % (
                           "auto" if p["auto"] else "cross", p["norm"], len(x), len(y), p["maxlags"], p.get("call", "kw"),
                           _cls(p["x"]), _cls(p.get("y")), w[0], complex(r[w[0]]), complex(e[w[0]]), w[1], w[2], N - w[0]))
        if not np.any(x) and not np.any(y) and p["norm"] != "coeff" and np.any(r != 0):
            out.append("CORRELATION of all-zero records is not exactly zero (norm=%s)" % p["norm"])
        if p["auto"] and p["norm"] == "biased":
            r0 = r[0]
            xc = x.astype(complex)
            if abs(np.imag(r0)) > 1e-12 * max(abs(r0), 1e-300) or abs(r0 - np.mean(np.abs(xc) ** 2)) > max(tol, 1e-10) * max(abs(r0), 1e-300):
                out.append("biased r[0] != mean|x|^2")
            if np.any(np.abs(r) > abs(r0) * (1 + max(tol, 1e-10)) + 1e-300):
                out.append("biased |r[k]| > r[0]")
            from scipy.linalg import toeplitz
            T = toeplitz(r, np.conj(r))
            T = (T + T.conj().T) / 2
            ev = np.linalg.eigvalsh(T)
            if ev.min() < -1e-9 * max(abs(r0), 1e-300):
                out.append("biased autocorrelation Toeplitz matrix is not positive semi-definite (min eig %.3e)" % ev.min())
        if p["auto"] and p["norm"] == "coeff" and abs(r[0] - 1) > 1e-12:
            out.append("coeff autocorrelation is not 1 at lag 0")
        return out
    return oracle_corr


oracle_corr = _oracle_corr(1e-10)


def impl_xcorr(p):
    (r, l), _ = _invoke("xcorr", p)
    return [np.asarray(r), np.asarray(l, dtype=float)]


def model_xcorr(p):
    x = np.asarray(p["x"])
    y = _second(p)
    N = len(x)
    ml = N - 1 if p["maxlags"] is None else p["maxlags"]
    return ("Q", proto.request("xcorr", "Q", [ml, _nm(p["norm"])], [x, y]))


def post_xcorr(p, iv, mv):
    N = len(p["x"])
    ml = N - 1 if p["maxlags"] is None else p["maxlags"]
    return iv, [mv[0], np.arange(-ml, ml + 1, dtype=float)]


def oracle_xcorr(p):
    x = np.asarray(p["x"])
    y = _second(p)
    N = len(x)
    ml = N - 1 if p["maxlags"] is None else p["maxlags"]
    (r, l), changed = _invoke("xcorr", p)
    r = np.asarray(r)
    out = []
    for c in changed:
        out.append("xcorr modified its argument %s (N=%d, maxlags=%s)" % (c, N, p["maxlags"]))
    if list(l) != list(range(-ml, ml + 1)) or r.ndim != 1 or len(r) != 2 * ml + 1:
        return out + ["xcorr lags are not -maxlags..maxlags (N=%d maxlags=%s): %s" % (N, p["maxlags"], l[:5])]
    e = np.array([_ref(x, y, k, p["norm"]) if k >= 0 else np.conj(_ref(y, x, -k, p["norm"]))
                  for k in range(-ml, ml + 1)])
    if rel(r.astype(complex), e) > 1e-10:
        out.append("xcorr(%s, norm=%s, N=%d, maxlags=%s, call=%s, %s/%s) differs from the definition" % (
            "auto" if p["auto"] else "cross", p["norm"], N, p["maxlags"], p.get("call", "kw"), _cls(p["x"]), _cls(p.get("y"))))
    B, Gf = _lagscale(x, y, range(-ml, ml + 1), p["norm"], LAGFLOOR)
    w = _perlag(r, e, B, Gf, TOL_LAG)
    if w:
        out.append("xcorr(%s, norm=%s, N=%d, maxlags=%s, call=%s, %s/%s) lag %d differs from its definition relative to that lag's "
                   "own scale: got %r expected %r (|diff| %.3e, scale %.3e)" % (
                       "auto" if p["auto"] else "cross", p["norm"], N, p["maxlags"], p.get("call", "kw"), _cls(p["x"]),
                       _cls(p.get("y")), w[0] - ml, complex(r[w[0]]), complex(e[w[0]]), w[1], w[2]))
    if not np.any(x) and not np.any(y) and p["norm"] != "coeff" and np.any(r != 0):
        out.append("xcorr of all-zero records is not exactly zero (norm=%s)" % p["norm"])
    # consistency with CORRELATION at non-negative lags (all of them up to N = 300; the first 61 of a longer record, where
    # the explicit lag sums of CORRELATION cost O(N * maxlags) interpreter steps)
    sp = _sp()
    mc = ml if N <= 300 else min(ml, 60)
    rc = sp.CORRELATION(p["x"], None if p["auto"] else p["y"], maxlags=mc, norm=p["norm"])
    if rel(r[ml: ml + mc + 1].astype(complex), np.asarray(rc).astype(complex)) > 1e-10:
        out.append("xcorr and CORRELATION disagree at non-negative lags (norm=%s)" % p["norm"])
    # ... and lag by lag, each on its own scale
    w = _perlag(r[ml: ml + mc + 1], rc, B[ml: ml + mc + 1], Gf[ml: ml + mc + 1], TOL_LAG)
    if w:
        out.append("xcorr and CORRELATION disagree at lag %d relative to that lag's own scale (norm=%s, N=%d, maxlags=%s, %s): "
                   "xcorr %r CORRELATION %r (|diff| %.3e, scale %.3e)" % (
                       w[0], p["norm"], N, p["maxlags"], "auto" if p["auto"] else "cross", complex(r[ml + w[0]]), complex(np.asarray(rc)[w[0]]),
                       w[1], w[2]))
    return out


_MTX_ROWS = {"autocorrelation": lambda N, m: N + m, "prewindowed": lambda N, m: N, "postwindowed": lambda N, m: N,
             "covariance": lambda N, m: N - m, "modified": lambda N, m: 2 * (N - m)}


def impl_mtx(p):
    sp = _sp()
    C = np.asarray(sp.corrmtx(p["x"], p["m"], p["method"]))
    return [np.array(C.shape, dtype=float)] + [C[i, :] for i in range(C.shape[0])]


def model_mtx(p):
    return ("Q", proto.request("corrmtx", "Q", [p["m"], p["method"]], [np.asarray(p["x"])]))


def oracle_mtx(p):
    sp = _sp()
    xin = p["x"]
    x = np.asarray(xin)
    m = p["m"]
    N = len(x)
    out = []
    before = _snap(xin)
    X = np.asarray(sp.corrmtx(xin, m, p["method"]))
    if _snap(xin) != before:
        out.append("corrmtx modified its argument (method=%s N=%d m=%d)" % (p["method"], N, m))
    if X.shape != (_MTX_ROWS[p["method"]](N, m), m + 1):
        return out + ["corrmtx(%s, N=%d, m=%d) has shape %s" % (p["method"], N, m, X.shape)]
    X = X.astype(complex if np.iscomplexobj(X) else float)        # single-precision input: Gram matrix in doubles
    xd = x.astype(complex if np.iscomplexobj(x) else float)
    if m == 0:
        # order 0: every data matrix is the data column itself (followed by its conjugate for 'modified'): Gram = N * r[0]
        G0 = (X.conj().T @ X)[0, 0]
        e0 = float(np.sum(np.abs(xd) ** 2)) * (2 if p["method"] == "modified" else 1)
        if abs(G0 - e0) > 1e-12 * max(e0, 1e-300):
            out.append("order-0 '%s' data matrix: Gram %r != %s sum|x|^2 = %r (N=%d)" % (
                p["method"], G0, "2 *" if p["method"] == "modified" else "", e0, N))
    if p["method"] == "autocorrelation":
        r = sp.CORRELATION(xd, maxlags=m, norm="biased")
        from scipy.linalg import toeplitz
        G = X.conj().T @ X
        T = toeplitz(np.conj(r), r)   # Hermitian Toeplitz with first row r
        T2 = toeplitz(r, np.conj(r))
        if rel(G, N * T) > 1e-10 and rel(G, N * T2) > 1e-10:
            out.append("Gram matrix of the 'autocorrelation' data matrix != N * Toeplitz(r_biased) (N=%d m=%d)" % (N, m))
        # the same against the definition (not the library's CORRELATION): G[i, j] = sum_n conj(x[n-i]) x[n-j] = N r[i-j]
        re = np.array([_ref(xd, xd, k, "biased") for k in range(m + 1)])
        if rel(G, N * toeplitz(re, np.conj(re))) > 1e-10:
            out.append("Gram matrix of the 'autocorrelation' data matrix != N * Toeplitz of the defined biased "
                       "autocorrelation, entry (i, j) = r[i-j] (N=%d m=%d)" % (N, m))
        # entry by entry, each relative to the scale of its own lag |i-j| (against the definition and against CORRELATION)
        B, Gf = _lagscale(xd, xd, range(m + 1), "biased", 0.0)
        ii, jj = np.indices((m + 1, m + 1))
        kk = np.abs(ii - jj)
        for nm_, rr in (("the defined biased autocorrelation", re), ("CORRELATION(norm='biased')", np.asarray(r))):
            if G.shape != (m + 1, m + 1) or len(rr) != m + 1:
                break
            w = _perlag(G.ravel(), (N * toeplitz(rr, np.conj(rr))).ravel(), (N * B)[kk].ravel(), (N * Gf)[kk].ravel(), TOL_LAG)
            w2 = _perlag(G.ravel(), (N * toeplitz(np.conj(rr), rr)).ravel(), (N * B)[kk].ravel(), (N * Gf)[kk].ravel(), TOL_LAG)
            if w and (w2 or nm_.startswith("the defined")):
                i_, j_ = divmod(w[0], m + 1)
                out.append("Gram matrix of the 'autocorrelation' data matrix: entry (%d, %d) != N * r[%d] of %s relative to "
                           "that lag's own scale (N=%d m=%d): got %r expected %r (|diff| %.3e, scale %.3e)" % (
                               i_, j_, i_ - j_, nm_, N, m, complex(G[i_, j_]), complex(N * toeplitz(rr, np.conj(rr))[i_, j_]), w[1], w[2]))
    return out


def _cls(a):
    """container / dtype class of an input"""
    if a is None:
        return "-"
    if isinstance(a, list):
        ts = {type(v).__name__ for v in a}
        return "list[%s]" % ",".join(sorted(ts))
    return str(np.asarray(a).dtype)


def _key(p):
    x = np.asarray(p["x"])
    k = "%s|%s|%s|%s|%s|%d" % (len(x), len(p.get("y", [])), p.get("norm"), p.get("maxlags"), p.get("method"),
                               hash(x.tobytes()) & 0xFFFFFF)
    return k + "|%s|%s|%s|%s|%s|%s" % (int(bool(p.get("auto"))), p.get("m"), p.get("call", "kw"), p.get("ro"), _cls(p["x"]),
                                       _cls(p.get("y")))


def _tags(p):
    x = np.asarray(p["x"])
    t = ["complex" if np.iscomplexobj(x) else "real", "norm:%s" % p.get("norm"), "auto" if p.get("auto") else "cross"]
    if "y" in p and not p.get("auto"):
        t.append("len:" + ("equal" if len(p["y"]) == len(x) else ("x-shorter" if len(x) < len(p["y"]) else "y-shorter")))
        t.append("pair:%s/%s" % (_cls(p["x"]), _cls(p["y"])))
    else:
        t.append("in:" + _cls(p["x"]))
    if p.get("call", "kw") != "kw":
        t.append("call:" + p["call"])
    if p.get("ro"):
        t.append("read-only-view")
    N = max(len(x), len(p.get("y", [])))
    if N > 40:
        t.append("long:%s:%s" % (p.get("norm"), "all-lags" if p.get("maxlags") in (None, N - 1) else
                                 ("half" if p.get("maxlags") == N // 2 else "few")))
    if not np.any(x):
        t.append("zero-energy")
    t += _blk_tags(N)
    if p.get("gen"):
        t.append("data:generic-doubles:" + p["gen"])
    return t


def _blk(N):
    """(B, q, r) with N = q * B + r, B in {1024, 2048, 4096, 8192, 65536}, q in 1..3, 0 <= r <= 8, or None.  The smallest such B:
    2 * 2^k + r = 1 * 2^(k+1) + r is counted under the smaller block"""
    for B in (1024, 2048, 4096, 8192, 65536):
        q, r = divmod(N, B)
        if 1 <= q <= 3 and r <= 8:
            return B, q, r
    return None


def _blk_tags(N):
    b = _blk(N)
    if not b:
        return []
    return ["blk:N=q*2^k+r", "blk:2^%d" % (b[0].bit_length() - 1), "blk:q=%d" % b[1], "blk:r=%d" % b[2]]


def _mtx_tags(p):
    return (["mtx:" + p["method"], "dtype:%s" % _cls(p["x"])] + (["mtx:m=0"] if p["m"] == 0 else [])
            + ["mtx:" + t for t in _blk_tags(len(p["x"]))])


_NT = lambda p: len(p["x"]) >= 2       # noqa: E731

KINDS = {
    "corr": {"impl": impl_corr, "model": model_corr, "oracle": oracle_corr, "rtol": 1e-12, "atol": 1e-300,
             "key": _key, "tags": _tags, "nontrivial": _NT},
    "xcorr": {"impl": impl_xcorr, "model": model_xcorr, "oracle": oracle_xcorr, "rtol": 1e-12, "atol": 1e-300,
              "post": post_xcorr, "key": _key, "tags": _tags, "nontrivial": _NT},
    "corrmtx": {"impl": impl_mtx, "model": model_mtx, "oracle": oracle_mtx, "rtol": 1e-12, "atol": 0.0,
                "key": _key, "tags": _mtx_tags, "nontrivial": _NT},
    # records longer than 600 samples: statement against the definition only (see PARTIAL)
    "corr_o": {"oracle": oracle_corr, "key": _key, "tags": _tags, "nontrivial": _NT},
    "xcorr_o": {"oracle": oracle_xcorr, "key": _key, "tags": _tags, "nontrivial": _NT},
    # data matrix of a long record (N + m rows): Gram clause against the definition only
    "corrmtx_o": {"oracle": oracle_mtx, "key": _key, "tags": _mtx_tags, "nontrivial": _NT},
    # one input in single precision, the other in doubles (unequal lengths): the lag products are formed in doubles, the
    # padding of the shorter input keeps its type; compared with the definition on the same sample values at 1e-6
    "corr_sp": {"impl": impl_corr, "model": model_corr, "oracle": _oracle_corr(1e-6), "rtol": 1e-6, "atol": 1e-300,
                "key": _key, "tags": _tags, "nontrivial": _NT},
    # rejected calls: the model must reject them with the same error kind (no statement of the property is evaluated)
    "corr_err": {"impl": impl_corr, "model": model_corr, "strict_errors": True, "key": _key, "tags": lambda p: ["error-path"],
                 "nontrivial": lambda p: False},
    "xcorr_err": {"impl": impl_xcorr, "model": model_xcorr, "post": post_xcorr, "strict_errors": True, "key": _key,
                  "tags": lambda p: ["error-path"], "nontrivial": lambda p: False},
    "corrmtx_err": {"impl": impl_mtx, "model": model_mtx, "strict_errors": True, "key": _key,
                    "tags": lambda p: ["error-path"], "nontrivial": lambda p: False},
}

DATA = ["noise", "int", "const", "noise", "trend"]


def _data(nrng, N, cplx, i):
    kind = DATA[i % 5]
    x, _ = gen_data(nrng, N, cplx, kind=kind, exact=True)
    return np.asarray(x, dtype=complex if cplx else float)


# input containers / dtypes other than float64 / complex128 ndarrays (all integer valued: exact in every representation)
CONT = ["list", "listint", "int64", "int16", "int8", "uint8", "listcplx", "int32"]


def _contain(nrng, N, cls):
    """N integer-valued samples (never all zero) held in the container class cls; narrow integer types use their full
    range, so that a product of two samples does not fit the sample type"""
    if cls == "listcplx":
        x, _ = gen_data(nrng, N, True, kind="list")
        return as_input(x, "list")
    if cls == "list":
        x, _ = gen_data(nrng, N, False, kind="list")
        return as_input(x, "list")
    if cls == "listint":
        x, _ = gen_data(nrng, N, False, kind="list")
        return [int(v) for v in x]
    if cls == "int64":
        x, _ = gen_data(nrng, N, False, kind="intdtype")
        return np.asarray(x, dtype=np.int64)
    dt = {"int16": np.int16, "int8": np.int8, "uint8": np.uint8, "int32": np.int32}[cls]
    lo, hi = (np.iinfo(dt).min, np.iinfo(dt).max) if dt is not np.int32 else (-100000, 100000)
    x = nrng.integers(lo, hi + 1, N)
    if N > 0:
        x[int(nrng.integers(0, N))] = hi if int(nrng.integers(0, 2)) else (lo if lo else hi)     # an extreme value is present
    return x.astype(dt)


def _pick_ml(nrng, N):
    return [0, N - 1, N // 2, None, int(nrng.integers(0, N))][int(nrng.integers(0, 5))]


KINDS["single"] = single.kind("C09")

# --------------------------------------------------------------------------------------------------
# long records at and just above block-size boundaries: N = q * 2^k + r.  An implementation that forms the lag sums block
# by block (numpy.dot over chunks, overlap-add, a size-gated fast path) has its off-by-one errors exactly where the number
# of products N - k of a lag is a multiple of the block size (+- 1); with maxlags <= 8 and r <= 8 the lags of one call
# sweep N - k over q * 2^k + r - 8 .. q * 2^k + r, i.e. across the boundary.
BLK_B = [1024, 2048, 4096, 8192]
BLK_Q = [1, 2, 3]
BLK_R = [0, 1, 2, 3, 5, 8]
# exact-rational model (its lag sums cost O(N^2) list steps: 0.06 s at N = 1024, 0.25 s at 2048, 1 s at 4100): records up
# to this length, plus one record just above 4096 per generator run; longer ones against the definition only
BLK_MODEL_N = 2100
GENERIC = ["noise", "tone", "trend", "dyn"]


def _long_data(nrng, N, cplx, exact, c):
    """exact: the dyadic classes of _data; otherwise generic doubles (products and sums are rounded)"""
    if exact:
        return _data(nrng, N, cplx, c), None
    k = GENERIC[c % 4]
    x, _ = gen_data(nrng, N, cplx, kind=k, exact=False)
    return np.asarray(x, dtype=complex if cplx else float), k


def _blk_cases(nrng, lengths, model_extra, with_mtx=True):
    """lengths: list of N.  Per length one CORRELATION case; an xcorr case when the two records have equal length; a
    corrmtx 'autocorrelation' Gram case for every other length.  mode (auto / cross equal / cross y shorter / cross x
    shorter) = i mod 4, norm = (i div 4) mod 4 (both shifted by offsets drawn per generator run), real / complex and
    dyadic / generic data by balanced random permutations."""
    o = [int(v) for v in nrng.integers(0, 48, 2)]
    n2 = (len(lengths) + 1) // 2
    cplxs = nrng.permutation([False, True] * n2)        # balanced, crossed at random with mode and norm
    exacts = nrng.permutation([False, True] * n2)
    for i, N in enumerate(lengths):
        r_ = _blk(N)[2] if _blk(N) else 0
        mode = (i + o[0]) % 4
        norm = NORMS[(i // 4 + o[1]) % 4]
        cplx = bool(cplxs[i])
        use_model = N <= BLK_MODEL_N or N in model_extra
        exact = use_model or bool(exacts[i])
        ml = 8 if int(nrng.integers(0, 4)) else min(8, r_ + 1)
        c = int(nrng.integers(0, 20))
        auto = mode == 0
        if norm == "coeff" and not auto:
            norm = "biased"
        # the shorter record of an unequal pair: a few samples short (the padding starts inside the last products of
        # the small lags) or much shorter
        ns = N - 1 - int(nrng.integers(0, 3)) if int(nrng.integers(0, 2)) else max(2, N // 3 + int(nrng.integers(0, 7)))
        nx, ny = {0: (N, N), 1: (N, N), 2: (N, ns), 3: (ns, N)}[mode]
        x, g = _long_data(nrng, nx, cplx, exact, c)
        q = {"x": x, "auto": auto, "norm": norm, "maxlags": ml}
        if not auto:
            # one in four pairs mixes a real and a complex record
            q["y"], _ = _long_data(nrng, ny, cplx if int(nrng.integers(0, 4)) else not cplx, exact, c + 1 + int(nrng.integers(0, 3)))
        if g:
            q["gen"] = g
        yield ("corr" if use_model else "corr_o", q)
        if nx == ny:
            yield ("xcorr" if use_model and N <= BLK_MODEL_N else "xcorr_o", dict(q))
        if with_mtx and (i + o[0] // 4) % 2 == 0:
            xm, g = _long_data(nrng, N, bool(cplxs[i - 1]), bool(exacts[i - 1]), c + 2)
            yield ("corrmtx_o", {"x": xm, "m": ml, "method": "autocorrelation"})


# --------------------------------------------------------------------------------------------------
# call SEQUENCES on the same data (kinds "seq" / "seq_o").  Every kind above judges one call in isolation and only READS what
# it gets back.  The statement holds for every call on valid inputs whatever happened before, so a case of these kinds is a
# short history on one or two records:
#   * calls of CORRELATION / xcorr / corrmtx (all methods; the 'autocorrelation' Gram clause is judged), each judged against
#     the definition (max-norm and lag by lag, same tolerances as the single-call kinds: the unchanged code is stateless,
#     its results inside a history are bit-identical to the isolated ones);
#   * after a call the caller may modify the array(s) it was GIVEN BACK, in place (MUTS: r /= r[0], r *= 0, r[:] = nan,
#     r -= r.mean(), r[0] = c, r *= c, r[:] = r[::-1]); later calls on the same data values (same or smaller maxlags, same and
#     other norms, through all three functions, the same array objects or new objects / lists with equal values) must still
#     return the definition: returned arrays must not be windows into module-level state;
#   * the arrays returned by EARLIER calls are kept: a later call, or the caller writing into a later result, must not change
#     them (results must not alias each other); writing into a result must not change the caller's inputs (results must not
#     alias arguments); no call may modify its arguments;
#   * two records alternate (independent / equal length, sum, energy, end samples but two interior samples exchanged /
#     shorter / of the other type); the caller may modify its INPUT array in place between calls (same object, new values:
#     POKES) - the next result must be the definition on the new values; a rejected call (maxlags >= N) may sit in between;
#   * at the end every kept result is overwritten in place and every call of the history is made once more on the current
#     values and judged again ("closing round").
# When something fails, the message lists which kept results share memory with each other or with an object reachable from
# the spectrum modules (numpy.shares_memory; not a violation by itself).
MUTS = ["div0", "zero", "nan", "demean", "set0", "scale", "rev"]
POKES = ["neg", "scale2", "swap", "bump", "roll"]
MTX_METHODS = ["autocorrelation", "prewindowed", "postwindowed", "covariance", "modified"]
# worst errors seen by the sequence judge in this process (VERIF_C09_STATS=1 prints them at exit); measured on the unchanged
# code over quick seeds 0..4 and one thorough run: see the comment at _seq_judge
_SEQ_STATS = {"max": 0.0, "lag": 0.0, "n": 0}


def _clone(a):
    """a new object holding the same values: same dtype (byte order included), same kind of stride"""
    if isinstance(a, list):
        return list(a)
    a = np.asarray(a)
    if a.ndim == 1 and a.size > 1 and a.strides[0] == 2 * a.itemsize:
        buf = np.empty(2 * a.size, dtype=a.dtype)
        buf[1::2] = 7.25e3
        buf[::2] = a
        return buf[::2]
    if a.ndim == 1 and a.size > 1 and a.strides[0] < 0:
        return a[::-1].copy()[::-1]
    return a.copy()


def _mutate(arr, how):
    """in-place arithmetic of a caller on an array it was given back.  False if the array refuses to be written"""
    if not isinstance(arr, np.ndarray) or arr.size == 0:
        return False
    try:
        with np.errstate(all="ignore"):
            if how == "div0":
                d = arr.flat[0]
                arr /= (d if (np.isfinite(d) and d != 0) else 3.0)
            elif how == "zero":
                arr *= 0
            elif how == "nan":
                arr[...] = np.nan
            elif how == "demean":
                arr -= arr.mean()
            elif how == "set0":
                arr.flat[0] = 12345.0
            elif how == "scale":
                arr *= 0.125
            elif how == "rev":
                arr[...] = arr[::-1].copy()
            else:
                raise RuntimeError("harness: unknown mutation %r" % (how,))
        return True
    except (TypeError, ValueError):
        # integer lag vectors do not take a true division / a nan; a read-only array takes nothing
        try:
            arr[...] = 0
            return True
        except (TypeError, ValueError):
            return False


def _poke(rec, how):
    """the caller edits its own input record in place (same object, new values; exact on dyadic data)"""
    n = len(rec)
    amax = float(np.max(np.abs(np.asarray(rec).real))) if n else 0.0
    if how == "neg":
        rec *= -1
    elif how == "scale2":
        rec *= 2
    elif how == "swap":
        i, j = n // 3, n - 1 - n // 3
        if i != j and rec[i] != rec[j]:
            rec[i], rec[j] = rec[j].copy(), rec[i].copy()
        else:
            rec[n // 2] += amax or 1.0
    elif how == "bump":
        rec[n // 2] += amax or 1.0
    elif how == "roll":
        rec[...] = np.roll(np.asarray(rec), 1).copy()
    else:
        raise RuntimeError("harness: unknown input edit %r" % (how,))
    if n and not np.any(rec):
        rec[0] = 1.0          # never an all-zero record (see ASSUMPTIONS)


def _bytes(a):
    a = np.asarray(a)
    return (a.shape, a.dtype.str, a.tobytes())


def _step_desc(s):
    if s["op"] in ("poke", "reject"):
        return "%s(%s%s)" % (s["op"], s["a"], "," + s["how"] if s["op"] == "poke" else "")
    d = "%s(%s%s,ml=%s" % (s["op"], s["a"], "," + s["b"] if s.get("b") else "", s.get("maxlags"))
    d += "," + str(s.get("method") if s["op"] == "mtx" else s.get("norm"))
    if s.get("fresh"):
        d += ",new-" + s["fresh"]
    d += ")"
    if s.get("mut"):
        d += "->" + s["mut"]
    return d


def _seq_desc(steps, upto=None):
    return "[" + "; ".join(_step_desc(s) for s in (steps if upto is None else steps[: upto + 1])) + "]"


def _collect_arrays(name, v, out, depth, seen):
    if id(v) in seen or len(out) > 4000:
        return
    seen.add(id(v))
    if isinstance(v, np.ndarray):
        out.append((name, v))
    elif depth < 3 and isinstance(v, dict):
        for k, w in list(v.items())[:64]:
            _collect_arrays("%s[%r]" % (name, k), w, out, depth + 1, seen)
    elif depth < 3 and isinstance(v, (list, tuple, set, frozenset)):
        for k, w in enumerate(list(v)[:64]):
            _collect_arrays("%s[%d]" % (name, k), w, out, depth + 1, seen)
    elif depth < 3 and callable(v) and getattr(v, "__module__", None) and str(v.__module__).startswith("spectrum"):
        for an in ("__defaults__", "__kwdefaults__", "__dict__"):
            w = getattr(v, an, None)
            if w:
                _collect_arrays("%s.%s" % (name, an), tuple(w) if isinstance(w, tuple) else dict(w), out, depth + 1, seen)
        for k, c in enumerate(getattr(v, "__closure__", None) or ()):
            try:
                _collect_arrays("%s.<closure %d>" % (name, k), c.cell_contents, out, depth + 1, seen)
            except ValueError:
                pass
    elif depth < 2 and type(v).__module__.startswith("spectrum") and hasattr(v, "__dict__"):
        _collect_arrays(name + ".__dict__", dict(vars(v)), out, depth + 1, seen)


def _module_arrays():
    """ndarrays reachable from the attributes of the imported spectrum modules (module globals, containers in them, function
    defaults / attributes / closures, instances at module level)"""
    import sys
    out, seen = [], set()
    for mn, m in sorted(sys.modules.items()):
        if m is None or not (mn == "spectrum" or mn.startswith("spectrum.")):
            continue
        for an, v in list(vars(m).items()):
            if an.startswith("__"):
                continue
            _collect_arrays("%s.%s" % (mn, an), v, out, 0, seen)
    return out


def _alias_report(kept):
    """tripwires, computed only when something failed: kept results that share memory with each other or with module state,
    or that are not writeable"""
    notes = []
    try:
        mods = _module_arrays()
        flat = [(j, i, a) for j, arrs, _ in kept for i, a in enumerate(arrs) if isinstance(a, np.ndarray)]
        for n_, (j, i, a) in enumerate(flat):
            for mn, w in mods:
                if a is w or (np.may_share_memory(a, w) and np.shares_memory(a, w)):
                    notes.append("result of step %d %s %s" % (j, "IS" if a is w else "shares memory with", mn))
            for j2, i2, b in flat[n_ + 1:]:
                if j2 != j and np.may_share_memory(a, b) and np.shares_memory(a, b):
                    notes.append("results of steps %d and %d share memory" % (j, j2))
            if not a.flags.writeable:
                notes.append("result of step %d is not writeable" % j)
    except Exception as e:                               # the report is context only
        notes.append("alias scan failed: %r" % (e,))
    return (" {memory: " + "; ".join(notes[:6]) + "}") if notes else ""


def _seq_judge(s, out_arrays, a, b, tol=1e-10):
    """s: a call step; out_arrays: what the call returned; a, b: the CURRENT values of its records (b None = auto).
    Returns the list of differences from the definition.
    Tolerances are those of the single-call oracles above (1e-10 max-norm; TOL_LAG = 1e-10 per lag on that lag's own scale).
    Worst seen on the unchanged code over the quick seeds 0..4 and one thorough run of these kinds (VERIF_C09_STATS=1, 8300 +
    50760 comparisons): max-norm 4.5e-16 (quick) / 9.6e-15 (thorough), per lag 5.2e-16 (quick) / 1.3e-14 (thorough) of the lag's
    scale - margin 7000x."""
    x = np.asarray(a)
    y = x if b is None else np.asarray(b)
    op, norm = s["op"], s.get("norm")
    N = max(len(x), len(y))
    ml = N - 1 if s.get("maxlags") is None else s["maxlags"]
    msgs = []

    def cmp(name, r, e, B, Gf):
        r = np.asarray(r)
        if r.shape != e.shape:
            return ["%s has shape %s, expected %s" % (name, r.shape, e.shape)]
        if not np.all(np.isfinite(r.astype(complex))):
            return ["%s contains non-finite values: %s" % (name, np.asarray(r).ravel()[:4])]
        m = []
        d = rel(r.astype(complex), e)
        _SEQ_STATS["max"] = max(_SEQ_STATS["max"], d)
        _SEQ_STATS["n"] += 1
        if d > tol:
            m.append("%s differs from the definition: got %s expected %s" % (name, np.round(r.ravel()[:4], 6), np.round(e.ravel()[:4], 6)))
        sc = np.maximum(np.maximum(np.abs(e.ravel()), LAGFLOOR * B.ravel()), Gf.ravel())
        if sc.size and np.all(sc > 0):
            _SEQ_STATS["lag"] = max(_SEQ_STATS["lag"], float(np.max(np.abs(r.astype(complex).ravel() - e.ravel()) / sc)))
        w = _perlag(r.ravel(), e.ravel(), B.ravel(), Gf.ravel(), max(tol, TOL_LAG))
        if w and not m:
            m.append("%s: element %d differs from its definition relative to that lag's own scale: got %r expected %r "
                     "(|diff| %.3e, scale %.3e)" % (name, w[0], complex(r.ravel()[w[0]]), complex(e.ravel()[w[0]]), w[1], w[2]))
        return m

    if op == "corr":
        e = np.array([_ref(x, y, k, norm) for k in range(ml + 1)])
        B, Gf = _lagscale(x, y, range(ml + 1), norm, 0.0)
        msgs += cmp("CORRELATION(norm=%s, maxlags=%s, lens %d/%d)" % (norm, s.get("maxlags"), len(x), len(y)), out_arrays[0], e, B, Gf)
    elif op == "xcorr":
        r, l = out_arrays
        if list(np.asarray(l)) != list(range(-ml, ml + 1)):
            msgs.append("xcorr lags are not -maxlags..maxlags (N=%d, maxlags=%s): %s" % (N, s.get("maxlags"), np.asarray(l)[:5]))
        e = np.array([_ref(x, y, k, norm) if k >= 0 else np.conj(_ref(y, x, -k, norm)) for k in range(-ml, ml + 1)])
        B, Gf = _lagscale(x, y, range(-ml, ml + 1), norm, LAGFLOOR)
        msgs += cmp("xcorr(norm=%s, maxlags=%s, N=%d)" % (norm, s.get("maxlags"), N), r, e, B, Gf)
    elif op == "mtx":
        C = np.asarray(out_arrays[0])
        if C.shape != (_MTX_ROWS[s["method"]](N, ml), ml + 1):
            msgs.append("corrmtx(%s, N=%d, m=%d) has shape %s" % (s["method"], N, ml, C.shape))
        elif s["method"] == "autocorrelation":
            from scipy.linalg import toeplitz
            C = C.astype(complex if np.iscomplexobj(C) else float)
            G = C.conj().T @ C
            xd = x.astype(complex if np.iscomplexobj(x) else float)
            re = np.array([_ref(xd, xd, k, "biased") for k in range(ml + 1)])
            B, Gf = _lagscale(xd, xd, range(ml + 1), "biased", 0.0)
            ii, jj = np.indices((ml + 1, ml + 1))
            kk = np.abs(ii - jj)
            msgs += cmp("Gram matrix of corrmtx(N=%d, m=%d, 'autocorrelation') vs N * Toeplitz(defined biased autocorrelation)" % (N, ml),
                        G, N * toeplitz(re, np.conj(re)), (N * B)[kk], (N * Gf)[kk])
    return msgs


def _seq_call(sp, s, a, b):
    """perform the call of step s on the records a, b (b None = autocorrelation).  Returns (arrays returned, passed a, passed b)"""
    fr = s.get("fresh")
    if fr == "copy":
        a = _clone(a)
        b = None if b is None else _clone(b)
    elif fr == "list":
        a = np.asarray(a).tolist()
        b = None if b is None else np.asarray(b).tolist()
    if s["op"] == "corr":
        out = [sp.CORRELATION(a, b, maxlags=s["maxlags"], norm=s["norm"])]
    elif s["op"] == "xcorr":
        out = list(sp.xcorr(a, b, maxlags=s["maxlags"], norm=s["norm"]))
    elif s["op"] == "mtx":
        m = s["maxlags"]
        out = [sp.corrmtx(a, len(a) - 1 if m is None else m, s["method"])]
    else:
        raise RuntimeError("harness: unknown step %r" % (s,))
    return out, a, b


def _seq_skip(s, a):
    """norm='coeff' on a record without energy is outside the statement (see ASSUMPTIONS)"""
    return s.get("norm") == "coeff" and not np.any(np.asarray(a))


def _run_seq(p, judge):
    """runs the history p["steps"] on private copies of the records.  Returns (messages, arrays returned by the last call)"""
    sp = _sp()
    steps = p["steps"]
    recs = {k: _clone(p[k]) for k in ("x", "y") if p.get(k) is not None}
    msgs = []
    kept = []          # (step index, arrays as returned [the caller's own objects], their expected bytes)
    first = {}         # (call signature, record bytes) -> bytes-free copy of the first result, for the history-independence check
    last = None
    where = "call sequence on the same data: "

    def check_kept(j, when):
        for j0, arrs, snaps in kept:
            if j0 == j:
                continue
            for arr, snap in zip(arrs, snaps):
                if isinstance(arr, np.ndarray) and _bytes(arr) != snap:
                    msgs.append(where + "the array returned by an earlier call (step %d) changed %s (step %d) in %s%s" % (
                        j0, when, j, _seq_desc(steps, j), _alias_report(kept)))
                    return

    for j, s in enumerate(steps):
        a = recs[s["a"]]
        b = recs[s["b"]] if s.get("b") else None
        if s["op"] == "poke":
            _poke(a, s["how"])
            if judge:
                check_kept(j, "when the caller edited its input record")
            continue
        if s["op"] == "reject":
            try:
                sp.CORRELATION(a, maxlags=len(a) + s.get("over", 0), norm=s.get("norm", "biased"))
            except Exception:
                pass
            continue
        if _seq_skip(s, a):
            continue
        before = {k: _bytes(v) for k, v in recs.items()}
        out, pa, pb = _seq_call(sp, s, a, b)
        out = [o for o in out]
        last = out
        if not judge:
            for o in out:
                if s.get("mut"):
                    _mutate(o, s["mut"])
            continue
        pbytes = [None if q is None or isinstance(q, list) else _bytes(q) for q in (pa, pb)]
        for k, v in recs.items():
            if _bytes(v) != before[k]:
                msgs.append(where + "step %d of %s modified the caller's record %s" % (j, _seq_desc(steps, j), k))
        for m in _seq_judge(s, out, a, b):
            msgs.append(where + "step %d of %s: %s%s" % (j, _seq_desc(steps, j), m, _alias_report(kept + [(j, out, None)])))
        # the same call on the same values earlier in the history: same numbers (covers the data-matrix methods that have no
        # Gram clause).  The unchanged code is deterministic: the difference is exactly 0; 1e-12 relative allowed
        sig = (s["op"], s["a"], s.get("b"), s.get("maxlags"), str(s.get("norm")), s.get("method"), _bytes(a), None if b is None else _bytes(b))
        if sig in first:
            for o, f in zip(out, first[sig]):
                if rel(np.asarray(o).astype(complex), f) > 1e-12:
                    msgs.append(where + "step %d of %s returns other numbers than the same call on the same values earlier in the "
                                "history: %s vs %s%s" % (j, _seq_desc(steps, j), np.round(np.asarray(o).ravel()[:4], 6), np.round(f.ravel()[:4], 6),
                                                         _alias_report(kept + [(j, out, None)])))
                    break
        else:
            first[sig] = [np.array(o, copy=True).astype(complex) for o in out]
        kept.append((j, out, [_bytes(o) for o in out]))
        check_kept(j, "when a later call ran")
        if s.get("mut"):
            for o in out:
                _mutate(o, s["mut"])
            kept[-1] = (j, out, [_bytes(o) for o in out])
            check_kept(j, "when the caller wrote into the result of a later call")
            for k, v in recs.items():
                if _bytes(v) != before[k]:
                    msgs.append(where + "writing into the result of step %d of %s changed the caller's record %s (the result aliases "
                                "the input)" % (j, _seq_desc(steps, j), k))
            for q, qb, nm_ in ((pa, pbytes[0], "first"), (pb, pbytes[1], "second")):
                if qb is not None and q is not a and q is not b and _bytes(q) != qb:
                    msgs.append(where + "writing into the result of step %d of %s changed the %s argument of that call" % (
                        j, _seq_desc(steps, j), nm_))
    if judge:
        # closing round: the caller overwrites everything it was ever given, then every call of the history once more on the
        # current values of the records
        how = p.get("close", "nan")
        for j0, arrs, _ in kept:
            for o in arrs:
                _mutate(o, how)
        before = {k: _bytes(v) for k, v in recs.items()}
        for j, s in enumerate(steps):
            if s["op"] in ("poke", "reject"):
                continue
            a = recs[s["a"]]
            b = recs[s["b"]] if s.get("b") else None
            if _seq_skip(s, a):
                continue
            out, _, _ = _seq_call(sp, s, a, b)
            for m in _seq_judge(s, out, a, b):
                msgs.append(where + "after the caller overwrote (%s) every array it had been given by %s, step %d made again: %s%s" % (
                    how, _seq_desc(steps), j, m, _alias_report(kept)))
        for k, v in recs.items():
            if _bytes(v) != before[k]:
                msgs.append(where + "the closing round of %s modified the caller's record %s" % (_seq_desc(steps), k))
    return msgs, last


def oracle_seq(p):
    msgs, _ = _run_seq(p, True)
    # one message per class is enough for the report
    seen, out = set(), []
    for m in msgs:
        c = m[:60]
        if c not in seen:
            seen.add(c)
            out.append(m)
    return out


def impl_seq(p):
    _, last = _run_seq(p, False)
    return [np.asarray(last[0])]


def model_seq(p):
    """the last call of a "seq" history is a CORRELATION call: the exact model on the values the records have at that point"""
    recs = {k: _clone(p[k]) for k in ("x", "y") if p.get(k) is not None}
    for s in p["steps"]:
        if s["op"] == "poke":
            _poke(recs[s["a"]], s["how"])
    s = p["steps"][-1]
    if s["op"] != "corr":
        raise RuntimeError("harness: a 'seq' history must end with a CORRELATION call")
    x = np.asarray(recs[s["a"]])
    y = np.asarray(recs[s["b"]]) if s.get("b") else x
    N = max(len(x), len(y))
    ml = N - 1 if s["maxlags"] is None else s["maxlags"]
    return ("Q", proto.request("corr", "Q", [ml, _nm(s["norm"])], [x, y]))


def _seq_key(p):
    import json
    x = np.asarray(p["x"])
    y = np.asarray(p["y"]) if p.get("y") is not None else np.zeros(0)
    return "seq|%d|%d|%s|%d|%d|%s|%s" % (len(x), len(y), x.dtype.str, hash(x.tobytes()) & 0xFFFFFF, hash(y.tobytes()) & 0xFFFFFF,
                                         p.get("close"), json.dumps(p["steps"], sort_keys=True))


def _seq_tags(p):
    x = np.asarray(p["x"])
    st = p["steps"]
    calls = [s for s in st if s["op"] in ("corr", "xcorr", "mtx")]
    t = ["seq", "seq:complex" if np.iscomplexobj(x) else "seq:real", "seq:y=" + p.get("ymode", "-"),
         "seq:calls=%d" % len(calls), "seq:first=%s/%s->%s" % (calls[0]["op"], calls[0].get("norm") if calls[0]["op"] != "mtx" else calls[0]["method"],
                                                               calls[0].get("mut"))]
    t += sorted({"seq:mut:" + s["mut"] for s in calls if s.get("mut")})
    t += sorted({"seq:op:" + s["op"] for s in calls})
    t += sorted({"seq:norm:%s" % s.get("norm") for s in calls if s["op"] != "mtx"})
    t += sorted({"seq:new-" + s["fresh"] for s in calls if s.get("fresh")})
    t += sorted({"seq:" + s["op"] for s in st if s["op"] in ("poke", "reject")})
    if len({(s["a"], s.get("b")) for s in calls}) > 1:
        t.append("seq:alternating-records")
    # a result written into, then the same records asked again with the same or fewer lags (the window into a memo)
    for i in range(len(st) - 1):
        s, n = st[i], st[i + 1]
        if s.get("mut") and n["op"] in ("corr", "xcorr", "mtx") and (n["a"], n.get("b")) == (s["a"], s.get("b")):
            t.append("seq:write-then-same-data")
            break
    if len(x) > 40:
        t.append("seq:long")
    t += ["seq:" + v for v in _blk_tags(len(x))[:1]]
    return t


KINDS["seq"] = {"impl": impl_seq, "model": model_seq, "oracle": oracle_seq, "rtol": 1e-12, "atol": 1e-300,
                "key": _seq_key, "tags": _seq_tags, "nontrivial": _NT}
# histories on records beyond the exact model's reach, or not ending with a CORRELATION call: definition only
KINDS["seq_o"] = {"oracle": oracle_seq, "key": _seq_key, "tags": _seq_tags, "nontrivial": _NT}

if __import__("os").environ.get("VERIF_C09_STATS"):
    import atexit
    atexit.register(lambda: print("C09 seq judge: %d comparisons, worst max-norm %.3e, worst per-lag ratio %.3e" % (
        _SEQ_STATS["n"], _SEQ_STATS["max"], _SEQ_STATS["lag"])))


# --------------------------------------------------------------------------------------------------
# NEARLY EQUAL pairs (kinds "near" / "near_o", tags near:*).  Every pair (x, y) of the kinds above is either a pair of
# independent records or y is x / an exact copy of x.  In between lies what a two-channel recording, a stored-and-reloaded
# record or a lightly processed copy gives: y = x (1 + eps) (gain mismatch, one factor or one per sample), y = x + noise at
# relative level eps (per sample / of the rms), y = a float32 round trip of x, y = x with ONE sample moved by one ulp or by
# eps, y = x e^{i eps} (one phase or one per sample), y = x delayed by one sample on a slowly drifting record; eps from 1e-3
# down to 1e-12.  An implementation that decides "this is an autocorrelation" (or looks a result up in a memo) by comparing
# VALUES with a tolerance returns r_xx for such a pair: wrong by eps * r_xx[k], and Hermitian in the lag although
# r_xy[k] - conj(r_xy[-k]) is of relative size eps.  The max-norm / per-lag tolerances above (1e-10) cannot resolve
# eps < 1e-9, hence:
#   * the defined value of every lag is computed EXACTLY (every double is a dyadic rational: the lag sums are taken in
#     Python integers, divided as Fractions, rounded once) - no reference round-off at any eps;
#   * each lag is compared with it at TOL_NEAR relative to B[k] = sum_n |x[n+k]| |y[n]| / divisor (>= |e[k]|; the a-priori
#     error bound of a summed lag is N u B[k]), for xcorr on records longer than NEAR_DIRECT_N relative to max(B[k], G[k])
#     = G[k] = ||x|| ||y|| / divisor (scipy.signal.correlate may take the FFT there: round-off u G at every lag);
#   * the two-sided variant's asymmetry A[k] = r[k] - conj(r[-k]), k = 1..maxlags, is compared with the exact A[k] at
#     2 * TOL_NEAR on the same scale (exactly zero for an autocorrelation, of relative size eps for these pairs);
#   * xcorr against CORRELATION at the non-negative lags at 2 * TOL_NEAR;
#   * the exact Lean model (Q mode takes any double as the rational it is) through the runner at rtol 1e-12 (kind "near").
# Same kinds, "near" = "equal": y EQUAL IN VALUE to x but another object - a copy, a view of x's memory, x itself passed as
# y, a read-only view, another stride, another dtype (complex with zero imaginary part, float32 / int64 / list where the
# values are exact in it, swapped byte order): the result must be the autocorrelation (all four norms, 'coeff' included).
# Measured on the unchanged code (/tmp/c09_near_probe.py: generator seeds 0..4 quick + 3 thorough rounds, all variants of the
# runner included; 290 000 lag comparisons):
#   CORRELATION  worst |r-e| / B[k]                                   = 5.2e-15   (N = 1000; 2.4e-15 up to N = 40)
#   xcorr        worst |r-e| / B[k] (N <= 40) = 9.2e-16;   worst |r-e| / G[k] (N = 64 .. 1000) = 7.8e-16
#   asymmetry    worst |A-A_exact| / (sum of the two lags' scales)    = 4.9e-16
#   xcorr vs CORRELATION worst |diff| / scale                         = 3.0e-15   (allowed 2 * TOL_NEAR)
# TOL_NEAR = 3e-13 leaves a margin of 57x (CORRELATION), 300x (xcorr), 200x (xcorr vs CORRELATION) and resolves eps >= 1e-12 at
# lag 0 of a gain / phase mismatch (B[0] = G[0] ~ r_xx[0]).
TOL_NEAR = 3e-13
NEAR_DIRECT_N = 40
NEAR_MODES = ["gain", "gainv", "relnoise", "absnoise", "f32", "ulp", "one", "phase", "phasev", "shift", "roll"]
NEAR_EPS = [1e-3, 1e-4, 1e-5, 3e-6, 1e-6, 1e-7, 1e-8, 1e-9, 1e-10, 1e-11, 1e-12]
# y equal in value to x, another object.  "view" / "same" / "ro" share x's memory
NEAR_OBJ = ["copy", "view", "same", "ro", "strided", "neg", "cplx", "list", "f32", "int", "swapped"]
_SHARED = ("view", "same", "ro")
_NEAR_STATS = {"corr": 0.0, "xcorr": 0.0, "xcorr_long": 0.0, "asym": 0.0, "xc": 0.0, "n": 0}


def _ints(v):
    """real double array -> (object array of Python ints m, shift s): v[n] = m[n] / 2^s exactly"""
    from fractions import Fraction
    fr = [Fraction(float(t)) for t in v]
    s = max([f.denominator.bit_length() - 1 for f in fr] + [0])
    return np.array([f.numerator * ((1 << s) // f.denominator) for f in fr] + [0], dtype=object)[:-1], s


def _exact_lags(x, y, ks, norm):
    """the DEFINED value at each lag of ks (k >= 0: r_xy[k] = sum_n x[n+k] conj(y[n]) / divisor; k < 0: conj(r_yx[-k])),
    computed exactly and rounded once to a complex double.  norm 'coeff' (autocorrelation only): divisor sum |x|^2"""
    from fractions import Fraction
    x = np.asarray(x)
    y = np.asarray(y)
    N = len(x)
    if len(y) != N:
        raise RuntimeError("harness: the exact reference is for equal lengths")
    xc = x.astype(complex)
    yc = y.astype(complex)
    a, sa = _ints(xc.real)
    b, sb = _ints(xc.imag)
    c, sc = _ints(yc.real)
    d, sd = _ints(yc.imag)
    sx, sy = max(sa, sb), max(sc, sd)
    a, b = a * (1 << (sx - sa)), b * (1 << (sx - sb))
    c, d = c * (1 << (sy - sc)), d * (1 << (sy - sd))
    den = 1 << (sx + sy)
    e0 = int(np.dot(a, a) + np.dot(b, b)) if N else 0          # sum |x|^2 * 2^(2 sx)
    out = []
    for k in ks:
        k = int(k)
        if k >= 0:
            # sum (a + i b)[n+k] (c - i d)[n]
            re = np.dot(a[k:], c[: N - k]) + np.dot(b[k:], d[: N - k])
            im = np.dot(b[k:], c[: N - k]) - np.dot(a[k:], d[: N - k])
        else:
            # conj( sum (c + i d)[n+|k|] (a - i b)[n] )
            j = -k
            re = np.dot(c[j:], a[: N - j]) + np.dot(d[j:], b[: N - j])
            im = -(np.dot(d[j:], a[: N - j]) - np.dot(c[j:], b[: N - j]))
        re, im = int(re), int(im)
        if norm == "coeff":
            out.append(complex(float(Fraction(re * (1 << (2 * sx)), den * e0)), float(Fraction(im * (1 << (2 * sx)), den * e0))))
            continue
        dv = N if norm == "biased" else (N - abs(k) if norm == "unbiased" else 1)
        out.append(complex(float(Fraction(re, den * dv)), float(Fraction(im, den * dv))))
    return np.array(out, dtype=complex)


def _near_y(nrng, x, mode, eps):
    """y nearly equal to x (same length, float64 / complex128).  Returns (x, y): 'shift' / 'roll' replace x by a slowly
    drifting record (the only kind of record whose delayed copy is nearly equal to it)"""
    N = len(x)
    cplx = np.iscomplexobj(x)

    def g(n=N):
        return nrng.standard_normal(n) + (1j * nrng.standard_normal(n) if cplx else 0)

    if mode == "gain":
        return x, x * (1 + eps)
    if mode == "gainv":
        return x, x * (1 + eps * nrng.uniform(-1, 1, N))
    if mode == "relnoise":
        return x, x + eps * np.abs(x) * g()
    if mode == "absnoise":
        return x, x + eps * float(np.sqrt(np.mean(np.abs(x) ** 2))) * g()
    if mode == "f32":
        return x, x.astype(np.complex64 if cplx else np.float32).astype(x.dtype)
    if mode in ("ulp", "one"):
        y = x.copy()
        j = int(nrng.integers(0, N))
        if y[j] == 0:
            j = int(np.argmax(np.abs(y)))
        if mode == "ulp":
            y[j] = np.nextafter(y[j].real, np.inf) + (1j * y[j].imag if cplx else 0)
        else:
            y[j] = y[j] * (1 + eps)
        return x, y
    if mode == "phase":
        return x, (x * np.exp(1j * eps) if cplx else x * (1 - eps))
    if mode == "phasev":
        u = nrng.uniform(-1, 1, N)
        return x, (x * np.exp(1j * eps * u) if cplx else x * (1 - eps * np.abs(u)))
    if mode in ("shift", "roll"):
        c = (1.5 + float(nrng.integers(0, 4))) * (np.exp(1j * nrng.uniform(0, 6)) if cplx else 1.0)
        x = c * (1 + eps * np.cumsum(nrng.uniform(-1, 1, N)))
        x = np.asarray(x, dtype=complex if cplx else float)
        y = np.roll(x, 1)
        if mode == "shift":
            y[0] = x[0]
        return x, y
    raise RuntimeError("harness: unknown near mode %r" % (mode,))


def _near_obj(x, how):
    """another object holding x's values"""
    if how == "copy":
        return np.array(x, copy=True)
    if how == "view":
        return x[:]
    if how == "same":
        return x
    if how == "ro":
        v = x.view()
        v.flags.writeable = False
        return v
    if how == "strided":
        buf = np.empty(3 * len(x), dtype=x.dtype)
        buf[...] = -3.5e2
        buf[::3] = x
        return buf[::3]
    if how == "neg":
        return x[::-1].copy()[::-1]
    if how == "cplx":
        return x.astype(complex)
    if how == "list":
        return np.asarray(x).tolist()
    if how == "f32":
        y = x.astype(np.complex64 if np.iscomplexobj(x) else np.float32)
        if not np.array_equal(y.astype(x.dtype), x):
            raise RuntimeError("harness: 'f32' object of a record that is not exact in single precision")
        return y
    if how == "int":
        y = np.asarray(x).real.astype(np.int64)
        if np.iscomplexobj(x) or not np.array_equal(y.astype(float), x):
            raise RuntimeError("harness: 'int' object of a record that is not integer valued")
        return y
    if how == "swapped":
        return x.astype(x.dtype.newbyteorder("S"))
    raise RuntimeError("harness: unknown object class %r" % (how,))


def _near_args(p):
    """(a, b, values of a, values of b): the two arguments of the call and the sequences of the definition"""
    x = p["x"]
    if p.get("yobj"):
        y = _near_obj(x, p["yobj"])
        yv = np.asarray(x)
    else:
        y = p["y"]
        yv = np.asarray(y)
    xv = np.asarray(x)
    return (y, x, yv, xv) if p.get("swap") else (x, y, xv, yv)


def _near_call(p):
    sp = _sp()
    a, b, av, bv = _near_args(p)
    before = (_snap(a), _snap(b))
    if p["fn"] == "xcorr":
        out = sp.xcorr(a, b, maxlags=p["maxlags"], norm=p["norm"])
    else:
        out = sp.CORRELATION(a, b, maxlags=p["maxlags"], norm=p["norm"])
    changed = [n for n, q, s in (("first", a, before[0]), ("second", b, before[1])) if _snap(q) != s]
    return out, changed, av, bv


def impl_near(p):
    out, _, _, _ = _near_call(p)
    if p["fn"] == "xcorr":
        return [np.asarray(out[0]), np.asarray(out[1], dtype=float)]
    return [np.asarray(out)]


def model_near(p):
    _, _, av, bv = _near_args(p)
    N = len(av)
    ml = N - 1 if p["maxlags"] is None else p["maxlags"]
    return ("Q", proto.request(p["fn"], "Q", [ml, _nm(p["norm"])], [av, bv]))


def post_near(p, iv, mv):
    if p["fn"] != "xcorr":
        return iv, mv
    N = len(p["x"])
    ml = N - 1 if p["maxlags"] is None else p["maxlags"]
    return iv, [mv[0], np.arange(-ml, ml + 1, dtype=float)]


def _near_desc(p):
    return "%s(%s, norm=%s, N=%d, maxlags=%s, %s, y %s%s%s)" % (
        "xcorr" if p["fn"] == "xcorr" else "CORRELATION", "y, x" if p.get("swap") else "x, y", p["norm"], len(p["x"]), p["maxlags"],
        _cls(p["x"]), ("= x as another object [%s]" % p["yobj"]) if p.get("yobj") else "nearly equal to x [%s" % p.get("near"),
        "" if p.get("yobj") else ", eps=%.0e]" % p.get("eps", 0.0),
        "" if p.get("yobj") else ", max|x-y|/|y| = %.1e" % _near_dist(p))


def _near_dist(p):
    x = np.asarray(p["x"]).astype(complex)
    y = np.asarray(p["y"]).astype(complex)
    nz = np.abs(y) > 0
    return float(np.max(np.abs(x - y)[nz] / np.abs(y)[nz])) if np.any(nz) else 0.0


def oracle_near(p):
    out_, changed, av, bv = _near_call(p)
    N = len(av)
    ml = N - 1 if p["maxlags"] is None else p["maxlags"]
    norm = p["norm"]
    two = p["fn"] == "xcorr"
    msgs = ["%s modified its %s argument" % (_near_desc(p), c) for c in changed]
    if two:
        r, l = np.asarray(out_[0]), np.asarray(out_[1])
        ks = list(range(-ml, ml + 1))
        if list(l) != ks or r.ndim != 1 or len(r) != 2 * ml + 1:
            return msgs + ["%s: lags are not -maxlags..maxlags: %s" % (_near_desc(p), l[:5])]
    else:
        r = np.asarray(out_)
        ks = list(range(ml + 1))
        if r.ndim != 1 or len(r) != ml + 1:
            return msgs + ["%s returned %s lags" % (_near_desc(p), r.shape)]
    if not np.all(np.isfinite(r.astype(complex))):
        return msgs + ["%s returned non-finite values" % _near_desc(p)]
    r = r.astype(complex)
    e = _exact_lags(av, bv, ks, norm)
    B, G = _lagscale(av, bv, ks, norm, 1.0)
    long_ = two and N > NEAR_DIRECT_N
    sc = np.maximum(B, G) if long_ else B
    err = np.abs(r - e)
    ok = sc > 0
    if np.any(ok):
        key = "xcorr_long" if long_ else p["fn"]
        _NEAR_STATS[key] = max(_NEAR_STATS[key], float(np.max(err[ok] / sc[ok])))
        _NEAR_STATS["n"] += int(np.sum(ok))
    bad = err > TOL_NEAR * sc
    if np.any(bad):
        i = int(np.argmax(np.where(bad, err / np.maximum(sc, 1e-300), 0.0)))
        hint = ""
        if not p.get("yobj"):
            # what the autocorrelation of either record would give at this lag
            for nm_, u in (("x", p["x"]), ("y", p["y"])):
                ea = _exact_lags(u, u, [ks[i]], norm)[0]
                if abs(r[i] - ea) <= 1e-3 * err[i]:
                    hint = "; the returned value is the AUTOcorrelation of %s at this lag (%r)" % (nm_, complex(ea))
        msgs.append("%s: lag %d differs from its definition sum_n x[n+k] conj(y[n]) / divisor: got %r expected (exact arithmetic) %r, "
                    "|diff| %.3e = %.2e of that lag's scale sum |x||y| / divisor%s (allowed %.0e)%s" % (
                        _near_desc(p), ks[i], complex(r[i]), complex(e[i]), err[i], err[i] / max(sc[i], 1e-300),
                        " [FFT floor ||x|| ||y|| / divisor]" if long_ else "", TOL_NEAR, hint))
    if two and ml >= 1:
        # asymmetry in the lag: A[k] = r[k] - conj(r[-k]), exactly 0 for an autocorrelation
        pos, neg = np.arange(ml + 1, 2 * ml + 1), np.arange(ml - 1, -1, -1)
        A, Ae = r[pos] - np.conj(r[neg]), e[pos] - np.conj(e[neg])
        sA = sc[pos] + sc[neg]
        dA = np.abs(A - Ae)
        if np.all(sA > 0):
            _NEAR_STATS["asym"] = max(_NEAR_STATS["asym"], float(np.max(dA / sA)))
        badA = dA > TOL_NEAR * sA            # sA is the sum of two lag scales: 2 * TOL_NEAR on one of them
        if np.any(badA):
            i = int(np.argmax(np.where(badA, dA / np.maximum(sA, 1e-300), 0.0)))
            msgs.append("%s: the asymmetry r[k] - conj(r[-k]) at k = %d is %r, its definition (exact arithmetic) gives %r "
                        "(|diff| %.3e, %.2e of the two lags' scale; relative size of the defined asymmetry %.2e)" % (
                            _near_desc(p), i + 1, complex(A[i]), complex(Ae[i]), dA[i], dA[i] / max(sA[i], 1e-300),
                            abs(Ae[i]) / max(sA[i], 1e-300)))
    if two:
        # the one-sided function on the same arguments, non-negative lags (all up to N = 300, 61 of a longer record)
        mc = ml if N <= 300 else min(ml, 60)
        a, b, _, _ = _near_args(p)
        rc = np.asarray(_sp().CORRELATION(a, b, maxlags=mc, norm=norm)).astype(complex)
        if rc.shape == (mc + 1,) and np.all(np.isfinite(rc)):
            d = np.abs(r[ml: ml + mc + 1] - rc)
            s2 = sc[ml: ml + mc + 1]
            if np.all(s2 > 0):
                _NEAR_STATS["xc"] = max(_NEAR_STATS["xc"], float(np.max(d / s2)))
            if np.any(d > 2 * TOL_NEAR * s2):
                i = int(np.argmax(d / np.maximum(s2, 1e-300)))
                msgs.append("%s and CORRELATION on the same arguments disagree at lag %d: %r vs %r (|diff| %.3e, %.2e of that lag's scale)" % (
                    _near_desc(p), i, complex(r[ml + i]), complex(rc[i]), d[i], d[i] / max(s2[i], 1e-300)))
        else:
            msgs.append("%s: CORRELATION on the same arguments returned shape %s / non-finite values" % (_near_desc(p), rc.shape))
    if p.get("yobj") and norm == "coeff" and abs(r[ml if two else 0] - 1) > 1e-12:
        msgs.append("%s: coeff autocorrelation is not 1 at lag 0" % _near_desc(p))
    return msgs


def _near_key(p):
    x = np.asarray(p["x"])
    y = np.asarray(p["y"]) if p.get("y") is not None else np.zeros(0)
    return "near|%s|%d|%s|%s|%s|%s|%s|%s|%s|%d|%d" % (p["fn"], len(x), x.dtype.str, p["norm"], p["maxlags"], p.get("near"), p.get("eps"),
                                                     p.get("yobj"), int(bool(p.get("swap"))), hash(x.tobytes()) & 0xFFFFFF,
                                                     hash(y.tobytes()) & 0xFFFFFF)


def _near_tags(p):
    x = np.asarray(p["x"])
    N = len(x)
    t = ["near", "near:" + p["fn"], "near:norm:%s" % p["norm"], "near:complex" if np.iscomplexobj(x) else "near:real",
         "near:order:" + ("y,x" if p.get("swap") else "x,y")]
    if p.get("yobj"):
        t += ["near:equal-values-other-object", "near:yobj:" + p["yobj"]]
        if p["yobj"] in _SHARED:
            t.append("near:y-shares-memory-with-x")
    else:
        t += ["near:mode:" + p["near"], "near:eps=%.0e" % p["eps"]]
        d = _near_dist(p)
        t.append("near:max|x-y|/|y|:" + ("0" if d == 0 else ("<=1e-12" if d <= 1e-12 else ("<=1e-9" if d <= 1e-9 else (
            "<=1e-5" if d <= 1e-5 else ("<=1e-3" if d <= 1e-3 else ">1e-3"))))))
        t.append("near:numpy.allclose(x,y,atol=0):%s" % bool(np.allclose(x, np.asarray(p["y"]), atol=0)))
    ml = N - 1 if p["maxlags"] is None else p["maxlags"]
    t.append("near:lags:" + ("all" if ml == N - 1 else ("0" if ml == 0 else "some")))
    if N > NEAR_DIRECT_N:
        t.append("near:long")
    if p.get("gen"):
        t.append("near:data:generic-doubles:" + p["gen"])
    else:
        t.append("near:data:dyadic")
    return t


KINDS["near"] = {"impl": impl_near, "model": model_near, "oracle": oracle_near, "post": post_near, "rtol": 1e-12, "atol": 1e-300,
                 "key": _near_key, "tags": _near_tags, "nontrivial": _NT}
# records beyond the exact model's reach (its lag sums on 53-bit numerators): exact-arithmetic definition (oracle) only
KINDS["near_o"] = {"oracle": oracle_near, "key": _near_key, "tags": _near_tags, "nontrivial": _NT}
# the degenerate-record variants of the runner rewrite x only: the pair would no longer be a nearly equal one
NO_DEGEN = {"near", "near_o"}
NEAR_MODEL_N = 300

if __import__("os").environ.get("VERIF_C09_STATS"):
    import atexit
    atexit.register(lambda: print("C09 near pairs: %(n)d lag comparisons, worst ratio CORRELATION %(corr).3e, xcorr %(xcorr).3e, "
                                  "xcorr long (of G) %(xcorr_long).3e, asymmetry %(asym).3e, xcorr vs CORRELATION %(xc).3e" % _NEAR_STATS))


def _near_cases(nrng, tier):
    thorough = tier == "thorough"
    maxN = 16 if not thorough else 40
    n = 231 if not thorough else 770
    longs = [64, 129, 256, 300, 513, 1000]
    o = int(nrng.integers(0, 11))
    for i in range(n):
        # mode i mod 11, eps ((i div 11) + offset) mod 11, function i mod 3, norm i mod 4 ('coeff' is for autocorrelations),
        # order of the arguments (i div 2) mod 2: independent moduli
        mode = NEAR_MODES[i % 11]
        eps = NEAR_EPS[(i // 11 + o) % 11]
        fn = ("xcorr", "corr", "xcorr")[i % 3]
        norm = ["biased", "unbiased", None, "biased"][i % 4]
        cplx = bool(nrng.integers(0, 2))
        long_ = i % 10 == 9
        N = longs[(i // 10) % 6] if long_ else int(nrng.integers(2, maxN + 1))
        if mode == "f32" or (i // 3) % 2:
            gk = GENERIC[int(nrng.integers(0, 4))]
            x, _ = gen_data(nrng, N, cplx, kind=gk, exact=False)
            x = np.asarray(x, dtype=complex if cplx else float)
        else:
            gk = None
            x = _data(nrng, N, cplx, int(nrng.integers(0, 5)))
        x, y = _near_y(nrng, x, mode, eps)
        if mode in ("shift", "roll"):
            gk = "drift"
        if long_:
            ml = [8, N - 1, None, N // 2][(i // 10) % 4] if fn == "xcorr" else int(nrng.integers(8, 25))
        else:
            ml = _pick_ml(nrng, N)
        p = {"fn": fn, "x": x, "y": y, "norm": norm, "maxlags": ml, "near": mode, "eps": eps, "swap": bool((i // 2) % 2)}
        if gk:
            p["gen"] = gk
        yield ("near" if N <= NEAR_MODEL_N else "near_o", p)
    # equal values, another object
    for i in range(66 if not thorough else 220):
        how = NEAR_OBJ[i % 11]
        fn = ("xcorr", "corr")[(i // 11) % 2]
        norm = NORMS[(i + i // 11) % 4]
        cplx = bool(nrng.integers(0, 2)) and how not in ("int", "cplx")
        N = int(nrng.integers(2, maxN + 1)) if i % 6 else [64, 300][(i // 6) % 2]
        gk = None
        if how == "int":
            x, _ = gen_data(nrng, N, False, kind="int")
            x = np.asarray(x, dtype=float)
        elif how == "f32" or i % 2:
            x = _data(nrng, N, cplx, int(nrng.integers(0, 5)))            # dyadic: exact in single precision
        else:
            gk = GENERIC[int(nrng.integers(0, 4))]
            x, _ = gen_data(nrng, N, cplx, kind=gk, exact=False)
            x = np.asarray(x, dtype=complex if cplx else float)
        ml = _pick_ml(nrng, N) if N <= 64 or fn == "xcorr" else 20
        p = {"fn": fn, "x": x, "norm": norm, "maxlags": ml, "near": "equal", "yobj": how, "swap": bool((i // 3) % 2)}
        if gk:
            p["gen"] = gk
        if how == "int":
            p["variant"] = "as-generated"       # the runner's amplitude variants would leave no integer-valued record
        yield ("near", p)


def _seq_one(nrng, i, N, core, use_model=True, ymode=None):
    """one history.  i indexes the first call's norm (i mod 4) and what the caller does to its result (i mod 7), the first
    pair of records ((i div 4) mod 4) and the relation of the two records ((i div 2) mod 4) independently.  core: the first
    follower asks the same records again with the same or fewer lags, before anything else happens.
    ymode "near" (only on request): the second record is the first one with a per-sample gain mismatch of 1e-6 .. 1e-8
    (a memo keyed by approximately compared values; the judge's 1e-10 resolves these)"""
    cplx = bool(nrng.integers(0, 2))
    x = _data(nrng, N, cplx, int(nrng.integers(0, 5)))
    near = ymode == "near"
    ymode = ["indep", "pert", "short", "mixed"][(i // 2) % 4] if not near else "near"
    if ymode == "short" and N < 2:
        ymode = "indep"
    if ymode == "near":
        y = x * (1 + [1e-6, 1e-7, 1e-8][i % 3] * nrng.uniform(-1, 1, N))
    elif ymode == "pert":
        # equal length, dtype, sum, energy and end samples: two interior samples exchanged (a memo keyed by summary values)
        y = x.copy()
        j1, j2 = (1, N - 2) if N >= 4 else (0, N - 1)
        if y[j1] == y[j2]:
            y[j1] = y[j1] + 1
        else:
            y[j1], y[j2] = x[j2], x[j1]
    elif ymode == "short":
        y = _data(nrng, int(nrng.integers(1, N)), cplx, int(nrng.integers(0, 5)))
    elif ymode == "mixed":
        y = _data(nrng, N, not cplx, int(nrng.integers(0, 5)))
    else:
        y = _data(nrng, N, cplx, int(nrng.integers(0, 5)))
    lens = {"x": len(x), "y": len(y)}
    pairs = [("x", None), ("x", "y"), ("y", None), ("y", "x")]

    def ncall(pr):
        return max(lens[pr[0]], lens[pr[1]] if pr[1] else 0)

    def call(pr, op, norm, ml, mut=None, fresh=None, method=None):
        s = {"op": op, "a": pr[0], "maxlags": ml}
        if pr[1]:
            s["b"] = pr[1]
        if op == "mtx":
            s["method"] = method or "autocorrelation"
        else:
            s["norm"] = norm if (norm != "coeff" or not pr[1]) else "biased"
        if mut:
            s["mut"] = mut
        if fresh:
            s["fresh"] = fresh
        return s

    def ops_for(pr):
        if not pr[1]:
            return ["corr", "corr", "xcorr", "mtx"]
        return ["corr", "corr", "xcorr"] if lens[pr[0]] == lens[pr[1]] else ["corr"]

    def rnd_ml(pr, cap=None):
        n = ncall(pr)
        hi = n - 1 if cap is None else min(cap, n - 1)
        return int(nrng.integers(0, hi + 1))

    p0 = pairs[(i // 4) % 4]
    n0 = ncall(p0)
    ml0 = [n0 - 1, None, max(0, n0 - 2), rnd_ml(p0)][int(nrng.integers(0, 4))]
    if n0 > 64:
        ml0 = int(nrng.integers(8, 25))
    cap0 = n0 - 1 if ml0 is None else ml0
    o0 = ops_for(p0)
    op0 = "corr" if core else o0[int(nrng.integers(0, len(o0)))]
    steps = [call(p0, op0, NORMS[i % 4], ml0, mut=MUTS[i % 7], method=MTX_METHODS[int(nrng.integers(0, 5))] if not core else None)]
    nf = int(nrng.integers(2, 5))
    for f in range(nf):
        same = (core and f == 0) or nrng.random() < 0.6
        pr = p0 if same else pairs[int(nrng.integers(0, 4))]
        if not (core and f == 0):
            u = nrng.random()
            if u < 0.15:
                steps.append({"op": "poke", "a": pr[0], "how": POKES[int(nrng.integers(0, len(POKES)))]})
            elif u < 0.25:
                steps.append({"op": "reject", "a": pr[0], "over": int(nrng.integers(0, 3)), "norm": NORMS[int(nrng.integers(0, 4))]})
        o = ops_for(pr)
        op = o[int(nrng.integers(0, len(o)))]
        if ncall(pr) > 64 and pr != p0:
            cap = 24
        else:
            cap = cap0 if (pr == p0 and nrng.random() < 0.75) else (24 if ncall(pr) > 64 else None)
        ml = rnd_ml(pr, cap)
        if pr == p0 and nrng.random() < 0.3:
            ml = ml0 if ncall(pr) <= 64 or ml0 is not None else ml
        fresh = [None, None, "copy", "list"][int(nrng.integers(0, 4))]
        mut = MUTS[int(nrng.integers(0, len(MUTS)))] if nrng.random() < 0.5 else None
        steps.append(call(pr, op, NORMS[int(nrng.integers(0, 4))], ml, mut=mut, fresh=fresh,
                          method=MTX_METHODS[int(nrng.integers(0, 5))] if nrng.random() < 0.5 else None))
    # last: CORRELATION on the first records again, the same or fewer lags, no energy normalisation (exact model comparison)
    steps.append(call(p0, "corr", ["biased", "unbiased", None][(i // 7) % 3], rnd_ml(p0, cap0) if nrng.random() < 0.7 else ml0))
    for s in steps:
        # a data matrix of order m needs m <= N - 1 of ITS record; 'None' means all lags
        if s["op"] == "mtx" and s["maxlags"] is None:
            s["maxlags"] = lens[s["a"]] - 1
    q = {"x": x, "y": y, "steps": steps, "ymode": ymode, "close": MUTS[(i // 3) % 7]}
    return ("seq" if use_model else "seq_o", q)


def _seq_cases(nrng, tier):
    thorough = tier == "thorough"
    maxN = 16 if not thorough else 40
    n = 140 if not thorough else 700
    for i in range(n):
        core = i < 56 if not thorough else i % 2 == 0
        N = int(nrng.integers(2, maxN + 1)) if i % 10 else 1
        yield _seq_one(nrng, i, N, core)
    # long records (a memo may be size-gated): a few lengths, among them block-size boundaries (definition only there)
    longs = [64, 129, 300, 1024, 2051] if not thorough else [64, 129, 256, 257, 300, 513, 600, 1000, 1024, 1027, 2048, 2051, 4099]
    o = int(nrng.integers(0, 28))
    for j, N in enumerate(longs):
        for c in range(2):
            yield _seq_one(nrng, o + 2 * j + c + (3 if c else 0), N, c == 0, use_model=N <= 600)


def _seq_near_cases(nrng, tier):
    """histories whose second record is NEARLY equal to the first (drawn after everything else: the histories above keep
    their random streams)"""
    thorough = tier == "thorough"
    o = int(nrng.integers(0, 28))
    for i in range(24 if not thorough else 72):
        N = int(nrng.integers(2, (16 if not thorough else 40) + 1)) if i % 8 else [64, 300][(i // 8) % 2]
        yield _seq_one(nrng, o + i, N, i % 2 == 0, ymode="near")


def gen(rng, nrng, tier):
    for kind, p in _gen(rng, nrng, tier):
        y = p.get("y") if isinstance(p, dict) else None
        if isinstance(y, np.ndarray) and y.dtype.itemsize == 1 and "variant" not in p:
            # the runner's strided variant interleaves the samples with the filler 7250, which an 8-bit type cannot hold:
            # these pairs are run as generated only
            p["variant"] = "as-generated"
        yield (kind, p)


def _gen(rng, nrng, tier):
    yield from single.gen("C09", nrng, tier)
    thorough = tier == "thorough"
    n = 300 if tier == "quick" else 5000
    maxN = 16 if tier == "quick" else 40
    for i in range(n):
        cplx = bool(nrng.integers(0, 2))
        nx = int(nrng.integers(1, maxN + 1))
        auto = (i % 3 == 0)
        if auto:
            ny = nx
        else:
            ny = nx if i % 3 == 1 else int(nrng.integers(1, maxN + 1))
        # data class by i // 5: independent of the maxlags choice (i % 5), of the norm (i % 4) and of auto / cross (i % 3)
        x = _data(nrng, nx, cplx, i // 5)
        y = _data(nrng, ny, cplx, i // 5 + 1 + (i % 3))
        N = max(nx, ny)
        norm = NORMS[i % 4]
        if norm == "coeff" and not auto:
            norm = "biased"
        ml = [0, N - 1, N // 2, None, int(nrng.integers(0, N))][i % 5]
        p = {"x": x, "auto": auto, "norm": norm, "maxlags": ml}
        if not auto:
            p["y"] = y
        yield ("corr", p)
        if nx == ny or auto:
            q = dict(p)
            yield ("xcorr", q)
    # long records and lengths where N + maxlags - 1 (or N + maxlags) is a power of two (FFT-size coincidences)
    big = [(256, 1), (256, 0), (257, None), (300, 213), (300, 5), (513, 0), (1000, 25), (64, 1), (33, 32), (128, 1), (129, 0)]
    for j, (N, ml) in enumerate(big if tier == "thorough" else big[: 7]):
        for cplx in (False, True):
            x = _data(nrng, N, cplx, j)
            y = _data(nrng, N, cplx, j + 1)
            norm = NORMS[j % 4]
            for auto in (True, False):
                nm = norm if (auto or norm != "coeff") else "biased"
                q = {"x": x, "auto": auto, "norm": nm, "maxlags": ml}
                if not auto:
                    q["y"] = y
                yield ("xcorr", q)
                if ml is not None and ml <= 40:
                    yield ("corr", dict(q))
    # long records crossed with the four norms and the lag ranges {N//2, N-1, None}: a size-gated fast path (dot products,
    # FFT correlation) with a wrong N-k divisor, scaling or padding shows only here.  xcorr over the whole range, CORRELATION
    # over min(maxlags, 60) lags.  Exact model up to N = 600, definition only above.
    bigN = [64, 129, 256, 257, 300, 512, 513, 600, 1000] if thorough else [256, 300, 513, 1000]
    o = int(nrng.integers(0, 4))
    for j, N in enumerate(bigN):
        for c in range(12):
            norm = NORMS[c // 3]
            ml = [N // 2, N - 1, None][c % 3]
            autos = [bool(((c // 2) + j + (o >> 1)) % 2)]
            for cplx in (bool((c + j + o) % 2),):       # o is redrawn in every round of the thorough tier
                x = _data(nrng, N, cplx, int(nrng.integers(0, 5)))
                y = _data(nrng, N, cplx, int(nrng.integers(0, 5)))
                for auto in ([True] if norm == "coeff" else autos):
                    q = {"x": x, "auto": auto, "norm": norm, "maxlags": ml}
                    if not auto:
                        q["y"] = y
                    yield ("xcorr" if N <= 600 else "xcorr_o", q)
                    q2 = dict(q)
                    q2["maxlags"] = min(N - 1 if ml is None else ml, 60)
                    yield ("corr" if N <= 600 else "corr_o", q2)
    # long records of unequal lengths (zero padding of the shorter one), one complex and one real, both orders
    lpairs = [(300, 130), (257, 256), (512, 100), (40, 400)] if thorough else [(300, 130)]
    for j, (na, nb) in enumerate(lpairs):
        a = _data(nrng, na, True, int(nrng.integers(0, 5)))
        b = _data(nrng, nb, False, int(nrng.integers(0, 5)))
        for norm in ("biased", "unbiased", None):
            for u, v in ((a, b), (b, a)):
                yield ("corr", {"x": u, "y": v, "auto": False, "norm": norm, "maxlags": 50 if j == 0 else min(na, nb) // 2})
    # mixed pairs: one sequence real (or integer dtype), the other complex, unequal lengths both ways
    for i in range(24 if tier == "quick" else 300):
        nx = int(nrng.integers(1, maxN + 1))
        ny = int(nrng.integers(1, maxN + 1))
        if nx == ny:
            ny = nx + 1 + i % 3
        xr = _data(nrng, nx, False, i)
        yc = _data(nrng, ny, True, i + 1)
        if i % 3 == 2:
            xr = np.round(xr * 4).astype(int)
            yc = _data(nrng, ny, False, i + 1)           # integer dtype against float
        a, b = (xr, yc) if i % 2 else (yc, xr)
        N = max(nx, ny)
        yield ("corr", {"x": a, "y": b, "auto": False, "norm": ["biased", "unbiased", None][i % 3],
                        "maxlags": [0, N - 1, N // 2, None][i % 4]})
    # mixed pairs of EQUAL length (real / complex, integer / complex, integer / float), both orders: CORRELATION and xcorr
    for i in range(72 if tier == "quick" else 360):
        N = int(nrng.integers(1, maxN + 1))
        w = i % 3
        if w == 0:
            a, b = _data(nrng, N, False, i // 6), _data(nrng, N, True, i // 6 + 2)
        elif w == 1:
            a, b = _contain(nrng, N, CONT[2 + (i // 3) % 4]), _data(nrng, N, True, i // 6)
        else:
            a, b = _contain(nrng, N, CONT[2 + (i // 3) % 4]), _data(nrng, N, False, i // 6)
        if (i // 12) % 2:       # with t = i // 3: integer class t % 4, norm (t // 2) % 3, order (t // 4) % 2 cover all 24 combinations
            a, b = b, a
        p = {"x": a, "y": b, "auto": False, "norm": ["biased", "unbiased", None][(i // 6) % 3], "maxlags": _pick_ml(nrng, N)}
        yield ("corr", p)
        yield ("xcorr", dict(p))
    # input containers and dtypes: lists of float / int / complex, integer arrays of every width at full range, as the
    # only input (autocorrelation), as either input of a pair, and as the corrmtx record
    methods = ["autocorrelation", "prewindowed", "postwindowed", "covariance", "modified"]
    for i in range(96 if tier == "quick" else 480):
        cls = CONT[i % 8]
        fn = ("corr", "xcorr", "corrmtx")[(i // 8) % 3]
        N = int(nrng.integers(1, maxN + 1))
        a = _contain(nrng, N, cls)
        if fn == "corrmtx":
            yield ("corrmtx", {"x": a, "m": int(nrng.integers(0, N)), "method": methods[int(nrng.integers(0, 5))]})
            continue
        auto = bool(nrng.integers(0, 2))
        norm = NORMS[int(nrng.integers(0, 4))]
        if norm == "coeff" and not auto:
            norm = NORMS[int(nrng.integers(0, 2))]
        p = {"x": a, "auto": auto, "norm": norm}
        Nn = N
        if not auto:
            nb = N if (fn == "xcorr" or nrng.integers(0, 2)) else int(nrng.integers(1, maxN + 1))
            w = int(nrng.integers(0, 3))
            b = _contain(nrng, nb, CONT[int(nrng.integers(0, 8))]) if w == 0 else _data(nrng, nb, w == 2, int(nrng.integers(0, 5)))
            if nrng.integers(0, 2):
                a, b = b, a
            p["x"], p["y"] = a, b
            Nn = max(N, nb)
        p["maxlags"] = _pick_ml(nrng, Nn)
        yield (fn, p)
    # single precision against double precision, UNEQUAL lengths (the padded input keeps its type): 1e-6
    for i in range(12 if tier == "quick" else 120):
        nx = int(nrng.integers(1, maxN + 1))
        ny = int(nrng.integers(1, maxN + 1))
        if nx == ny:
            ny = nx + 1 + i % 3
        cs, cd = bool(i % 2), bool((i // 2) % 2)
        s_ = _data(nrng, nx, cs, int(nrng.integers(0, 5))).astype(np.complex64 if cs else np.float32)
        d_ = _data(nrng, ny, cd, int(nrng.integers(0, 5)))
        a, b = (s_, d_) if (i // 4) % 2 else (d_, s_)
        yield ("corr_sp", {"x": a, "y": b, "auto": False, "norm": ["biased", "unbiased", None][i % 3],
                           "maxlags": _pick_ml(nrng, max(nx, ny))})
    # calling conventions: documented defaults (CORRELATION: unbiased, all lags 0..N-1; xcorr: biased, lags -(N-1)..N-1),
    # positional maxlags / norm, and the autocorrelation requested with an explicit second argument equal to the first
    for i in range(48 if tier == "quick" else 480):
        call = ["default", "pos", "ycopy"][i % 3]
        fn = ("corr", "xcorr")[(i // 3) % 2]
        cplx = bool(nrng.integers(0, 2))
        N = int(nrng.integers(1, maxN + 1))
        x = _data(nrng, N, cplx, int(nrng.integers(0, 5)))
        auto = True if call == "ycopy" else bool((i // 6) % 2)
        p = {"x": x, "auto": auto, "call": call}
        Nn = N
        if not auto:
            ny = N if (fn == "xcorr" or (i // 12) % 2) else int(nrng.integers(1, maxN + 1))
            p["y"] = _data(nrng, ny, bool(nrng.integers(0, 2)), int(nrng.integers(0, 5)))
            Nn = max(N, ny)
        if call == "default":
            p["norm"], p["maxlags"] = ("unbiased" if fn == "corr" else "biased"), None
        elif call == "pos":
            p["norm"] = NORMS[int(nrng.integers(0, 4))]
            if p["norm"] == "coeff" and not auto:
                p["norm"] = None
            p["maxlags"] = min(3, Nn - 1) if (i // 6) % 3 == 0 else _pick_ml(nrng, Nn)
        else:
            p["norm"] = "coeff" if (i // 6) % 2 == 0 else NORMS[int(nrng.integers(0, 4))]
            p["maxlags"] = None if (i // 12) % 2 == 0 else _pick_ml(nrng, Nn)
        yield (fn, p)
    # all-zero records: the estimate is exactly zero for the three norms that do not divide by the energy
    for cplx in (False, True):
        z = np.zeros(5, dtype=complex if cplx else float)
        w = _data(nrng, 5, cplx, 0)
        for norm in ("biased", None, "unbiased"):
            for ml in (None, 2):
                for fn in ("corr", "xcorr"):
                    yield (fn, {"x": z, "auto": True, "norm": norm, "maxlags": ml})
                    yield (fn, {"x": z, "y": z.copy(), "auto": False, "norm": norm, "maxlags": ml})
            yield ("corr", {"x": z, "y": w, "auto": False, "norm": norm, "maxlags": None})
            yield ("xcorr", {"x": w, "y": z, "auto": False, "norm": norm, "maxlags": 3})
    # read-only views that do not own their memory (the shorter input, which the code pads; also the longer / only one)
    for i in range(12 if tier == "quick" else 120):
        cplx = bool(nrng.integers(0, 2))
        nx = int(nrng.integers(1, maxN + 1))
        ny = int(nrng.integers(1, maxN + 1))
        if nx == ny and i % 4 != 3:
            ny = nx + 1 + i % 3
        x = _data(nrng, nx, cplx, int(nrng.integers(0, 5)))
        y = _data(nrng, ny, bool(nrng.integers(0, 2)), int(nrng.integers(0, 5)))
        norm = ["biased", "unbiased", None][i % 3]
        if i % 4 == 3:
            yield ("xcorr" if (i // 4) % 2 else "corr", {"x": x, "auto": True, "norm": norm, "maxlags": _pick_ml(nrng, nx), "ro": "x"})
        else:
            short = "x" if nx < ny else "y"
            other = "y" if short == "x" else "x"
            yield ("corr", {"x": x, "y": y, "auto": False, "norm": norm, "maxlags": _pick_ml(nrng, max(nx, ny)),
                            "ro": short if i % 4 != 2 else other})
    # rejected calls (error kind compared with the model; see PARTIAL)
    for i in range(6 if tier == "quick" else 30):
        cplx = bool(nrng.integers(0, 2))
        N = int(nrng.integers(1, maxN + 1))
        x = _data(nrng, N, cplx, i)
        y = _data(nrng, N + 1 + i % 3, cplx, i + 1)
        yield ("corr_err", {"x": x, "auto": True, "norm": NORMS[i % 4], "maxlags": N + (i % 3)})
        yield ("corr_err", {"x": x, "y": y, "auto": False, "norm": "biased", "maxlags": len(y) + (i % 2)})
        yield ("xcorr_err", {"x": x, "y": y, "auto": False, "norm": [None, "biased", "unbiased"][i % 3],
                             "maxlags": [None, 0, N - 1][(i // 3) % 3]})
        yield ("xcorr_err", {"x": x, "auto": True, "norm": NORMS[i % 4], "maxlags": N + 1 + i % 2})
        yield ("corrmtx_err", {"x": _data(nrng, N + 1, cplx, i), "m": int(nrng.integers(0, N + 1)),
                               "method": ["burg", "Autocorrelation", "cov", "auto", "modified_covariance", "none"][i % 6]})
    nm = 100 if tier == "quick" else 1500
    for i in range(nm):
        cplx = bool(nrng.integers(0, 2))
        N = int(nrng.integers(2, maxN + 1))
        m = int(nrng.integers(1, N))
        x = _data(nrng, N, cplx, i // 5)             # data class independent of the method (i % 5)
        if (i // 5) % 4 == 3:
            x = x.astype(np.complex64 if cplx else np.float32)    # single precision (the dyadic samples are exact in it)
        yield ("corrmtx", {"x": x, "m": m, "method": methods[i % 5]})
    # order 0 and the one-sample record, every method
    for N in (1, 2, 6):
        for cplx in (False, True):
            x = _data(nrng, N, cplx, int(nrng.integers(0, 5)))
            for j, method in enumerate(methods):
                yield ("corrmtx", {"x": x, "m": 0, "method": method})
                if N == 6 and cplx:
                    yield ("corrmtx", {"x": _contain(nrng, N, CONT[j]), "m": 0, "method": method})
    # long records at and just above block-size boundaries (see BLK_B above).  quick: per (2^k, q) two of the six residues,
    # rotating with the run, so that every 2^k is met with all six residues in every run (24 lengths); thorough: all 72
    # lengths in every round, plus two of the six lengths 2^16 + r
    rot = int(nrng.integers(0, 6))
    lengths = []
    extra = set()
    for b, B in enumerate(BLK_B):
        for qi, qq in enumerate(BLK_Q):
            j = 3 * b + qi
            rs = BLK_R if thorough else [BLK_R[(rot + 2 * j) % 6], BLK_R[(rot + 2 * j + 1) % 6]]
            lengths += [qq * B + r for r in rs]
    extra.add([N for N in lengths if 4096 <= N <= 4104][rot % 2])
    yield from _blk_cases(nrng, lengths, extra)
    if thorough:
        yield from _blk_cases(nrng, [65536 + BLK_R[(rot + 3 * j) % 6] for j in range(2)], set(), with_mtx=False)
    # call sequences on the same data, the caller writing into what it was given (see MUTS above)
    yield from _seq_cases(nrng, tier)
    # nearly equal pairs (y = x up to a gain / noise / rounding / one sample / a phase / a delay at relative level 1e-3 ..
    # 1e-12) and equal-valued pairs held in different objects, against the exactly computed definition; histories on such pairs
    yield from _near_cases(nrng, tier)
    yield from _seq_near_cases(nrng, tier)
