"""C09  Correlation estimates match their definition and are consistent."""
import numpy as np

import single

import proto
from common import gen_data, rel, dyadic

TRUSTED_BASE = [
    "scipy.signal.correlate(x, y, 'full') is modelled by its defining sum (parameter of the model)",
    "scipy.linalg.toeplitz is modelled by its defining index rule",
    "exact mode: inputs are small dyadic rationals (exactly representable doubles); the model computes in exact "
    "Gaussian rationals and is compared with the float result at rtol 1e-12",
]
PARTIAL = ["coeff normalisation is specified (and modelled) for the autocorrelation only; cross-correlation "
           "with norm='coeff' is outside the statement"]
ASSUMPTIONS = ["xcorr requires equal lengths (the code asserts it)"]
RULE = ("random real/complex data (dyadic rationals, integers, constants), equal and unequal lengths 1..24, "
        "maxlags in [0, N-1] and None, four norms; corrmtx: 5 methods x orders; non-trivial = N >= 2")

NORMS = ["biased", "unbiased", "coeff", None]


def _sp():
    import spectrum
    return spectrum


def _ref(x, y, k, norm):
    N = max(len(x), len(y))
    xx = np.zeros(N, dtype=complex)
    yy = np.zeros(N, dtype=complex)
    xx[: len(x)] = x
    yy[: len(y)] = y
    s = sum(xx[n + k] * np.conj(yy[n]) for n in range(N - k))
    if norm == "biased":
        return s / N
    if norm == "unbiased":
        return s / (N - k)
    if norm is None:
        return s
    if norm == "coeff":  # autocorrelation only
        return s / (N * np.mean(np.abs(xx) ** 2))
    raise ValueError(norm)


def _nm(norm):
    return "none" if norm is None else norm


def impl_corr(p):
    sp = _sp()
    r = sp.CORRELATION(p["x"], None if p["auto"] else p["y"], maxlags=p["maxlags"], norm=p["norm"])
    return [np.asarray(r)]


def model_corr(p):
    x = np.asarray(p["x"])
    y = x if p["auto"] else np.asarray(p["y"])
    N = max(len(x), len(y))
    ml = N - 1 if p["maxlags"] is None else p["maxlags"]
    return ("Q", proto.request("corr", "Q", [ml, _nm(p["norm"])], [x, y]))


def oracle_corr(p):
    x = np.asarray(p["x"])
    y = x if p["auto"] else np.asarray(p["y"])
    N = max(len(x), len(y))
    ml = N - 1 if p["maxlags"] is None else p["maxlags"]
    r = impl_corr(p)[0]
    out = []
    if len(r) != ml + 1:
        return ["CORRELATION returned %d lags for maxlags=%s (N=%d)" % (len(r), p["maxlags"], N)]
    e = np.array([_ref(x, y, k, p["norm"]) for k in range(ml + 1)])
    if rel(r.astype(complex), e) > 1e-10:
        out.append("CORRELATION(%s, norm=%s, lens %d/%d, maxlags=%s) differs from the definition: got %s expected %s" % (
            "auto" if p["auto"] else "cross", p["norm"], len(x), len(y), p["maxlags"], np.round(r[:4], 6), np.round(e[:4], 6)))
    if p["auto"] and p["norm"] == "biased":
        r0 = r[0]
        if abs(np.imag(r0)) > 1e-12 * max(abs(r0), 1e-300) or abs(r0 - np.mean(np.abs(x) ** 2)) > 1e-10 * max(abs(r0), 1e-300):
            out.append("biased r[0] != mean|x|^2")
        if np.any(np.abs(r) > abs(r0) * (1 + 1e-10) + 1e-300):
            out.append("biased |r[k]| > r[0]")
        from scipy.linalg import toeplitz
        T = toeplitz(r, np.conj(r))
        T = (T + T.conj().T) / 2
        ev = np.linalg.eigvalsh(T)
        if ev.min() < -1e-9 * max(abs(r0), 1e-300):
            out.append("biased autocorrelation Toeplitz matrix is not positive semi-definite (min eig %.3e)" % ev.min())
    if p["auto"] and p["norm"] == "coeff" and abs(r[0] - 1) > 1e-12:
        out.append("coeff autocorrelation is not 1 at lag 0")
    return out


def impl_xcorr(p):
    sp = _sp()
    r, l = sp.xcorr(p["x"], None if p["auto"] else p["y"], maxlags=p["maxlags"], norm=p["norm"])
    return [np.asarray(r), np.asarray(l, dtype=float)]


def model_xcorr(p):
    x = np.asarray(p["x"])
    y = x if p["auto"] else np.asarray(p["y"])
    N = len(x)
    ml = N - 1 if p["maxlags"] is None else p["maxlags"]
    return ("Q", proto.request("xcorr", "Q", [ml, _nm(p["norm"])], [x, y]))


def post_xcorr(p, iv, mv):
    N = len(p["x"])
    ml = N - 1 if p["maxlags"] is None else p["maxlags"]
    return iv, [mv[0], np.arange(-ml, ml + 1, dtype=float)]


def oracle_xcorr(p):
    x = np.asarray(p["x"])
    y = x if p["auto"] else np.asarray(p["y"])
    N = len(x)
    ml = N - 1 if p["maxlags"] is None else p["maxlags"]
    r, l = impl_xcorr(p)
    out = []
    if list(l) != list(range(-ml, ml + 1)) or len(r) != 2 * ml + 1:
        return ["xcorr lags are not -maxlags..maxlags (N=%d maxlags=%s): %s" % (N, p["maxlags"], l[:5])]
    e = np.array([_ref(x, y, k, p["norm"]) if k >= 0 else np.conj(_ref(y, x, -k, p["norm"]))
                  for k in range(-ml, ml + 1)])
    if rel(r.astype(complex), e) > 1e-10:
        out.append("xcorr(%s, norm=%s, N=%d, maxlags=%s) differs from the definition" % (
            "auto" if p["auto"] else "cross", p["norm"], N, p["maxlags"]))
    # consistency with CORRELATION at non-negative lags
    sp = _sp()
    rc = sp.CORRELATION(x, None if p["auto"] else y, maxlags=ml, norm=p["norm"])
    if rel(r[ml:].astype(complex), np.asarray(rc).astype(complex)) > 1e-10:
        out.append("xcorr and CORRELATION disagree at non-negative lags (norm=%s)" % p["norm"])
    return out


def impl_mtx(p):
    sp = _sp()
    C = np.asarray(sp.corrmtx(p["x"], p["m"], p["method"]))
    return [np.array(C.shape, dtype=float)] + [C[i, :] for i in range(C.shape[0])]


def model_mtx(p):
    return ("Q", proto.request("corrmtx", "Q", [p["m"], p["method"]], [np.asarray(p["x"])]))


def oracle_mtx(p):
    sp = _sp()
    x = np.asarray(p["x"])
    m = p["m"]
    N = len(x)
    out = []
    if p["method"] == "autocorrelation":
        X = np.asarray(sp.corrmtx(x, m, "autocorrelation"))
        X = X.astype(complex if np.iscomplexobj(X) else float)        # single-precision input: Gram matrix in doubles
        r = sp.CORRELATION(x.astype(complex if np.iscomplexobj(x) else float), maxlags=m, norm="biased")
        from scipy.linalg import toeplitz
        G = X.conj().T @ X
        T = toeplitz(np.conj(r), r)   # Hermitian Toeplitz with first row r
        T2 = toeplitz(r, np.conj(r))
        if rel(G, N * T) > 1e-10 and rel(G, N * T2) > 1e-10:
            out.append("Gram matrix of the 'autocorrelation' data matrix != N * Toeplitz(r_biased) (N=%d m=%d)" % (N, m))
    return out


def _key(p):
    x = np.asarray(p["x"])
    return "%s|%s|%s|%s|%s|%d" % (len(x), len(p.get("y", [])), p.get("norm"), p.get("maxlags"), p.get("method"),
                                  hash(x.tobytes()) & 0xFFFFFF)


def _tags(p):
    x = np.asarray(p["x"])
    t = ["complex" if np.iscomplexobj(x) else "real", "norm:%s" % p.get("norm"), "auto" if p.get("auto") else "cross"]
    if "y" in p and not p.get("auto"):
        t.append("len:" + ("equal" if len(p["y"]) == len(x) else ("x-shorter" if len(x) < len(p["y"]) else "y-shorter")))
    return t


KINDS = {
    "corr": {"impl": impl_corr, "model": model_corr, "oracle": oracle_corr, "rtol": 1e-12, "atol": 1e-300,
             "key": _key, "tags": _tags, "nontrivial": lambda p: len(p["x"]) >= 2},
    "xcorr": {"impl": impl_xcorr, "model": model_xcorr, "oracle": oracle_xcorr, "rtol": 1e-12, "atol": 1e-300,
              "post": post_xcorr, "key": _key, "tags": _tags, "nontrivial": lambda p: len(p["x"]) >= 2},
    "corrmtx": {"impl": impl_mtx, "model": model_mtx, "oracle": oracle_mtx, "rtol": 1e-12, "atol": 0.0,
                "key": _key, "tags": lambda p: ["mtx:" + p["method"], "dtype:%s" % np.asarray(p["x"]).dtype],
                "nontrivial": lambda p: len(p["x"]) >= 2},
}


def _data(nrng, N, cplx, i):
    kind = ["noise", "int", "const", "noise", "trend"][i % 5]
    x, _ = gen_data(nrng, N, cplx, kind=kind, exact=True)
    return np.asarray(x, dtype=complex if cplx else float)


KINDS["single"] = single.kind("C09")

def gen(rng, nrng, tier):
    yield from single.gen("C09", nrng, tier)
    n = 300 if tier == "quick" else 5000
    maxN = 16 if tier == "quick" else 40
    for i in range(n):
        cplx = bool(nrng.integers(0, 2))
        nx = int(nrng.integers(1, maxN + 1))
        auto = (i % 3 == 0)
        if auto:
            ny = nx
        else:
            ny = nx if i % 3 == 1 else int(nrng.integers(1, maxN + 1))
        x = _data(nrng, nx, cplx, i)
        y = _data(nrng, ny, cplx, i + 1)
        N = max(nx, ny)
        norm = NORMS[i % 4]
        if norm == "coeff" and not auto:
            norm = "biased"
        ml = [0, N - 1, N // 2, None, int(nrng.integers(0, N))][i % 5]
        p = {"x": x, "auto": auto, "norm": norm, "maxlags": ml}
        if not auto:
            p["y"] = y
        yield ("corr", p)
        if nx == ny or auto:
            q = dict(p)
            yield ("xcorr", q)
    # long records and lengths where N + maxlags - 1 (or N + maxlags) is a power of two (FFT-size coincidences)
    big = [(256, 1), (256, 0), (257, None), (300, 213), (300, 5), (513, 0), (1000, 25), (64, 1), (33, 32), (128, 1), (129, 0)]
    for j, (N, ml) in enumerate(big if tier == "thorough" else big[: 7]):
        for cplx in (False, True):
            x = _data(nrng, N, cplx, j)
            y = _data(nrng, N, cplx, j + 1)
            norm = NORMS[j % 4]
            for auto in (True, False):
                nm = norm if (auto or norm != "coeff") else "biased"
                q = {"x": x, "auto": auto, "norm": nm, "maxlags": ml}
                if not auto:
                    q["y"] = y
                yield ("xcorr", q)
                if ml is not None and ml <= 40:
                    yield ("corr", dict(q))
    # mixed pairs: one sequence real (or integer dtype), the other complex, unequal lengths both ways
    for i in range(24 if tier == "quick" else 300):
        nx = int(nrng.integers(1, maxN + 1))
        ny = int(nrng.integers(1, maxN + 1))
        if nx == ny:
            ny = nx + 1 + i % 3
        xr = _data(nrng, nx, False, i)
        yc = _data(nrng, ny, True, i + 1)
        if i % 3 == 2:
            xr = np.round(xr * 4).astype(int)
            yc = _data(nrng, ny, False, i + 1)           # integer dtype against float
        a, b = (xr, yc) if i % 2 else (yc, xr)
        N = max(nx, ny)
        yield ("corr", {"x": a, "y": b, "auto": False, "norm": ["biased", "unbiased", None][i % 3],
                        "maxlags": [0, N - 1, N // 2, None][i % 4]})
    methods = ["autocorrelation", "prewindowed", "postwindowed", "covariance", "modified"]
    nm = 100 if tier == "quick" else 1500
    for i in range(nm):
        cplx = bool(nrng.integers(0, 2))
        N = int(nrng.integers(2, maxN + 1))
        m = int(nrng.integers(1, N))
        x = _data(nrng, N, cplx, i)
        if (i // 5) % 4 == 3:
            x = x.astype(np.complex64 if cplx else np.float32)    # single precision (the dyadic samples are exact in it)
        yield ("corrmtx", {"x": x, "m": m, "method": methods[i % 5]})
