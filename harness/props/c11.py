"""C11  Linear-prediction representations convert losslessly into each other."""
import numpy as np

import proto
from common import rel, dyadic

TRUSTED_BASE = [
    "numpy.roots / numpy.poly / scipy.signal.deconvolve (used by poly2lsf / lsf2poly) are parameters: the LSF clauses "
    "are evaluated by the oracle only",
    "numpy tanh/arctanh/sin/arcsin: the Lean theorems are about Real.tanh/artanh/sin/arcsin",
    "exact mode: reflection coefficients are dyadic rationals of modulus <= 0.98; model in exact Gaussian rationals, "
    "compared at rtol 1e-9 (orders <= 16)",
]
PARTIAL = ["interlacing of the zeros of the sum and difference polynomials (the order in which P- and Q-angles alternate) is not proved; "
           "proved for real minimum-phase polynomials (all |k_i| < 1): every zero of both polynomials lies on the unit circle, is simple, "
           "the two have no common zero, and relative to the roots contract the sorted positive angles are p distinct values in (0, pi)",
           "poly <-> lsf inverse pair: proved relative to the numpy.roots / numpy.poly contract only (C11.lsf_roundtrip_algebra; the zero "
           "remainder of deconvolve is proved: lsf_deflation_exists); the root finding itself is a parameter"]
ASSUMPTIONS = ["domain: |k_i| <= 0.98, orders 1..16"]
RULE = ("random reflection-coefficient sets (real and complex, dyadic, |k| <= 0.98), order 1..16, zero-lag r0 > 0; every "
        "conversion and composition; non-trivial = order >= 2")


def _lp():
    import spectrum.linear_prediction as lp
    return lp


def c(v):
    return np.asarray(v).astype(complex).ravel()


# --- model correspondences (exact mode) ------------------------------------------------------------

def impl_rc2poly(p):
    a, e = _lp().rc2poly(p["k"], p["r0"])
    return [c(a), c([e])]


def model_rc2poly(p):
    return ("Q", proto.request("rc2poly", "Q", [], [p["k"], [p["r0"]]]))


def post_lead1(p, iv, mv):
    mv = [np.concatenate(([1], mv[0]))] + list(mv[1:])
    return iv, mv


def _poly(p):
    a, e = _lp().rc2poly(p["k"], p["r0"])
    return np.asarray(a), e


def impl_poly2rc(p):
    a, e = _poly(p)
    return [c(_lp().poly2rc(a, e))]


def model_poly2rc(p):
    a, e = _poly(p)
    return ("Q", proto.request("poly2rc", "Q", [], [a[1:]]))


def impl_poly2ac(p):
    a, e = _poly(p)
    return [c(_lp().poly2ac(a, e))]


def model_poly2ac(p):
    a, e = _poly(p)
    return ("Q", proto.request("poly2ac", "Q", [], [a[1:], [e]]))


def impl_rc2ac(p):
    return [c(_lp().rc2ac(p["k"], p["r0"]))]


def model_rc2ac(p):
    return ("Q", proto.request("rc2ac", "Q", [], [p["k"], [p["r0"]]]))


def _ac(p):
    return np.asarray(_lp().rc2ac(p["k"], p["r0"]))


def impl_ac2poly(p):
    R = _ac(p)
    if not np.iscomplexobj(p["k"]):
        R = np.real(R)
    a, e = _lp().ac2poly(R)
    return [c(a), c([e])]


def model_ac2poly(p):
    R = _ac(p)
    return ("Q", proto.request("lev", "Q", [len(R) - 1, 0], [[np.real(R[0])], R[1:]]))


def post_ac2poly(p, iv, mv):
    return iv, [np.concatenate(([1], mv[0])), mv[1]]


def impl_levdown(p):
    from spectrum.levinson import levdown
    a, e = _poly(p)
    acur, ecur = levdown(a, e)
    return [c(acur)]


def model_levdown(p):
    a, e = _poly(p)
    return ("Q", proto.request("levdown", "Q", [], [a[1:]]))


# --- property oracle: inverse pairs and commuting squares -------------------------------------------

def oracle_all(p):
    lp = _lp()
    k = np.asarray(p["k"])
    r0 = p["r0"]
    cplx = np.iscomplexobj(k)
    out = []
    tol = 1e-8
    a, e = lp.rc2poly(k, r0)
    a = np.asarray(a)
    if len(a) != len(k) + 1 or a[0] != 1:
        out.append("rc2poly: wrong length / leading coefficient")
    e_exp = r0 * np.prod(1 - np.abs(k) ** 2)
    if abs(e - e_exp) > tol * r0:
        out.append("rc2poly final error %r != r0*prod(1-|k|^2) = %r" % (e, e_exp))
    k2 = np.asarray(lp.poly2rc(a, e))
    if rel(c(k2), c(k)) > tol:
        out.append("poly2rc(rc2poly(k)) != k  (order %d, %s): %.2e" % (len(k), "complex" if cplx else "real", rel(c(k2), c(k))))
    R = np.asarray(lp.rc2ac(k, r0))
    if len(R) != len(k) + 1 or abs(R[0] - r0) > tol * r0:
        out.append("rc2ac: wrong length or R[0] != r0")
    R3 = np.asarray(lp.poly2ac(a, e))
    if rel(c(R3), c(R)) > tol:
        out.append("poly2ac(rc2poly(k)) != rc2ac(k)")
    Rin = R if cplx else np.real(R)
    try:
        a2, e2 = lp.ac2poly(Rin)
        if rel(c(a2), c(a)) > tol or abs(e2 - e) > tol * r0:
            out.append("ac2poly(rc2ac(k)) != rc2poly(k) (order %d): %.2e" % (len(k), rel(c(a2), c(a))))
        k3, r03 = lp.ac2rc(Rin)
        if rel(c(k3), c(k)) > tol or abs(r03 - r0) > tol * r0:
            out.append("ac2rc(rc2ac(k)) != (k, r0) (order %d): %.2e" % (len(k), rel(c(k3), c(k))))
        # commuting: ac->poly equals ac->rc->poly
        a4, e4 = lp.rc2poly(k3, r03)
        if rel(c(a4), c(a2)) > tol:
            out.append("ac2poly != rc2poly o ac2rc")
        # ac -> poly -> ac
        R5 = np.asarray(lp.poly2ac(np.asarray(a2), e2))
        if rel(c(R5), c(R)) > tol:
            out.append("poly2ac(ac2poly(R)) != R")
    except Exception as ex:
        out.append("ac2poly/ac2rc raised %r on an admissible autocorrelation" % (ex,))
    if not cplx:
        g = lp.rc2lar(k)
        if rel(c(lp.lar2rc(g)), c(k)) > 1e-10:
            out.append("lar2rc(rc2lar(k)) != k")
        if rel(c(g), c(np.log((1 + k) / (1 - k)))) > 1e-10:
            out.append("rc2lar(k) != log((1+k)/(1-k))")
        if rel(c(lp.rc2lar(lp.lar2rc(g))), c(g)) > 1e-9:
            out.append("rc2lar(lar2rc(g)) != g")
        s = lp.rc2is(k)
        if rel(c(lp.is2rc(s)), c(k)) > 1e-10:
            out.append("is2rc(rc2is(k)) != k")
        if rel(c(s), c(2 / np.pi * np.arcsin(k))) > 1e-12:
            out.append("rc2is(k) != (2/pi) asin(k)")
        if rel(c(lp.rc2is(lp.is2rc(s))), c(s)) > 1e-9:
            out.append("rc2is(is2rc(s)) != s")
        for bad in ([1.0], [0.5, -1.0], [1.5]):
            for fn in (lp.rc2lar, lp.rc2is):
                try:
                    fn(np.array(bad))
                    out.append("%s accepted |k| >= 1" % fn.__name__)
                except ValueError:
                    pass
        # line spectral frequencies
        if len(k) <= 12:
            lsf = np.asarray(lp.poly2lsf(a))
            if len(lsf) != len(k):
                out.append("poly2lsf returned %d frequencies for order %d" % (len(lsf), len(k)))
            else:
                if not (np.all(np.diff(lsf) > 0) and lsf.min() > 0 and lsf.max() < np.pi):
                    out.append("LSFs not strictly increasing inside (0, pi): %s" % np.round(lsf, 4))
                a6 = np.asarray(lp.lsf2poly(lsf))
                if rel(c(a6), c(a)) > 1e-6:
                    out.append("lsf2poly(poly2lsf(a)) != a (order %d): %.2e" % (len(k), rel(c(a6), c(a))))
    return out


def impl_lsf(p):
    return [c(_lp().lsf2poly(p["lsf"]))]


def model_lsf(p):
    lsf = np.asarray(p["lsf"])
    z = np.exp(1j * lsf)
    rQ = z[0::2]
    rP = z[1::2]
    rQ = np.concatenate((rQ, rQ.conjugate()))
    rP = np.concatenate((rP, rP.conjugate()))
    return ("F", proto.request("lsfrecombine", "F", [len(lsf)], [rQ, rP]))


def _key(p):
    k = np.asarray(p["k"])
    return "%d|%s|%d" % (len(k), np.iscomplexobj(k), hash(k.tobytes()) & 0xFFFFFFF)


def _tags(p):
    k = np.asarray(p["k"])
    return ["complex" if np.iscomplexobj(k) else "real", "order:%d" % len(k)]


def _mk(kind, impl, model, post=None):
    d = {"impl": impl, "model": model, "rtol": 1e-9, "atol": 1e-300, "key": _key, "tags": _tags,
         "nontrivial": lambda p: len(p["k"]) >= 2}
    if post:
        d["post"] = post
    return d


KINDS = {
    "rc2poly": _mk("rc2poly", impl_rc2poly, model_rc2poly, post_lead1),
    "poly2rc": _mk("poly2rc", impl_poly2rc, model_poly2rc),
    "poly2ac": _mk("poly2ac", impl_poly2ac, model_poly2ac),
    "rc2ac": _mk("rc2ac", impl_rc2ac, model_rc2ac),
    "ac2poly": _mk("ac2poly", impl_ac2poly, model_ac2poly, post_ac2poly),
    "levdown": _mk("levdown", impl_levdown, model_levdown, post_lead1),
    "laws": {"oracle": oracle_all, "key": _key, "tags": _tags, "nontrivial": lambda p: len(p["k"]) >= 2},
}
KINDS["ac2poly"]["rtol"] = 1e-7
KINDS["lsf"] = {"impl": impl_lsf, "model": model_lsf, "rtol": 1e-9, "atol": 1e-12,
                "key": lambda p: "lsf|%d|%d" % (len(p["lsf"]), hash(np.asarray(p["lsf"]).tobytes()) & 0xFFFFFF),
                "tags": lambda p: ["lsf", "order:%d" % len(p["lsf"])], "nontrivial": lambda p: len(p["lsf"]) >= 2}


def gen_k(nrng, order, cplx):
    mag = nrng.integers(0, 63, order).astype(float) / 64.0   # <= 0.98
    if not cplx:
        sgn = nrng.integers(0, 2, order) * 2 - 1
        return mag * sgn
    # dyadic complex numbers of modulus <= 0.98: scale a dyadic direction
    re = nrng.integers(-44, 45, order).astype(float) / 64.0
    im = nrng.integers(-44, 45, order).astype(float) / 64.0
    k = re + 1j * im
    return k


def gen(rng, nrng, tier):
    n = 90 if tier == "quick" else 1500
    kinds = ["rc2poly", "poly2rc", "poly2ac", "rc2ac", "ac2poly", "levdown"]
    for i in range(n):
        cplx = bool(i % 2)
        order = 1 + (i % 16) if i < 64 else int(nrng.integers(1, 17))
        k = gen_k(nrng, order, cplx)
        if order > 8:
            k = k * 0.75
        r0 = float(nrng.integers(1, 9)) / 2.0
        if i % 9 == 4:
            r0 = [1e-15, 1e-12, 1e12, 2.0 ** -60][(i // 9) % 4]   # conversions are homogeneous in the power level
        p = {"k": k, "r0": r0}
        yield ("laws", p)
        yield (kinds[i % len(kinds)], p)
        yield (kinds[(i + 3) % len(kinds)], p)
        if not cplx and order <= 12:
            a, e = _lp().rc2poly(k, r0)
            yield ("lsf", {"lsf": np.asarray(_lp().poly2lsf(np.asarray(a))), "k": k, "r0": r0})
    # parameter sets with reflection coefficients that are exactly zero (last, first, interior, several): the polynomial then has
    # exactly-zero coefficients, which are coefficients like any other
    for i in range(12 if tier == "quick" else 120):
        order = 2 + i % 6
        k = gen_k(nrng, order, False)
        k[np.abs(k) < 1e-9] = 0.25
        for pos in [[order - 1], [0], [order // 2], [order - 1, order - 2]][i % 4]:
            k[pos] = 0.0
        p = {"k": k, "r0": 1.0 + (i % 3)}
        yield ("laws", p)
        yield (kinds[i % len(kinds)], p)
        a, e = _lp().rc2poly(k, p["r0"])
        yield ("lsf", {"lsf": np.asarray(_lp().poly2lsf(np.asarray(a))), "k": k, "r0": p["r0"]})
