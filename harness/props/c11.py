"""C11  Linear-prediction representations convert losslessly into each other."""
import numpy as np

import proto
from common import rel, dyadic

TRUSTED_BASE = [
    "numpy.roots / numpy.poly / scipy.signal.deconvolve (used by poly2lsf / lsf2poly) are parameters: the LSF clauses "
    "are evaluated by the oracle only (against the definition: the sum / difference polynomials of a vanish at e^{i w_j}, and against "
    "an independent product-of-quadratic-factors construction of lsf2poly)",
    "numpy tanh/arctanh/sin/arcsin: the Lean theorems are about Real.tanh/artanh/sin/arcsin",
    "exact mode: reflection coefficients are doubles (dyadic rationals) of modulus <= 0.98; model in exact Gaussian rationals, "
    "compared at rtol 1e-9 when r0/e < 1e2 and at rtol 1e-11 * 10^N for r0/e in (10^(N-1), 10^N] (kinds `...@cN`, N = 3..8; "
    "ac2poly: max(1e-7, 1e-10 * 10^N)): the step-down recursion and the Levinson recursion in double precision lose "
    "about (r0/e) * 1e-13 relative accuracy (measured: <= 3e-13 * r0/e, ac2poly <= 2e-12 * r0/e); rc2poly / levdown (well conditioned) "
    "always at 1e-9",
    "numpy.linalg.solve on the symmetric Toeplitz normal equations is the independent reference of the integer-autocorrelation "
    "cases (kind acint)",
]
PARTIAL = ["interlacing of the zeros of the sum and difference polynomials (the order in which P- and Q-angles alternate) is not proved; "
           "proved for real minimum-phase polynomials (all |k_i| < 1): every zero of both polynomials lies on the unit circle, is simple, "
           "the two have no common zero, and relative to the roots contract the sorted positive angles are p distinct values in (0, pi); "
           "the alternation itself (smallest angle a zero of the sum polynomial, then alternately) is evaluated by the oracle on every "
           "real case and on every independent LSF vector",
           "poly <-> lsf inverse pair: proved relative to the numpy.roots / numpy.poly contract only (C11.lsf_roundtrip_algebra; the zero "
           "remainder of deconvolve is proved: lsf_deflation_exists); the root finding itself is a parameter; both directions "
           "(lsf2poly o poly2lsf on polynomials, poly2lsf o lsf2poly on independent increasing angle vectors) are evaluated by the oracle"]
ASSUMPTIONS = ["domain: |k_i| <= 0.98, orders 1..16, and the conditioning predicate e/r0 = prod(1 - |k_i|^2) >= 1e-8 (computed in double "
               "precision from k in the generator; parameter sets that fail it are generated, counted in the tag `cond-dropped` and not "
               "evaluated): the conversions are exact-arithmetic inverse pairs, in floating point the step-down / Levinson directions have "
               "condition number ~ r0/e, so that outside this domain (e.g. all |k_i| ~ 0.97 at order >= 9, e/r0 ~ 1e-12) rc2ac returns "
               "numbers unrelated to the exact result and poly2lsf can raise; this is double-precision conditioning, outside the model",
               "value tolerances of the conditioned directions (poly2rc, rc2ac, ac2poly, ac2rc, poly2ac) are 1e-8 * max(1, (r0/e)/20), "
               "final errors are compared relative to e (not to r0); the well-conditioned quantities (step-up polynomial and error, "
               "ac2poly vs rc2poly o ac2rc, LSF round trips, lar / is maps) have fixed tolerances",
               "independent LSF vectors (kind lsfinv): sorted angles in (0.02, pi - 0.02) with gaps >= 1e-3 whose polynomial has "
               "reflection coefficients inside the domain above (computed by the generator's own step-down recursion); others are counted "
               "in `lsfinv-dropped` and not evaluated",
               "integer autocorrelations (kind acint): real symmetric Toeplitz matrix positive definite (smallest eigenvalue >= 0.02 R[0]) with "
               "reflection coefficients inside "
               "the domain above (computed by the generator with numpy.linalg.solve)",
               "input forms (list, negative stride, stride 2, complex dtype holding real values): the result must equal the result on the "
               "contiguous float64 / complex128 array within 5e-10 * r0/e (rounding-level differences of the scalar types, amplified by the "
               "conditioning); rc2poly(k) without r0 is only required to return the same polynomial (its final error is then 0 by convention)",
               "kind `kept`: reference values of every representation come from a step-up recursion written in the harness (numpy); a kept "
               "result must be byte-identical to what it was when returned (no tolerance) and within the tolerance of `laws` of the reference "
               "(1e-8 * max(1, (r0/e)/20) for the conditioned directions, 1e-9 otherwise); clauses fed with a kept result: 10 times that "
               "(the input carries the error of a conditioned direction; measured worst 0.083); reflection coefficients / lar / is / "
               "polynomial tails are measured on the scale max(1, .); parameter sets are redrawn until the conditioning predicate holds; "
               "aliasing (numpy.shares_memory between kept results or with an argument, .base reachable from module globals) is never reported "
               "by itself, it only triggers a probe (the caller rescales the array it was returned in place / one more conversion of "
               "another set of the same order and dtype) and a changed value is reported; the matrix U of rlevinson is not kept",
               "kind `hetero`: a type code that does not fit the value at its position (real type, non-zero imaginary part; integer type, "
               "non-integer) falls back to complex / float; the generator makes the reflection coefficients at real-typed positions real; "
               "tolerances: 5e-10 * r0/e against the ndarray call (as for the other input forms; measured worst 5.9e-5 of it over 6200 "
               "cases of the unchanged tree), 1e-9 / 1e-8 * max(1, (r0/e)/20) against the harness reference (as in `kept`; worst 5.2e-3 "
               "of it), 1e-8 * max(1, (r0/e)/20) for the two round trips (worst 1.7e-3 of it), sequences holding numpy.float32 / "
               "complex64 scalars: 2e-6 * prod((1 + |k_i|) / (1 - |k_i|)), r0/e <= 1e2 only (worst 1.9e-2 of it); excluded input classes "
               "(reported as findings, reproducer /tmp/finding_C11.py, marked PENDING-FINDING in the module): object-dtype arrays for the "
               "converters other than rc2poly / rc2ac / levup / levdown (real sets: also ac2poly / ac2rc / LEVINSON), levdown(sequence, e) "
               "with the error argument on a list / tuple / object array (evaluated without it), lar2rc on unsigned-integer arrays; "
               "0-d arrays / bare scalars in the place of the sequence are not parameter sets (every sequence converter raises TypeError "
               "on them) and are not generated",
               "single-precision inputs (float32 / complex64) are evaluated only when r0/e <= 1e2, at tolerance "
               "2e-6 * prod((1 + |k_i|) / (1 - |k_i|)) (the amplification bound of the Levinson / step-down recursions, >= r0/e) "
               "against the double-precision call on the same (rounded) values"]
RULE = ("random reflection-coefficient sets (real and complex, dyadic, |k| <= 0.98; a share with all moduli >= 0.625), order 1..16, "
        "zero-lag r0 > 0, filtered by e/r0 >= 1e-8; constant-modulus sets v * (all +, all -, alternating) * e^{i theta}, "
        "v in {0.9375, 0.96875}, at every order inside the domain; all-zero and partly-zero sets; every conversion and composition, "
        "every input container / dtype / stride form; independent LSF vectors; integer autocorrelations; "
        "histories with kept results (kind `kept`): three different parameter sets of one order and dtype (every order 1..16, real "
        "and complex, both orders of the converter sequence, set after set / converter after converter), and two sets of one order and "
        "dtype with sets of another order / the other dtype in between: all 16 converters (poly2rc, poly2ac, rc2ac, rc2poly, ac2poly, "
        "ac2rc, rlevinson, LEVINSON, levdown, levup, lar / is / lsf maps) run on every set, the returned objects are kept, and after the "
        "later conversions each is compared with its bytes at return time and with the reference, then used as the input of the "
        "inverse-pair / commuting-square clauses; caller's arguments fresh / one re-used buffer / temporaries (tags kept-*); "
        "heterogeneous containers (kind `hetero`): the parameter set written down entry by entry as a list / tuple / object-dtype array / "
        "numpy.array(list) of scalars of DIFFERENT types -- real-typed first entry (Python float / int, numpy.float64 / int64) followed by "
        "complex entries (autocorrelation [2.0, 0.5+0.25j, ..], polynomial [1, a1, ..], reflection coefficients [0.5, 0.2+0.1j, -0.3j]), "
        "real-typed entries scattered among complex ones, complex first and real later, numpy scalars next to Python scalars, "
        "numpy.float32 / complex64 scalars, int / float / numpy scalar mixtures for real sets -- orders 1..16 (1-element sequences "
        "included), typed scalar arguments (int / numpy scalar / 0-d array r0 and e), all 16 converters: result equal to the result on "
        "the float64 / complex128 ndarray of the same values and to the harness reference, rc -> poly -> rc and rc -> ac -> rc started "
        "from the sequence, sequence left unchanged (values and entry types); integer-dtype arrays and lists of Python ints (kind "
        "`intdtype`: white-noise sets, integer log-area ratios, integer line spectral frequencies, int64 .. int8, uint8); "
        "non-trivial = order >= 2")


def _lp():
    import spectrum.linear_prediction as lp
    return lp


def c(v):
    return np.asarray(v).astype(complex).ravel()


# --- the conditioning domain -------------------------------------------------------------------------

COND_MAX = 1e8      # r0/e = 1 / prod(1 - |k_i|^2) <= 1e8   <=>   e/r0 >= 1e-8


def _ratio(k):
    """e/r0 = prod(1 - |k_i|^2), in double precision"""
    return float(np.prod(1.0 - np.abs(np.asarray(k)) ** 2))


def in_domain(k):
    k = np.asarray(k)
    return bool(np.all(np.abs(k) <= 0.98)) and _ratio(k) * COND_MAX >= 1.0


def _cond(k):
    return 1.0 / _ratio(k)


def _tol(k, base=1e-8):
    """tolerance of the conditioned directions (step-down, Levinson): base * max(1, (r0/e)/20)"""
    return base * max(1.0, _cond(k) / 20.0)


COND_KINDS = ("poly2rc", "poly2ac", "rc2ac", "ac2poly")


def _cls(kind, k):
    """model-correspondence kind of a conditioned conversion: the kind itself when r0/e < 1e2, else kind@cN, 10^(N-1) < r0/e <= 10^N"""
    if kind not in COND_KINDS:
        return kind
    cnd = _cond(k)
    if cnd < 1e2:
        return kind
    n = 3
    while cnd > 10.0 ** n and n < 8:
        n += 1
    return "%s@c%d" % (kind, n)


# --- model correspondences (exact mode) ------------------------------------------------------------

def impl_rc2poly(p):
    a, e = _lp().rc2poly(p["k"], p["r0"])
    return [c(a), c([e])]


def model_rc2poly(p):
    return ("Q", proto.request("rc2poly", "Q", [], [p["k"], [p["r0"]]]))


def post_lead1(p, iv, mv):
    mv = [np.concatenate(([1], mv[0]))] + list(mv[1:])
    return iv, mv


def _poly(p):
    a, e = _lp().rc2poly(p["k"], p["r0"])
    return np.asarray(a), e


def impl_poly2rc(p):
    a, e = _poly(p)
    return [c(_lp().poly2rc(a, e))]


def model_poly2rc(p):
    a, e = _poly(p)
    return ("Q", proto.request("poly2rc", "Q", [], [a[1:]]))


def impl_poly2ac(p):
    a, e = _poly(p)
    return [c(_lp().poly2ac(a, e))]


def model_poly2ac(p):
    a, e = _poly(p)
    return ("Q", proto.request("poly2ac", "Q", [], [a[1:], [e]]))


def impl_rc2ac(p):
    return [c(_lp().rc2ac(p["k"], p["r0"]))]


def model_rc2ac(p):
    return ("Q", proto.request("rc2ac", "Q", [], [p["k"], [p["r0"]]]))


def _ac(p):
    return np.asarray(_lp().rc2ac(p["k"], p["r0"]))


def impl_ac2poly(p):
    R = _ac(p)
    if not np.iscomplexobj(p["k"]):
        R = np.real(R)
    a, e = _lp().ac2poly(R)
    return [c(a), c([e])]


def model_ac2poly(p):
    R = _ac(p)
    return ("Q", proto.request("lev", "Q", [len(R) - 1, 0], [[np.real(R[0])], R[1:]]))


def post_ac2poly(p, iv, mv):
    return iv, [np.concatenate(([1], mv[0])), mv[1]]


def impl_levdown(p):
    from spectrum.levinson import levdown
    a, e = _poly(p)
    acur, ecur = levdown(a, e)
    return [c(acur)]


def model_levdown(p):
    a, e = _poly(p)
    return ("Q", proto.request("levdown", "Q", [], [a[1:]]))


# --- independent references (numpy formulas written here) --------------------------------------------

def _ref_lsf2poly(w):
    """prediction polynomial with line spectral frequencies w, from real quadratic factors 1 - 2 cos(w_j) z^-1 + z^-2: the angles of
    even index (0, 2, ...) are zeros of the sum polynomial Q1 = A + z^-(p+1) A(1/z), those of odd index of the difference polynomial
    P1; trivial zeros z = -1 (Q1, even order), z = 1 (P1, even order), z = +-1 (P1, odd order); A = (P1 + Q1) / 2"""
    w = np.asarray(w, dtype=float)
    Q = np.array([1.0])
    P = np.array([1.0])
    for j, x in enumerate(w):
        f = np.array([1.0, -2.0 * np.cos(x), 1.0])
        if j % 2 == 0:
            Q = np.convolve(Q, f)
        else:
            P = np.convolve(P, f)
    if len(w) % 2:
        P = np.convolve(P, [1.0, 0.0, -1.0])
    else:
        P = np.convolve(P, [1.0, -1.0])
        Q = np.convolve(Q, [1.0, 1.0])
    return (0.5 * (P + Q))[:-1]


def _ref_stepdown(a):
    """reflection coefficients of a real polynomial [1, a_1..a_p] by the step-down recursion (None if some |k| >= 1)"""
    a = np.asarray(a, dtype=float)
    ks = []
    while len(a) > 1:
        kk = a[-1]
        if not abs(kk) < 1:
            return None
        ks.append(kk)
        a = ((a - kk * a[::-1]) / (1.0 - kk * kk))[:-1]
    return np.array(ks[::-1])


def _lsf_definition(a, w):
    """largest |Q1(e^{i w_j})| (j even) / |P1(e^{i w_j})| (j odd), relative to the l1 norm of the coefficients: zero iff w are the
    line spectral frequencies of a, alternating between the sum and the difference polynomial starting with the sum polynomial"""
    a1 = np.concatenate((np.asarray(a, dtype=float), [0.0]))
    P1 = a1 - a1[::-1]
    Q1 = a1 + a1[::-1]
    z = np.exp(1j * np.asarray(w, dtype=float))
    worst = 0.0
    for j, zz in enumerate(z):
        pol = Q1 if j % 2 == 0 else P1
        worst = max(worst, abs(np.polyval(pol, zz)) / np.sum(np.abs(pol)))
    return worst


def _normal_equations(a, e, R):
    """residual of the normal equations sum_j a_j R(i-j) = e [i = 0], i = 0..p, R(-m) = conj(R(m)), relative to |R(0)| * sum |a_j|"""
    a = c(a)
    R = c(R)
    n = len(a)
    worst = 0.0
    for i in range(n):
        acc = 0.0
        for j in range(n):
            m = i - j
            acc = acc + a[j] * (R[m] if m >= 0 else np.conj(R[-m]))
        worst = max(worst, abs(acc - (e if i == 0 else 0.0)))
    return worst / (abs(R[0]) * float(np.sum(np.abs(a))))


# --- property oracle: inverse pairs and commuting squares -------------------------------------------

def oracle_all(p):
    lp = _lp()
    k = np.asarray(p["k"])
    r0 = p["r0"]
    cplx = np.iscomplexobj(k)
    out = []
    if not in_domain(k):
        return ["harness: parameter set outside the stated domain (e/r0 = %.2e)" % _ratio(k)]
    tol = _tol(k)                       # conditioned directions: 1e-8 * max(1, (r0/e) / 20)
    a, e = lp.rc2poly(k, r0)
    a = np.asarray(a)
    if len(a) != len(k) + 1 or a[0] != 1:
        out.append("rc2poly: wrong length / leading coefficient")
    e_exp = r0 * np.prod(1 - np.abs(k) ** 2)
    if not abs(e - e_exp) <= 1e-11 * abs(e_exp):
        out.append("rc2poly final error %r != r0*prod(1-|k|^2) = %r" % (e, e_exp))
    k2 = np.asarray(lp.poly2rc(a, e))
    if rel(c(k2), c(k)) > tol:
        out.append("poly2rc(rc2poly(k)) != k  (order %d, %s): %.2e" % (len(k), "complex" if cplx else "real", rel(c(k2), c(k))))
    R = np.asarray(lp.rc2ac(k, r0))
    if len(R) != len(k) + 1 or not abs(R[0] - r0) <= tol * r0:
        out.append("rc2ac: wrong length or R[0] != r0")
    else:
        ne = _normal_equations(a, e, R)
        if not ne <= tol:
            out.append("rc2ac(k, r0) and rc2poly(k, r0) do not satisfy the normal equations sum_j a_j R(i-j) = e [i=0]: %.2e" % ne)
    R3 = np.asarray(lp.poly2ac(a, e))
    if rel(c(R3), c(R)) > tol:
        out.append("poly2ac(rc2poly(k)) != rc2ac(k)")
    Rin = R if cplx else np.real(R)
    try:
        a2, e2 = lp.ac2poly(Rin)
        if rel(c(a2), c(a)) > tol or not abs(e2 - e) <= tol * abs(e):
            out.append("ac2poly(rc2ac(k)) != rc2poly(k) (order %d): %.2e, final error %r vs %r" % (len(k), rel(c(a2), c(a)), e2, e))
        k3, r03 = lp.ac2rc(Rin)
        if rel(c(k3), c(k)) > tol or not abs(r03 - r0) <= tol * r0:
            out.append("ac2rc(rc2ac(k)) != (k, r0) (order %d): %.2e" % (len(k), rel(c(k3), c(k))))
        # commuting: ac->poly equals ac->rc->poly (polynomial and final error; both well conditioned given the same k3)
        a4, e4 = lp.rc2poly(k3, r03)
        if rel(c(a4), c(a2)) > 1e-12:
            out.append("ac2poly != rc2poly o ac2rc: %.2e" % rel(c(a4), c(a2)))
        if not abs(e4 - e2) <= 1e-12 * abs(e2):
            out.append("final error of ac2poly %r != final error of rc2poly o ac2rc %r" % (e2, e4))
        # ac -> poly -> ac
        R5 = np.asarray(lp.poly2ac(np.asarray(a2), e2))
        if rel(c(R5), c(R)) > tol:
            out.append("poly2ac(ac2poly(R)) != R")
    except Exception as ex:
        out.append("ac2poly/ac2rc raised %r on an admissible autocorrelation" % (ex,))
    if not cplx:
        g = lp.rc2lar(k)
        if rel(c(lp.lar2rc(g)), c(k)) > 1e-10:
            out.append("lar2rc(rc2lar(k)) != k")
        if rel(c(g), c(np.log((1 + k) / (1 - k)))) > 1e-10:
            out.append("rc2lar(k) != log((1+k)/(1-k))")
        if rel(c(lp.rc2lar(lp.lar2rc(g))), c(g)) > 1e-9:
            out.append("rc2lar(lar2rc(g)) != g")
        s = lp.rc2is(k)
        if rel(c(lp.is2rc(s)), c(k)) > 1e-10:
            out.append("is2rc(rc2is(k)) != k")
        if rel(c(s), c(2 / np.pi * np.arcsin(k))) > 1e-12:
            out.append("rc2is(k) != (2/pi) asin(k)")
        if rel(c(lp.rc2is(lp.is2rc(s))), c(s)) > 1e-9:
            out.append("rc2is(is2rc(s)) != s")
        for bad in ([1.0], [0.5, -1.0], [1.5]):
            for fn in (lp.rc2lar, lp.rc2is):
                try:
                    fn(np.array(bad))
                    out.append("%s accepted |k| >= 1" % fn.__name__)
                except ValueError:
                    pass
        # line spectral frequencies (every order 1..16 inside the conditioning domain)
        try:
            lsf = np.asarray(lp.poly2lsf(a))
        except Exception as ex:
            out.append("poly2lsf raised %r on a minimum-phase polynomial of order %d" % (ex, len(k)))
            lsf = None
        if lsf is not None:
            if len(lsf) != len(k):
                out.append("poly2lsf returned %d frequencies for order %d" % (len(lsf), len(k)))
            else:
                if not (np.all(np.diff(lsf) > 0) and lsf.min() > 0 and lsf.max() < np.pi):
                    out.append("LSFs not strictly increasing inside (0, pi): %s" % np.round(lsf, 4))
                d = _lsf_definition(a, lsf)
                if not d <= LSF_DEF_TOL:
                    out.append("poly2lsf(a): the sum / difference polynomials of a do not vanish alternately at e^{i lsf_j} "
                               "(order %d): %.2e" % (len(k), d))
                a6 = np.asarray(lp.lsf2poly(lsf))
                if not rel(c(a6), c(a)) <= 1e-9:
                    out.append("lsf2poly(poly2lsf(a)) != a (order %d): %.2e" % (len(k), rel(c(a6), c(a))))
    return out


LSF_DEF_TOL = 1e-9


# --- input forms: containers, strides, dtypes ------------------------------------------------------------

def _forms_of(x):
    """(name, object handed to the library, ndarray the result must equal the result of, single precision?)"""
    x = np.ascontiguousarray(x)
    buf = np.empty(2 * x.size, dtype=x.dtype)
    buf[1::2] = 7.25e3              # neighbouring memory holds other (finite) numbers
    buf[::2] = x
    out = [("list", x.tolist(), x, False),
           ("negstride", x[::-1].copy()[::-1], x, False),
           ("stride2", buf[::2], x, False)]
    if np.iscomplexobj(x):
        x32 = x.astype(np.complex64)
    else:
        out.append(("complex", x.astype(complex), x, False))
        x32 = x.astype(np.float32)
    out.append(("single", x32, x32.astype(x.dtype), True))
    return out


def _outs(r):
    """library return value -> list of complex vectors"""
    if isinstance(r, tuple):
        return [c(v) for v in r]
    return [c(r)]


def oracle_forms(p):
    """every converter on a list, a negative-stride view, a stride-2 view, a complex array holding real values and a single-precision
    array returns what it returns on the float64 / complex128 ndarray; the input is left unchanged; default / integer / complex r0"""
    lp = _lp()
    k = np.asarray(p["k"])
    r0 = p["r0"]
    cplx = np.iscomplexobj(k)
    if not in_domain(k):
        return ["harness: parameter set outside the stated domain (e/r0 = %.2e)" % _ratio(k)]
    cnd = _cond(k)
    tol = _tol(k)
    tolf = 5e-10 * cnd                      # same numbers in another container: rounding-level differences, amplified like r0/e
    # single precision (evaluated for r0/e <= 1e2 only): 2e-6 times Cybenko's amplification bound of the Levinson / step-down
    # recursions, prod (1 + |k_i|) / (1 - |k_i|)  (>= r0/e; measured: error <= 5e-8 times this bound)
    tol32 = 2e-6 * max(1.0, float(np.prod((1 + np.abs(k)) / (1 - np.abs(k)))))
    out = []
    a, e = lp.rc2poly(k, r0)
    a = np.asarray(a)
    R = np.asarray(lp.rc2ac(k, r0))
    Rin = R if cplx else np.real(R)
    fns = [("rc2poly", k, lambda v: lp.rc2poly(v, r0), True),
           ("rc2ac", k, lambda v: lp.rc2ac(v, r0), True),
           ("poly2rc", a, lambda v: lp.poly2rc(v, e), True),
           ("poly2ac", a, lambda v: lp.poly2ac(v, e), True),
           ("ac2poly", Rin, lp.ac2poly, True),
           ("ac2rc", Rin, lp.ac2rc, True)]
    if not cplx:
        g = np.asarray(lp.rc2lar(k))
        s = np.asarray(lp.rc2is(k))
        fns += [("rc2lar", k, lp.rc2lar, False), ("lar2rc", g, lp.lar2rc, False),
                ("rc2is", k, lp.rc2is, False), ("is2rc", s, lp.is2rc, False)]
        lsf = np.asarray(lp.poly2lsf(a))
        fns += [("poly2lsf", a, lp.poly2lsf, False), ("lsf2poly", lsf, lp.lsf2poly, False)]
    for name, x, fn, complex_ok in fns:
        x = np.array(x)
        ref_cache = {}
        for form, obj, base, single in _forms_of(x):
            if form == "complex" and not complex_ok:
                continue                    # log-area ratios / inverse sine / LSF are defined for real arguments only
            if single and (cnd > 1e2 or name in ("poly2lsf", "lsf2poly")):
                continue
            keep = list(obj) if isinstance(obj, list) else obj.copy()
            try:
                got = _outs(fn(obj))
                kb = base.tobytes()
                if kb not in ref_cache:
                    ref_cache[kb] = _outs(fn(base.copy()))
                ref = ref_cache[kb]
            except Exception as ex:
                out.append("%s raised %r on the %s form of an admissible input (order %d)" % (name, ex, form, len(k)))
                continue
            t = tol32 if single else tolf
            if name in ("poly2lsf", "lsf2poly"):
                t = 1e-9
            if len(got) != len(ref) or any(not rel(u, v) <= t for u, v in zip(got, ref)):
                out.append("%s(%s form) != %s(ndarray) (order %d): %s" % (
                    name, form, name, len(k), ["%.2e" % rel(u, v) for u, v in zip(got, ref)] if len(got) == len(ref) else "lengths"))
            same = (obj == keep) if isinstance(obj, list) else (obj.dtype == keep.dtype and np.array_equal(obj, keep))
            if not same:
                out.append("%s modified its input (%s form)" % (name, form))
    # zero-lag forms: default (the polynomial does not depend on it), Python int, the complex scalar returned by ac2rc
    ad = np.asarray(lp.rc2poly(k)[0])
    if not rel(c(ad), c(a)) <= 1e-14:
        out.append("rc2poly(k) without r0 returns another polynomial than rc2poly(k, r0): %.2e" % rel(c(ad), c(a)))
    if float(r0) == int(r0):
        ai, ei = lp.rc2poly(k, int(r0))
        Ri = lp.rc2ac(k, int(r0))
        if not (rel(c(ai), c(a)) <= tolf and abs(ei - e) <= 1e-12 * abs(e) and rel(c(Ri), c(R)) <= tolf):
            out.append("rc2poly / rc2ac with an integer r0 differ from the float r0 call")
    try:
        if not cplx:
            # the autocorrelation exactly as rc2ac returns it (complex dtype, zero imaginary parts), without np.real
            a2, e2 = lp.ac2poly(Rin)
            k3, r03 = lp.ac2rc(Rin)
            a2c, e2c = lp.ac2poly(R)
            k3c, r03c = lp.ac2rc(R)
            if not (rel(c(a2c), c(a2)) <= tolf and abs(e2c - e2) <= tolf * abs(e2)):
                out.append("ac2poly(rc2ac(k)) on the returned complex array != ac2poly on its real part")
            if not (rel(c(a2c), c(a)) <= tol and abs(e2c - e) <= tol * abs(e)):
                out.append("ac2poly(rc2ac(k)) on the returned complex array != rc2poly(k) (order %d): %.2e" % (len(k), rel(c(a2c), c(a))))
            if not (rel(c(k3c), c(k3)) <= tolf and rel(c(k3c), c(k)) <= tol and abs(r03c - r0) <= tol * r0):
                out.append("ac2rc(rc2ac(k)) on the returned complex array != (k, r0)")
        else:
            k3c, r03c = lp.ac2rc(R)
            a2c, e2c = lp.ac2poly(R)
        # the zero lag as ac2rc returns it (complex scalar for a complex-dtype autocorrelation) fed back
        Rb = np.asarray(lp.rc2ac(k3c, r03c))
        if not rel(c(Rb), c(R)) <= tol:
            out.append("rc2ac(*ac2rc(R)) != R (order %d): %.2e" % (len(k), rel(c(Rb), c(R))))
        ab, eb = lp.rc2poly(k3c, r03c)
        if not (rel(c(ab), c(a2c)) <= 1e-12 and abs(eb - e2c) <= 1e-12 * abs(e2c)):
            out.append("rc2poly(*ac2rc(R)) != ac2poly(R)")
    except Exception as ex:
        out.append("complex-dtype autocorrelation / zero lag: raised %r (order %d)" % (ex, len(k)))
    return out


# --- polynomial <- LSF -> polynomial on independent angle vectors ------------------------------------------

def oracle_lsfinv(p):
    lp = _lp()
    w = np.asarray(p["lsf"], dtype=float)
    n = len(w)
    out = []
    try:
        a = np.asarray(lp.lsf2poly(w))
    except Exception as ex:
        return ["lsf2poly raised %r on increasing angles inside (0, pi)" % (ex,)]
    if a.shape != (n + 1,) or a[0] != 1 or not np.isrealobj(a):
        return ["lsf2poly: wrong length, leading coefficient or dtype (%s, %s)" % (a.shape, a.dtype)]
    aref = _ref_lsf2poly(w)
    if not rel(a, aref) <= 1e-10:
        out.append("lsf2poly(w) != (P1 + Q1)/2 built from the quadratic factors (order %d): %.2e" % (n, rel(a, aref)))
    d = _lsf_definition(a, w)
    if not d <= LSF_DEF_TOL:
        out.append("the sum / difference polynomials of lsf2poly(w) do not vanish alternately at e^{i w_j} (order %d): %.2e" % (n, d))
    if not np.max(np.abs(np.roots(a))) < 1:
        out.append("lsf2poly(w) is not minimum phase (order %d)" % n)
    try:
        w2 = np.asarray(lp.poly2lsf(a))
    except Exception as ex:
        out.append("poly2lsf raised %r on lsf2poly(w), order %d" % (ex, n))
        return out
    if w2.shape != (n,):
        out.append("poly2lsf(lsf2poly(w)) has %d entries for order %d" % (w2.size, n))
    else:
        if not (np.all(np.diff(w2) > 0) and w2.min() > 0 and w2.max() < np.pi):
            out.append("poly2lsf(lsf2poly(w)) not strictly increasing inside (0, pi)")
        if not rel(w2, w) <= 1e-8:
            out.append("poly2lsf(lsf2poly(w)) != w (order %d): %.2e" % (n, rel(w2, w)))
    for form, obj, base, single in _forms_of(w):
        if single or form == "complex":
            continue
        keep = list(obj) if isinstance(obj, list) else obj.copy()
        try:
            af = np.asarray(lp.lsf2poly(obj))
            if not rel(c(af), c(a)) <= 1e-12:
                out.append("lsf2poly(%s form) != lsf2poly(ndarray): %.2e" % (form, rel(c(af), c(a))))
        except Exception as ex:
            out.append("lsf2poly raised %r on the %s form" % (ex, form))
        if not ((obj == keep) if isinstance(obj, list) else np.array_equal(obj, keep)):
            out.append("lsf2poly modified its input (%s form)" % form)
    return out


# --- integer autocorrelations -----------------------------------------------------------------------------

def _toeplitz_ref(R):
    """(a, e, k) of a real autocorrelation by numpy.linalg.solve on the normal equations of every order"""
    R = np.asarray(R, dtype=float)
    n = len(R) - 1
    ks = []
    a = np.array([1.0])
    for m in range(1, n + 1):
        T = np.array([[R[abs(i - j)] for j in range(m)] for i in range(m)])
        am = np.linalg.solve(T, -R[1:m + 1])
        ks.append(am[-1])
        a = np.concatenate(([1.0], am))
    e = R[0] + float(np.dot(R[1:], a[1:]))
    return a, e, np.array(ks)


def oracle_acint(p):
    lp = _lp()
    Ri = np.asarray(p["R"])
    out = []
    aref, eref, kref = _toeplitz_ref(Ri)
    tol = _tol(kref)
    forms = [("int64 array", Ri.astype(np.int64)), ("int32 array", Ri.astype(np.int32)), ("list of int", [int(v) for v in Ri]),
             ("float array", Ri.astype(float))]
    for name, obj in forms:
        keep = list(obj) if isinstance(obj, list) else obj.copy()
        try:
            a, e = lp.ac2poly(obj)
            kk, r0 = lp.ac2rc(obj)
            if not (rel(c(a), c(aref)) <= tol and abs(e - eref) <= tol * abs(eref)):
                out.append("ac2poly(%s) != solution of the normal equations: %.2e, e %r vs %r" % (name, rel(c(a), c(aref)), e, eref))
            if not (rel(c(kk), c(kref)) <= tol and r0 == Ri[0]):
                out.append("ac2rc(%s) != reflection coefficients of the normal equations / R[0]: %.2e" % (name, rel(c(kk), c(kref))))
            Rb = lp.poly2ac(a, e)
            if not rel(c(Rb), c(Ri)) <= tol:
                out.append("poly2ac(ac2poly(%s)) != R: %.2e" % (name, rel(c(Rb), c(Ri))))
            Rc = lp.rc2ac(kk, r0)                   # r0 is an integer scalar for integer input
            if not rel(c(Rc), c(Ri)) <= tol:
                out.append("rc2ac(*ac2rc(%s)) != R: %.2e" % (name, rel(c(Rc), c(Ri))))
            a4, e4 = lp.rc2poly(kk, r0)
            if not (rel(c(a4), c(a)) <= 1e-12 and abs(e4 - e) <= 1e-12 * abs(e)):
                out.append("rc2poly(*ac2rc(%s)) != ac2poly: %.2e" % (name, rel(c(a4), c(a))))
        except Exception as ex:
            out.append("raised %r on a positive-definite integer autocorrelation given as %s" % (ex, name))
        same = (obj == keep) if isinstance(obj, list) else (obj.dtype == keep.dtype and np.array_equal(obj, keep))
        if not same:
            out.append("ac2poly / ac2rc modified their input (%s)" % name)
    return out


# --- kept results: what an EARLIER conversion returned stays valid while LATER conversions run ---------------------------
#
# Every other kind looks at a result immediately after the call that produced it.  Here the results of all conversions of several
# parameter sets are kept (the very objects the library returned), more conversions run (same function and the rest of the
# family, on other parameter sets of the same order and dtype, of other orders, of the other dtype), and only then
#   (B) every kept result is compared with what it was when it was returned (bytes) and with the reference value,
#   (C) every kept result is used as the INPUT of the inverse-pair / commuting-square clauses,
#   (B2) the byte comparison is repeated after the conversions of (C),
#   (D) tripwires: two kept arrays that share memory, or a kept array whose .base is reachable from the globals of the library
#       modules, trigger a directed probe (the caller scales the array it owns in place / one more conversion of another parameter
#       set of the same order and dtype); only a concrete changed value is reported, never the aliasing by itself.
# The caller's input arrays are fresh arrays kept alive ("fresh"), one re-used buffer per representation that the caller overwrites
# for the next parameter set ("buffer": a result that is a view of the argument shows up as a changed kept value), or temporaries
# dropped after the call ("temp": recycled id()s); they must never be modified by the library.

KEPT_FNS = ("rc2poly", "rc2ac", "poly2rc", "poly2ac", "ac2poly", "ac2rc", "rlevinson", "LEVINSON", "levdown", "levup",
            "rc2lar", "lar2rc", "rc2is", "is2rc", "poly2lsf", "lsf2poly")
KEPT_REAL_ONLY = frozenset(KEPT_FNS[10:])
# name -> (array argument, scalar arguments, outputs: (reference quantity, tolerance class) or None for an output that is not kept)
# tolerance classes: "c" = conditioned direction, _tol(k) = 1e-8 * max(1, (r0/e)/20) as in `laws`; "w" = well conditioned, 1e-9
# (measured on the unchanged tree, 52 generator streams = 5300 histories: worst error / tolerance 9.4e-3 for "c" [final error of
# ac2poly], 4.3e-4 for "w" [lsf2poly; all others <= 1.1e-5]; the re-use clauses of phase (C) have their own tolerance, see there)
KEPT_SPEC = {
    "rc2poly": ("k", ("r0",), (("a", "w"), ("e", "w"))),
    "rc2ac": ("k", ("r0",), (("R", "c"),)),
    "poly2rc": ("a", ("e",), (("k", "c"),)),
    "poly2ac": ("a", ("e",), (("R", "c"),)),
    "ac2poly": ("Rin", (), (("a", "c"), ("e", "c"))),
    "ac2rc": ("Rin", (), (("k", "c"), ("r0", "w"))),
    "rlevinson": ("a", ("e",), (("R", "c"), None, ("k", "c"), ("ev", "c"))),
    "LEVINSON": ("Rin", (), (("a1", "c"), ("e", "c"), ("k", "c"))),
    "levdown": ("a", ("e",), (("ap", "w"), ("ep", "w"))),
    "levup": ("ap", ("kp", "ep"), (("a", "w"), ("e", "w"))),
    "rc2lar": ("k", (), (("g", "w"),)),
    "lar2rc": ("g", (), (("k", "w"),)),
    "rc2is": ("k", (), (("s", "w"),)),
    "is2rc": ("s", (), (("k", "w"),)),
    "poly2lsf": ("a", (), (("w", "w"),)),
    "lsf2poly": ("w", (), (("a", "w"),)),
}
KEPT_MAX_MSG = 4
KEPT_STATS = None       # set to a dict by the measuring script: worst error / tolerance per (phase, converter, quantity)


def _stat(key, d, t):
    if KEPT_STATS is not None:
        KEPT_STATS[key] = max(KEPT_STATS.get(key, 0.0), d / t)


def _kept_fn(name):
    import spectrum.levinson as lv
    if name in ("rlevinson", "LEVINSON", "levdown", "levup"):
        return getattr(lv, name)
    return getattr(_lp(), name)


def _ref_set(k, r0):
    """every representation of the parameter set (k, r0), by the step-up recursion written here (numpy only):
    a_m = [a_{m-1}, 0] + k_m conj(reversed), e_m = e_{m-1} (1 - |k_m|^2), R(m) = -k_m e_{m-1} - sum_{j=1}^{m-1} a_{m-1}[j] R(m-j)"""
    k = np.asarray(k)
    cplx = np.iscomplexobj(k)
    dt = complex if cplx else float
    a = np.array([1.0], dtype=dt)
    e = float(r0)
    R = [dt(r0)]
    ev = []
    ap, ep = a, e
    for m in range(1, len(k) + 1):
        km = k[m - 1]
        r = -km * e
        for j in range(1, m):
            r = r - a[j] * R[m - j]
        R.append(r)
        ap, ep = a, e
        a0 = np.concatenate((a, [0.0]))
        a = a0 + km * np.conj(a0[::-1])
        e = e * (1.0 - abs(km) ** 2)
        ev.append(e)
    S = {"k": np.array(k, dtype=dt), "r0": float(r0), "a": a, "e": float(e), "R": np.array(R, dtype=dt), "Rin": np.array(R, dtype=dt),
         "ap": ap, "ep": float(ep), "kp": dt(k[-1]), "ev": np.array(ev), "a1": a[1:].copy(), "cplx": cplx, "order": len(k)}
    if not cplx:
        S["g"] = np.log((1.0 + S["k"]) / (1.0 - S["k"]))
        S["s"] = 2.0 / np.pi * np.arcsin(S["k"])
    return S


def _dist(o, ref, label):
    """max-norm distance relative to the larger max-norm; reflection coefficients, log-area ratios, inverse-sine parameters and the
    polynomial without its leading 1 are measured on the scale max(1, .) (an all-zero parameter set is admissible, and a coefficient
    of 6e-17 in its place is a rounding error of a polynomial whose leading coefficient is 1, not a relative error of 100 %)"""
    a, b = c(o), c(ref)
    d = rel(a, b)
    if label in ("k", "a1", "g", "s") and a.size and np.isfinite(d):
        d *= min(1.0, max(float(np.max(np.abs(a))), float(np.max(np.abs(b)))))
    return d


def _snap(o):
    """what a kept object is, now: (dtype, shape, bytes) of an array, a tuple of a list, the value of a scalar"""
    if isinstance(o, np.ndarray):
        return ("nd", o.dtype.str, o.shape, o.tobytes())
    if isinstance(o, (list, tuple)):
        return ("seq", tuple(complex(v) for v in o))
    return ("sc", complex(o))


def _first_diff(o, snap):
    """'[i]: was x, now y' for the first entry of the kept object that differs from its snapshot"""
    if snap[0] == "nd":
        old = np.frombuffer(snap[3], dtype=np.dtype(snap[1])).reshape(snap[2])
        if not isinstance(o, np.ndarray) or o.shape != old.shape or o.dtype != old.dtype:
            return "shape / dtype changed"
        new = o.ravel()
        old = old.ravel()
        for i in range(old.size):
            if old[i].tobytes() != new[i].tobytes():
                return "[%d]: was %r, now %r" % (i, old[i].item(), new[i].item())
        return "?"
    if snap[0] == "seq":
        new = tuple(complex(v) for v in o)
        for i, (u, v) in enumerate(zip(snap[1], new)):
            if u != v:
                return "[%d]: was %r, now %r" % (i, u, v)
        return "length changed"
    return "was %r, now %r" % (snap[1], complex(o))


def _module_level_ids():
    """id()s of the arrays reachable from the globals of the library modules of this property (directly, or inside a dict / list /
    tuple / set global, two levels deep)"""
    import spectrum.levinson as lv
    ids = set()

    def walk(v, depth):
        if isinstance(v, np.ndarray):
            ids.add(id(v))
        elif depth < 3 and isinstance(v, dict):
            for x in list(v.values()):
                walk(x, depth + 1)
        elif depth < 3 and isinstance(v, (list, tuple, set, frozenset)):
            for x in list(v):
                walk(x, depth + 1)
    for mod in (lv, _lp()):
        for name, v in list(vars(mod).items()):
            if not name.startswith("__"):
                walk(v, 0)
    return ids


def _root_base(o):
    while isinstance(o, np.ndarray) and o.base is not None:
        o = o.base
    return o


def _probe_set(S):
    """another admissible parameter set of the same order and dtype (moduli <= 0.49, so e/r0 >= 0.75^16)"""
    k = S["k"]
    k2 = -0.5 * k[::-1]
    if np.array_equal(k2, k):
        k2 = k2 + 0.25
    return _ref_set(k2, S["r0"] * 0.5 + 0.25)


def _kept_faults(S):
    """rejected calls of the order and dtype of the parameter set S (a reflection coefficient of exactly 1 in the polynomial / in the
    reflection coefficients, leading coefficient 2, a polynomial of one coefficient, |R(1)| = R(0)): whatever they do (they raise
    ValueError / AssertionError, or return non-finite numbers) is ignored; what is checked is that the conversions of the admissible
    sets before and after them are what they are without them"""
    import spectrum.levinson as lv
    lp = _lp()
    a_bad = np.array(S["a"])
    a_bad[-1] = 1.0
    R_bad = np.array(S["Rin"])
    R_bad[1] = R_bad[0]
    k_bad = np.array(S["k"])
    k_bad[-1] = 1.0
    calls = [(lp.poly2rc, (a_bad, S["e"])), (lp.poly2ac, (2.0 * np.array(S["a"]), S["e"])), (lv.rlevinson, (a_bad, S["e"])),
             (lv.rlevinson, (np.array(S["a"][:1]), S["e"])), (lp.ac2poly, (R_bad,)), (lp.ac2rc, (R_bad,)), (lv.LEVINSON, (R_bad,)),
             (lv.levdown, (a_bad, S["e"])), (lp.rc2ac, (k_bad, S["r0"]))]
    if not S["cplx"]:
        calls += [(lp.rc2lar, (k_bad,)), (lp.rc2is, (1.5 * k_bad,))]
    for fn, args in calls:
        try:
            fn(*args)
        except Exception:
            pass


def oracle_kept(p):
    sets = [_ref_set(s["k"], s["r0"]) for s in p["sets"]]
    for S in sets:
        if not in_domain(S["k"]):
            return ["harness: parameter set outside the stated domain (e/r0 = %.2e)" % _ratio(S["k"])]
    mode = p.get("inputs", "fresh")
    names = list(KEPT_FNS)
    rot = int(p.get("rot", 0)) % len(names)
    names = names[rot:] + names[:rot]
    if p.get("rev"):
        names = names[::-1]
    out = []

    def say(msg):
        if len(out) < KEPT_MAX_MSG:
            out.append(msg)

    def who(si):
        S = sets[si]
        return "set %d: %s, order %d" % (si, "complex" if S["cplx"] else "real", S["order"])

    # the LSF vector handed to lsf2poly is the library's own poly2lsf of the reference polynomial, computed (and copied) before
    # the history starts; its defining property is evaluated in (B)
    for S in sets:
        if not S["cplx"]:
            try:
                S["w"] = np.array(_lp().poly2lsf(np.array(S["a"])), dtype=float)
            except Exception as ex:
                return ["poly2lsf raised %r on a minimum-phase polynomial of order %d" % (ex, S["order"])]
    bufs = {}
    alive = []          # (si, fn, array handed to the library, snapshot)     ("fresh" inputs)
    kept = []           # dicts: si, fn, label, obj, snap, cls

    def arg_array(S, key):
        v = np.array(S[key])
        if mode == "buffer":
            bk = (key, v.shape, v.dtype.str)
            if bk not in bufs:
                bufs[bk] = np.empty_like(v)
            bufs[bk][...] = v           # the caller re-uses its own buffer for the next parameter set
            return bufs[bk]
        if mode == "readonly":
            v.flags.writeable = False   # e.g. numpy.frombuffer / broadcast data: an admissible argument the library may only read
        return v

    def call(si, fn, S, arr, scalars):
        """library call on the array `arr`; checks that the argument is left unchanged"""
        before = _snap(arr)
        r = _kept_fn(fn)(arr, *scalars)
        if _snap(arr) != before:
            say("%s modified its argument (%s; %s)" % (fn, who(si), _first_diff(arr, before)))
        return r

    # (A) the history
    order = [(si, fn) for si in range(len(sets)) for fn in names]
    if p.get("interleave") == "by-fn":
        order = [(si, fn) for fn in names for si in range(len(sets))]
    blk = 4 * len(sets) if p.get("interleave") == "by-fn" else len(names)
    for idx, (si, fn) in enumerate(order):
        S = sets[si]
        if p.get("faults") and idx % blk == blk - 1:
            _kept_faults(S)             # rejected inputs of the same order and dtype in the middle of the history
        if S["cplx"] and fn in KEPT_REAL_ONLY:
            continue
        akey, skeys, outs = KEPT_SPEC[fn]
        arr = arg_array(S, akey)
        try:
            r = call(si, fn, S, arr, [S[s] for s in skeys])
        except Exception as ex:
            say("%s raised %r on an admissible input (%s)" % (fn, ex, who(si)))
            continue
        if mode in ("fresh", "readonly"):
            alive.append((si, fn, arr, _snap(arr)))
        del arr
        if not isinstance(r, tuple):
            r = (r,)
        if len(r) != len(outs):
            say("%s returned %d values" % (fn, len(r)))
            continue
        for o, spec in zip(r, outs):
            if spec is not None:
                kept.append({"si": si, "fn": fn, "label": spec[0], "cls": spec[1], "obj": o, "snap": _snap(o)})
        del r

    for b in bufs.values():
        b[...] = 0.625                  # the history is over: the caller uses its buffers for something else
    bufs.clear()

    def tol_of(S, cls):
        return max(_tol(S["k"]), 1e-9) if cls == "c" else 1e-9

    def check_bytes(when):
        for q in kept:
            if q.get("dead"):
                continue
            if _snap(q["obj"]) != q["snap"]:
                q["dead"] = True
                say("the %s returned by %s (%s) changed %s: %s" % (
                    q["label"], q["fn"], who(q["si"]), when, _first_diff(q["obj"], q["snap"])))

    # (B) kept results are what they were, and what they should be
    check_bytes("while later conversions ran")
    for q in kept:
        S = sets[q["si"]]
        d = _dist(q["obj"], S[q["label"]], q["label"])
        _stat(("B", q["cls"], q["fn"], q["label"]), d, tol_of(S, q["cls"]))
        if not d <= tol_of(S, q["cls"]):
            say("kept %s of %s != reference (%s): %.2e" % (q["label"], q["fn"], who(q["si"]), d))
        if q["label"] == "w" and len(q["obj"]) == S["order"]:
            d = _lsf_definition(S["a"], np.asarray(q["obj"], dtype=float))
            if not d <= LSF_DEF_TOL:
                say("kept poly2lsf result: the sum / difference polynomials do not vanish alternately at e^{i lsf_j} (%s): %.2e" % (
                    who(q["si"]), d))
    for si, fn, arr, snap in alive:
        if _snap(arr) != snap:
            say("the argument of %s (%s) was modified by a later conversion: %s" % (fn, who(si), _first_diff(arr, snap)))

    # (C) kept results as inputs of the inverse-pair / commuting-square clauses
    def clause(q, fn, arr, scalars, expect, what):
        S = sets[q["si"]]
        try:
            r = call(q["si"], fn, S, arr, scalars)
        except Exception as ex:
            say("%s raised %r on the kept %s of %s (%s)" % (fn, ex, q["label"], q["fn"], who(q["si"])))
            return
        if not isinstance(r, tuple):
            r = (r,)
        # the kept input carries the error of a conditioned direction and the clause adds its own: 10 * _tol(k)
        # (measured on the unchanged tree, 5300 cases: worst error <= 0.083 * _tol(k) [final error of ac2poly(kept poly2ac result)])
        t = 10.0 * tol_of(S, "c")
        for o, key in zip(r, expect):
            if key is None:
                continue
            d = _dist(o, S[key], key)
            _stat(("C", fn, q["fn"], q["label"], key), d, t)
            if not d <= t:
                say("%s: %s(kept %s of %s) != %s (%s): %.2e" % (what, fn, q["label"], q["fn"], key, who(q["si"]), d))

    stride = max(1, int(p.get("reuse_every", 1)))
    by_call = {}
    for q in kept:
        by_call.setdefault((q["si"], q["fn"]), {})[q["label"]] = q
    n = 0
    for q in kept:
        n += 1
        if n % stride:
            continue
        S = sets[q["si"]]
        lab, o = q["label"], q["obj"]
        grp = by_call[(q["si"], q["fn"])]
        if lab == "k":
            clause(q, "rc2poly", o, [S["r0"]], ("a", "e"), "rc -> poly")
            clause(q, "rc2ac", o, [S["r0"]], ("R",), "rc -> ac")
        elif lab in ("a", "a1"):
            ee = grp["e"]["obj"] if "e" in grp else S["e"]
            aa = o if lab == "a" else np.insert(o, 0, 1)
            clause(q, "poly2rc", aa, [ee], ("k",), "poly -> rc")
            clause(q, "poly2ac", aa, [ee], ("R",), "poly -> ac")
        elif lab == "R":
            Rin = o if S["cplx"] else np.real(o)
            clause(q, "ac2poly", Rin, [], ("a", "e"), "ac -> poly")
            clause(q, "ac2rc", Rin, [], ("k", "r0"), "ac -> rc")
        elif lab == "g":
            clause(q, "lar2rc", o, [], ("k",), "lar -> rc")
        elif lab == "s":
            clause(q, "is2rc", o, [], ("k",), "is -> rc")
        elif lab == "w":
            clause(q, "lsf2poly", np.asarray(o, dtype=float), [], ("a",), "lsf -> poly")
        elif lab == "ap":
            clause(q, "levup", o, [S["kp"], grp["ep"]["obj"]], ("a", "e"), "levup o levdown")

    # (B2)
    check_bytes("while the kept results were used as inputs of later conversions")

    # (D) tripwires -> directed probes; a violation is reported only through a changed value
    arrs = [q for q in kept if isinstance(q["obj"], np.ndarray) and q["obj"].size and not q.get("dead")]
    glob = _module_level_ids()
    for q in arrs:
        if id(_root_base(q["obj"])) in glob:
            S = sets[q["si"]]
            T = _probe_set(S)
            if "w" in S:
                T["w"] = S["w"][::-1].copy() * 0.5
            akey, skeys, _ = KEPT_SPEC[q["fn"]]
            try:
                _kept_fn(q["fn"])(np.array(T[akey]), *[T[s] for s in skeys])
            except Exception:
                pass
            if _snap(q["obj"]) != q["snap"]:
                q["dead"] = True
                say("the %s returned by %s (%s) is a view of a module-level array and changed when %s converted another parameter set "
                    "of the same order and dtype: %s" % (q["label"], q["fn"], who(q["si"]), q["fn"], _first_diff(q["obj"], q["snap"])))
    others = [(si, fn, "argument", arr) for si, fn, arr, _ in alive]
    for i, q in enumerate(arrs):
        if q.get("dead") or not q["obj"].flags.writeable:
            continue
        for q2 in arrs[i + 1:]:
            if q2.get("dead"):
                continue
            if np.may_share_memory(q["obj"], q2["obj"]) and np.shares_memory(q["obj"], q2["obj"]):
                before = _snap(q2["obj"])
                q["obj"][...] = q["obj"] * 0.5 + 0.25       # the caller scales the array it was given, in place
                q["dead"] = True
                if _snap(q2["obj"]) != before:
                    q2["dead"] = True
                    say("the %s returned by %s (%s) and the %s returned by %s (%s) are the same memory: after the caller rescaled the "
                        "first in place the second changed, %s" % (q["label"], q["fn"], who(q["si"]), q2["label"], q2["fn"],
                                                                  who(q2["si"]), _first_diff(q2["obj"], before)))
                break
        if q.get("dead"):
            continue
        for si, fn, _, arr in others:
            if np.may_share_memory(q["obj"], arr) and np.shares_memory(q["obj"], arr):
                before = _snap(arr)
                q["obj"][...] = q["obj"] * 0.5 + 0.25
                q["dead"] = True
                if _snap(arr) != before:
                    say("the %s returned by %s (%s) is a view of the caller's argument of %s (%s): after the caller rescaled the result "
                        "in place its argument changed, %s" % (q["label"], q["fn"], who(q["si"]), fn, who(si), _first_diff(arr, before)))
                break
    return out


def _key_kept(p):
    h = 0
    for s in p["sets"]:
        h = (h * 1000003 + hash(np.asarray(s["k"]).tobytes()) + hash(float(s["r0"]))) & 0xFFFFFFFFFF
    return "kept|%d|%s|%s|%s|%s|%s|%d" % (len(p["sets"]), p.get("inputs"), p.get("interleave"), p.get("rot"), bool(p.get("rev")),
                                           bool(p.get("faults")), h)


def _tags_kept(p):
    ks = [np.asarray(s["k"]) for s in p["sets"]]
    cl = [(len(k), bool(np.iscomplexobj(k))) for k in ks]
    t = ["kept", "kept-sets:%d" % len(ks), "kept-inputs:%s" % p.get("inputs", "fresh"),
         "kept-calls:%s/%s" % (p.get("interleave", "by-set"), "rev" if p.get("rev") else "fwd"),
         "kept:" + ("same-class" if len(set(cl)) == 1 else "mixed-classes"),
         "kept-first:%s" % ("complex" if cl[0][1] else "real"), "order:%d" % cl[0][0]]
    if max(cl.count(x) for x in cl) >= 2:
        t.append("kept:two-sets-of-one-class")
    if p.get("faults"):
        t.append("kept:rejected-calls-in-between")
    return t


# --- heterogeneous Python containers: the SAME parameter set written down entry by entry ------------------------------------
#
# Every other kind hands the library numpy arrays of one dtype (or `.tolist()` of such an array: then every entry has the same
# Python type).  A parameter set typed in by hand -- the form of the library's own documentation and tests -- is a plain list or
# tuple whose entries have DIFFERENT scalar types: an autocorrelation [2.0, 0.5+0.25j, ...] (the zero lag is a real number), a
# polynomial [1, a1, a2, ...] (integer leading 1), reflection coefficients [0.5, 0.2+0.1j, -0.3j] (some of them real), numpy scalars
# (what indexing an array returns) next to Python scalars.  Kind `hetero`: the per-position scalar types (`codes`) are a generated
# dimension; every converter that accepts a sequence is run on the list / tuple / object-dtype array / numpy.array(list) of those
# scalars and must return
#   (1) what it returns on the float64 / complex128 ndarray holding the same values (tolerance 5e-10 * r0/e as in `forms`),
#   (2) the reference value of that representation (step-up recursion of the harness, tolerances of `kept` phase (B)),
#   (3) rc -> poly -> rc and rc -> ac -> rc started from the heterogeneous sequence give back the reflection coefficients,
# and must leave the sequence (values AND entry types) unchanged.  Scalar arguments (r0, e, the new reflection coefficient of levup)
# are typed as well (Python float / int, numpy.float64 / int64, 0-d array).
# A type code that does not fit the value at its position (a real type for a value with non-zero imaginary part, an integer type for
# a non-integer) falls back to complex / float: the generator makes the reflection coefficients at the real-typed positions real.

H_REAL = ("float", "int", "np.float64", "np.int64", "np.float32")
H_DEMOTE = {"complex": "float", "np.complex128": "np.float64", "np.complex64": "np.float32"}
H_PROMOTE = {"float": "complex", "int": "complex", "np.float64": "np.complex128", "np.int64": "np.complex128", "np.float32": "np.complex64"}
H_CAST = {"float": float, "int": int, "np.float64": np.float64, "np.int64": np.int64, "np.float32": np.float32,
          "complex": complex, "np.complex128": np.complex128, "np.complex64": np.complex64}
H_PATTERNS = ("real-first", "real-first-numpy", "scattered", "complex-first", "numpy-scalars", "single")
H_CONTAINERS = ("list", "tuple", "objarr", "array")
# object-dtype arrays: numpy.isrealobj is True for them whatever they hold and the numpy ufuncs (tanh, arcsin, exp, roots) reject them.
# RULING (container outside the documented inputs: arrays of float64 / complex128 or lists of Python numbers; DESIGN 0.9) (see /tmp/finding_C11.py): on the unchanged tree LEVINSON / ac2poly / ac2rc on an object-dtype array holding complex lags
# take the real-data branch and return wrong numbers (numpy scalars inside) or raise TypeError (Python scalars inside); rlevinson /
# poly2rc / poly2ac raise TypeError (complex entries) / AttributeError (real entries, order >= 2: levdown calls .conj() on a Python float); rc2lar / lar2rc / rc2is / is2rc / poly2lsf / lsf2poly raise TypeError / NotImplementedError on
# object-dtype arrays of real numbers.  Object-dtype arrays are therefore handed only to the converters below.
H_OBJ_OK_COMPLEX = frozenset(("rc2poly", "rc2ac", "levup", "levdown"))
H_OBJ_OK_REAL = frozenset(("rc2poly", "rc2ac", "levup", "levdown", "ac2poly", "ac2rc", "LEVINSON"))
H_STATS = None          # set to a dict by the measuring script: worst error / tolerance per (clause, converter)
# measured on the unchanged tree (42 generator streams, 6200 cases, quick and thorough): worst error / tolerance
#   5.9e-5  fn(sequence) vs fn(ndarray), 5e-10 * r0/e            [final error of ac2poly]
#   5.2e-3  fn(sequence) vs harness reference, tolerances of `kept` [final error of ac2poly]
#   1.7e-3  round trips, 1e-8 * max(1, (r0/e)/20)                  [ac2rc o rc2ac]
#   1.9e-2  sequences holding numpy.float32 / complex64 scalars, 2e-6 * prod((1+|k|)/(1-|k|))  [error of levdown]
# i.e. every tolerance is >= 50 times the worst observed.


def _hstat(key, d, t):
    if H_STATS is not None:
        H_STATS[key] = max(H_STATS.get(key, 0.0), d / t)


def _typed(v, code, real_only):
    """the scalar v as an object of the type named by `code` (same value; np.float32 / np.complex64 round it)"""
    z = complex(v)
    if real_only:
        code = H_DEMOTE.get(code, code)
    elif code in H_REAL and z.imag != 0:
        code = H_PROMOTE[code]
    if code in ("int", "np.int64") and z.real != np.floor(z.real):
        code = "float" if code == "int" else "np.float64"
    return H_CAST[code](z.real if code in H_REAL else z)


def _hetero(x, codes, real_only):
    x = np.asarray(x).ravel()
    return [_typed(v, codes[i % len(codes)], real_only) for i, v in enumerate(x)]


def _hbase(h, real_only):
    """the float64 / complex128 array holding exactly the values of the scalars in h"""
    if real_only:
        return np.array([float(v) for v in h], dtype=float)
    return np.array([complex(v) for v in h], dtype=complex)


def _hcontainer(h, container):
    if container == "tuple":
        return tuple(h)
    if container == "objarr":
        return np.array(h, dtype=object)
    if container == "array":
        return np.array(h)
    return list(h)


def _hscalar(v, stype):
    """scalar argument (r0, e) typed: Python float / int, numpy float64 / int64, 0-d array"""
    v = float(v)
    if stype in ("int", "np.int64") and v != np.floor(v):
        stype = "float" if stype == "int" else "np.float64"
    if stype == "0-d":
        return np.array(v)
    return H_CAST[stype](v)


def _hsame(obj, keep_types, keep_vals):
    if isinstance(obj, np.ndarray) and obj.dtype != object:
        return np.array_equal(obj, np.asarray(keep_vals))
    return len(obj) == len(keep_vals) and all(type(u) is t and complex(u) == complex(v) for u, t, v in zip(obj, keep_types, keep_vals))


def oracle_hetero(p):
    k = np.asarray(p["k"])
    r0 = float(p["r0"])
    codes = list(p["codes"])
    stype = p.get("stype", "float")
    cplx = np.iscomplexobj(k)
    single = any(cd in ("np.float32", "np.complex64") for cd in codes)
    # the parameter set is what the typed scalars hold (np.float32 / np.complex64 entries round the reflection coefficients)
    kh = _hetero(k, codes, not cplx)
    k = _hbase(kh, not cplx)
    if not in_domain(k):
        return ["harness: parameter set outside the stated domain (e/r0 = %.2e)" % _ratio(k)]
    S = _ref_set(k, r0)
    if not cplx:
        try:
            S["w"] = np.array(_lp().poly2lsf(np.array(S["a"])), dtype=float)
        except Exception as ex:
            return ["poly2lsf raised %r on a minimum-phase polynomial of order %d" % (ex, S["order"])]
    cnd = _cond(k)
    tolf = 5e-10 * cnd
    tol32 = 2e-6 * max(1.0, float(np.prod((1 + np.abs(k)) / (1 - np.abs(k)))))
    if single and cnd > 1e2:
        return ["harness: single-precision scalars generated for a parameter set with r0/e > 1e2"]
    containers = p.get("containers", H_CONTAINERS)
    out = []

    def say(msg):
        if len(out) < KEPT_MAX_MSG:
            out.append(msg)

    who = "order %d, %s, entry types %s, scalar arguments %s" % (
        len(k), "complex" if cplx else "real", "/".join(type(v).__name__ for v in _hetero(S["a"], codes, not cplx)[:4]) + "..", stype)
    for fn in KEPT_FNS:
        if cplx and fn in KEPT_REAL_ONLY:
            continue
        if single and fn in ("poly2lsf", "lsf2poly"):
            continue
        akey, skeys, outs = KEPT_SPEC[fn]
        h = _hetero(S[akey], codes, not cplx)
        base = _hbase(h, not cplx)
        scal_ref = [S[s] for s in skeys]
        scal = [(_typed(S[s], codes[-1], not cplx) if s == "kp" else _hscalar(S[s], stype)) for s in skeys]
        if skeys and skeys[0] == "kp":
            scal_ref[0] = (float if not cplx else complex)(scal[0])
        f = _kept_fn(fn)
        try:
            ref = f(base.copy(), *scal_ref)
        except Exception as ex:
            say("%s raised %r on an admissible ndarray (%s)" % (fn, ex, who))
            continue
        ref = ref if isinstance(ref, tuple) else (ref,)
        exact_vals = (not single) or akey == "k"      # the reference representations belong to k, not to a rounded a / R / ...
        for cont in containers:
            if cont == "objarr":
                if single or fn not in (H_OBJ_OK_COMPLEX if cplx else H_OBJ_OK_REAL):
                    continue
            obj = _hcontainer(h, cont)
            keep_types = [type(v) for v in h]
            sc = list(scal)
            drop_e = False
            if fn == "levdown" and cont != "array":
                # RULING (container outside the documented inputs: arrays of float64 / complex128 or lists of Python numbers; DESIGN 0.9) (see /tmp/finding_C11.py): on the unchanged tree levdown(sequence, e) raises AttributeError
                # ('float' / 'complex' object has no attribute 'conj') for a list / tuple / object array of Python scalars; the
                # polynomial step alone works, so the sequence forms are evaluated without the error argument
                sc = []
                drop_e = True
            try:
                got = f(obj, *sc)
            except Exception as ex:
                say("%s raised %r on the parameter set given as a %s of scalars (%s)" % (fn, ex, cont, who))
                continue
            got = got if isinstance(got, tuple) else (got,)
            if len(got) != len(ref):
                say("%s returned %d values" % (fn, len(got)))
                continue
            for o, r, spec in zip(got, ref, outs):
                if spec is None or (drop_e and spec[0] == "ep"):
                    continue
                label, cls = spec
                t = tol32 if single else (1e-9 if fn in ("poly2lsf", "lsf2poly") else tolf)
                d = rel(c(o), c(r))
                _hstat(("vs-ndarray", fn, label, "single" if single else "double"), d, t)
                if not d <= t:
                    say("%s(%s of scalars) != %s(ndarray of the same values): %s differs by %.2e (%s)" % (fn, cont, fn, label, d, who))
                if exact_vals and not single:
                    t2 = max(_tol(k), 1e-9) if cls == "c" else 1e-9
                    d2 = _dist(o, S[label], label)
                    _hstat(("vs-reference", fn, label), d2, t2)
                    if not d2 <= t2:
                        say("%s(%s of scalars): %s != reference (step-up recursion of the harness): %.2e (%s)" % (fn, cont, label, d2, who))
            if not _hsame(obj, keep_types, h):
                say("%s modified the sequence it was given (%s, %s)" % (fn, cont, who))
    # (3) the inverse pairs started from the heterogeneous reflection-coefficient sequence
    lp = _lp()
    tol = tol32 if single else _tol(k)
    for cont in containers:
        if cont == "objarr" and single:
            continue
        try:
            rr = _hscalar(r0, stype)
            a_h, e_h = lp.rc2poly(_hcontainer(kh, cont), rr)
            k_b = lp.poly2rc(a_h, e_h)
            R_h = lp.rc2ac(_hcontainer(kh, cont), rr)
            k_c, r0_c = lp.ac2rc(R_h if cplx else np.real(R_h))
        except Exception as ex:
            say("rc -> poly -> rc / rc -> ac -> rc raised %r, reflection coefficients given as a %s of scalars (%s)" % (ex, cont, who))
            continue
        d = _dist(k_b, k, "k")
        _hstat(("roundtrip", "poly2rc o rc2poly"), d, tol)
        if not d <= tol:
            say("poly2rc(rc2poly(k)) != k, k given as a %s of scalars: %.2e (%s)" % (cont, d, who))
        d = _dist(k_c, k, "k")
        _hstat(("roundtrip", "ac2rc o rc2ac"), d, tol)
        if not (d <= tol and abs(r0_c - r0) <= tol * r0):
            say("ac2rc(rc2ac(k, r0)) != (k, r0), k given as a %s of scalars: %.2e, zero lag %r (%s)" % (cont, d, r0_c, who))
    return out


def _key_hetero(p):
    k = np.asarray(p["k"])
    return "hetero|%d|%s|%s|%s|%d" % (len(k), np.iscomplexobj(k), ",".join(p["codes"][:len(k) + 1]), p.get("stype"),
                                      hash(k.tobytes()) & 0xFFFFFFF)


def _tags_hetero(p):
    k = np.asarray(p["k"])
    cplx = bool(np.iscomplexobj(k))
    t = ["hetero", "hetero:" + ("complex" if cplx else "real"), "order:%d" % len(k), "hetero-pattern:%s" % p.get("pattern", "?"),
         "hetero-scalars:%s" % p.get("stype", "float")]
    kh = _hetero(k, p["codes"], not cplx)
    t.append("hetero-first-entry:%s" % type(kh[0]).__name__)
    if cplx and len(k) >= 2 and not isinstance(kh[0], (complex, np.complexfloating)) and \
            any(isinstance(v, (complex, np.complexfloating)) and complex(v).imag != 0 for v in kh[1:]):
        t.append("hetero:real-typed-first-rc-then-complex")
    for cont in p.get("containers", H_CONTAINERS):
        t.append("hetero-container:" + cont)
    return t


def gen_codes(nrng, pattern, n=17):
    cx = ("complex", "np.complex128")
    if pattern == "real-first":
        return [("float", "int", "float", "np.float64")[int(nrng.integers(0, 4))]] + ["complex"] * (n - 1)
    if pattern == "real-first-numpy":
        return [("np.float64", "np.int64")[int(nrng.integers(0, 2))]] + [cx[int(nrng.integers(0, 2))]] * (n - 1)
    if pattern == "complex-first":
        pool = ("float", "int", "np.float64", "complex", "complex")
        return ["complex"] + [pool[int(i)] for i in nrng.integers(0, len(pool), n - 1)]
    if pattern == "numpy-scalars":
        pool = ("np.float64", "np.int64", "np.complex128", "np.complex128", "float", "complex")
    elif pattern == "single":
        pool = ("float", "np.float32", "complex", "np.complex64", "np.float32")
    else:
        pool = ("float", "int", "np.float64", "np.int64", "complex", "complex", "np.complex128")
    return [pool[int(i)] for i in nrng.integers(0, len(pool), n)]


def gen_hetero(nrng, quick):
    stypes = ("float", "int", "np.float64", "np.int64", "0-d", "float")
    j = 0
    for i in range(80 if quick else 160):
        order = 1 + i % 16
        cplx = i % 4 != 3
        pattern = H_PATTERNS[i % len(H_PATTERNS)] if i >= 16 else H_PATTERNS[i % 2]     # every order once with a real-typed first entry
        codes = gen_codes(nrng, pattern)
        for attempt in range(40):
            k = gen_k_large(nrng, order, cplx) if (i + attempt) % 5 == 4 and pattern != "single" else gen_k(nrng, order, cplx)
            if pattern == "single":
                k = k * 0.5
            if cplx:
                # the reflection coefficients at the real-typed positions are real numbers (at integer-typed positions: half of them 0)
                for m in range(order):
                    if codes[m] in H_REAL:
                        k[m] = k[m].real if (codes[m] not in ("int", "np.int64") or (m + i) % 2) else 0.0
                if order >= 2 and not np.any(k[1:].imag):
                    k[-1] = k[-1].real + 0.25j
            else:
                for m in range(order):
                    if codes[m] in ("int", "np.int64") and (m + i) % 2:
                        k[m] = 0.0
            if in_domain(k) and not (pattern == "single" and _cond(k) > 1e2):
                break
        else:
            k = np.array(gen_k(nrng, order, cplx) * 0.25)
            if cplx:
                k[0] = k[0].real
        # list always, one more container in rotation (quick); all four (thorough)
        conts = ["list", H_CONTAINERS[1 + j % 3]] if quick else list(H_CONTAINERS)
        j += 1
        yield ("hetero", {"k": k, "r0": float(nrng.integers(1, 9)) / 2.0, "codes": codes, "pattern": pattern,
                          "stype": stypes[(i + i // 6) % len(stypes)], "containers": conts})


# --- integer-dtype arrays and lists of Python ints ----------------------------------------------------------------------------
# The only admissible parameter sets whose entries are all integers: white noise (k = 0, a = [1, 0, ..], R = [r0, 0, ..] with an
# integer zero lag; integer autocorrelations in general are the kind `acint`), integer log-area ratios (|g| <= 4: |tanh(g/2)| <= 0.965),
# integer line spectral frequencies (subsets of {1, 2, 3}), and the polynomial [1, 0, .., 0] stepped up by levup.  Given as an array
# of an integer dtype or as a list of Python ints, every converter returns what it returns for the float64 array of the same numbers
# (1e-12: the same arithmetic on the same numbers); lar2rc / lsf2poly are also compared with tanh(g/2) / the quadratic-factor polynomial.

INT_DTYPES = ("int64", "int32", "int16", "int8", "uint8", "list")


def oracle_intdtype(p):
    lp = _lp()
    n = int(p["order"])
    r0 = int(p["r0"])
    dt = p["dtype"]
    g = [int(v) for v in p["g"]]
    w = [int(v) for v in p["lsf"]] if p.get("lsf") is not None else None
    out = []

    def mk(vals):
        return [int(v) for v in vals] if dt == "list" else np.array(vals, dtype=np.dtype(dt))

    k0 = [0] * n
    a0 = [1] + [0] * n
    R0 = [r0] + [0] * n
    calls = [("rc2poly", k0, (r0,)), ("rc2ac", k0, (r0,)), ("poly2rc", a0, (float(r0),)), ("poly2ac", a0, (float(r0),)),
             ("ac2poly", R0, ()), ("ac2rc", R0, ()), ("rlevinson", a0, (float(r0),)), ("LEVINSON", R0, ()),
             ("levup", a0, (0.5, float(r0))), ("rc2lar", k0, ()), ("rc2is", k0, ()), ("is2rc", k0, ()), ("poly2lsf", a0, ()),
             ("lar2rc", g, ())]
    if dt != "list":
        calls.append(("levdown", a0, (float(r0),)))     # (levdown on a list with the error argument: PENDING-FINDING, see kind hetero)
    if w is not None:
        calls.append(("lsf2poly", w, ()))
    for fn, vals, scal in calls:
        if fn == "lar2rc" and dt.startswith("uint"):
            # RULING (container outside the documented inputs: arrays of float64 / complex128 or lists of Python numbers; DESIGN 0.9) (see /tmp/finding_C11.py): lar2rc negates its argument in the argument's own dtype; for an unsigned
            # integer array -g wraps around (g = 1 -> 255) and the reflection coefficients come out as -1 instead of tanh(g/2)
            continue
        f = _kept_fn(fn)
        obj = mk(vals)
        keep = list(obj) if isinstance(obj, list) else obj.copy()
        try:
            got = f(obj, *scal)
            ref = f(np.array(vals, dtype=float), *scal)
        except Exception as ex:
            out.append("%s raised %r on an admissible integer parameter set given as %s (order %d)" % (fn, ex, dt, n))
            continue
        got = got if isinstance(got, tuple) else (got,)
        ref = ref if isinstance(ref, tuple) else (ref,)
        for i, (o, r) in enumerate(zip(got, ref)):
            if o is None or np.ndim(o) > 1:
                continue
            if not rel(c(o), c(r)) <= 1e-12:
                out.append("%s(%s) != %s(float64 array of the same integers): output %d differs by %.2e (order %d)" % (
                    fn, dt, fn, i, rel(c(o), c(r)), n))
        same = (obj == keep) if isinstance(obj, list) else (obj.dtype == keep.dtype and np.array_equal(obj, keep))
        if not same:
            out.append("%s modified its integer input (%s)" % (fn, dt))
    if not dt.startswith("uint"):
        kk = np.asarray(lp.lar2rc(mk(g)))
        if not rel(c(kk), c(np.tanh(np.array(g, dtype=float) / 2.0))) <= 1e-12:
            out.append("lar2rc(integer log-area ratios as %s) != tanh(g/2): %.2e" % (dt, rel(c(kk), c(np.tanh(np.array(g, dtype=float) / 2.0)))))
        if not rel(c(lp.rc2lar(kk)), c(np.array(g, dtype=float))) <= 1e-9:
            out.append("rc2lar(lar2rc(g)) != g for integer log-area ratios (%s)" % dt)
    if w is not None:
        a = np.asarray(lp.lsf2poly(mk(w)))
        aref = _ref_lsf2poly(np.array(w, dtype=float))
        if not rel(c(a), c(aref)) <= 1e-10:
            out.append("lsf2poly(integer angles as %s) != (P1 + Q1)/2 built from the quadratic factors: %.2e" % (dt, rel(c(a), c(aref))))
        else:
            w2 = np.asarray(lp.poly2lsf(a))
            if w2.shape != (len(w),) or not rel(w2, np.array(w, dtype=float)) <= 1e-8:
                out.append("poly2lsf(lsf2poly(w)) != w for integer angles %s (%s)" % (w, dt))
    return out


def gen_intdtype(nrng, quick):
    lsfs = [w for w in ([1], [2], [3], [1, 2], [1, 3], [2, 3], [1, 2, 3])
            if (lambda kk: kk is not None and in_domain(kk))(_ref_stepdown(_ref_lsf2poly(np.array(w, dtype=float))))]
    for i in range(12 if quick else 48):
        n = 1 + (i * 5) % 16
        dt = INT_DTYPES[i % len(INT_DTYPES)]
        g = nrng.integers(-4, 5, n)
        if dt.startswith("uint"):
            g = np.abs(g)
        yield ("intdtype", {"order": n, "r0": int(nrng.integers(1, 9)), "dtype": dt, "g": [int(v) for v in g],
                            "lsf": lsfs[i % len(lsfs)] if lsfs else None})


def impl_lsf(p):
    return [c(_lp().lsf2poly(p["lsf"]))]


def model_lsf(p):
    lsf = np.asarray(p["lsf"])
    z = np.exp(1j * lsf)
    rQ = z[0::2]
    rP = z[1::2]
    rQ = np.concatenate((rQ, rQ.conjugate()))
    rP = np.concatenate((rP, rP.conjugate()))
    return ("F", proto.request("lsfrecombine", "F", [len(lsf)], [rQ, rP]))


def _key(p):
    k = np.asarray(p["k"])
    return "%d|%s|%d" % (len(k), np.iscomplexobj(k), hash(k.tobytes()) & 0xFFFFFFF)


def _tags(p):
    k = np.asarray(p["k"])
    t = ["complex" if np.iscomplexobj(k) else "real", "order:%d" % len(k)]
    if in_domain(k):
        t.append("r0/e:1e%d" % int(np.floor(np.log10(_cond(k)) + 1e-12)))
    return t


def _tags_laws(p):
    # generated parameter sets that fail the conditioning predicate are counted here (once: only the `laws` case carries the number)
    t = _tags(p) + ["cond-dropped"] * int(p.get("ndrop", 0))
    if p.get("family"):
        t.append("family:" + p["family"])
    return t


def _mk(kind, impl, model, post=None):
    d = {"impl": impl, "model": model, "rtol": 1e-9, "atol": 1e-300, "key": _key, "tags": _tags,
         "nontrivial": lambda p: len(p["k"]) >= 2}
    if post:
        d["post"] = post
    return d


KINDS = {
    "rc2poly": _mk("rc2poly", impl_rc2poly, model_rc2poly, post_lead1),
    "poly2rc": _mk("poly2rc", impl_poly2rc, model_poly2rc),
    "poly2ac": _mk("poly2ac", impl_poly2ac, model_poly2ac),
    "rc2ac": _mk("rc2ac", impl_rc2ac, model_rc2ac),
    "ac2poly": _mk("ac2poly", impl_ac2poly, model_ac2poly, post_ac2poly),
    "levdown": _mk("levdown", impl_levdown, model_levdown, post_lead1),
    "laws": {"oracle": oracle_all, "key": _key, "tags": _tags_laws, "nontrivial": lambda p: len(p["k"]) >= 2},
    "forms": {"oracle": oracle_forms, "key": _key, "tags": _tags, "nontrivial": lambda p: len(p["k"]) >= 2},
}
KINDS["ac2poly"]["rtol"] = 1e-7
# the conditioned conversions at r0/e in (10^(N-1), 10^N]: same correspondence, tolerance 1e-11 * 10^N (ac2poly: 1e-10 * 10^N)
for _b in COND_KINDS:
    for _n in range(3, 9):
        KINDS["%s@c%d" % (_b, _n)] = dict(KINDS[_b], rtol=max(KINDS[_b]["rtol"], (1e-10 if _b == "ac2poly" else 1e-11) * 10.0 ** _n))
KINDS["lsf"] = {"impl": impl_lsf, "model": model_lsf, "rtol": 1e-9, "atol": 1e-12,
                "key": lambda p: "lsf|%d|%d" % (len(p["lsf"]), hash(np.asarray(p["lsf"]).tobytes()) & 0xFFFFFF),
                "tags": lambda p: ["lsf", "order:%d" % len(p["lsf"])], "nontrivial": lambda p: len(p["lsf"]) >= 2}
KINDS["lsfinv"] = {"oracle": oracle_lsfinv, "key": KINDS["lsf"]["key"],
                   "tags": lambda p: ["lsfinv", "order:%d" % len(p["lsf"])] + ["lsfinv-dropped"] * int(p.get("ndrop", 0)),
                   "nontrivial": lambda p: len(p["lsf"]) >= 2}
KINDS["kept"] = {"oracle": oracle_kept, "key": _key_kept, "tags": _tags_kept, "nontrivial": lambda p: len(p["sets"][0]["k"]) >= 2}
KINDS["hetero"] = {"oracle": oracle_hetero, "key": _key_hetero, "tags": _tags_hetero, "nontrivial": lambda p: len(p["k"]) >= 2}
KINDS["intdtype"] = {"oracle": oracle_intdtype,
                     "key": lambda p: "intdtype|%d|%s|%d|%s|%s" % (p["order"], p["dtype"], p["r0"], p["g"], p.get("lsf")),
                     "tags": lambda p: ["intdtype", "intdtype:%s" % p["dtype"], "order:%d" % p["order"]],
                     "nontrivial": lambda p: p["order"] >= 2}
KINDS["acint"] = {"oracle": oracle_acint,
                  "key": lambda p: "acint|" + ",".join(str(int(v)) for v in p["R"]),
                  "tags": lambda p: ["acint", "order:%d" % (len(p["R"]) - 1)], "nontrivial": lambda p: len(p["R"]) >= 3}


def gen_k(nrng, order, cplx):
    mag = nrng.integers(0, 63, order).astype(float) / 64.0   # <= 0.98
    if not cplx:
        sgn = nrng.integers(0, 2, order) * 2 - 1
        return mag * sgn
    # dyadic complex numbers of modulus <= 0.98: scale a dyadic direction
    re = nrng.integers(-44, 45, order).astype(float) / 64.0
    im = nrng.integers(-44, 45, order).astype(float) / 64.0
    k = re + 1j * im
    return k


def gen_k_large(nrng, order, cplx):
    """every modulus in [0.625, 0.97]: small final error, the conditioning predicate rejects a share of these at the higher orders"""
    mag = nrng.integers(40, 63, order).astype(float) / 64.0
    if not cplx:
        return mag * (nrng.integers(0, 2, order) * 2 - 1)
    # directions with dyadic coordinates on the max-norm unit square, scaled so that the modulus is `mag` up to rounding
    re = nrng.integers(-8, 9, order).astype(float)
    im = nrng.integers(-8, 9, order).astype(float)
    re[(re == 0) & (im == 0)] = 1.0
    k = mag * (re + 1j * im) / np.abs(re + 1j * im)
    k[np.abs(k) > 0.98] *= 0.98 / 0.981
    return k


def gen_lsf(nrng, order):
    """sorted angles in (0.02, pi - 0.02), gaps >= 1e-3, whose polynomial is inside the reflection-coefficient domain; None otherwise"""
    w = np.sort(nrng.uniform(0.02, np.pi - 0.02, order))
    if order > 1 and np.min(np.diff(w)) < 1e-3:
        return None
    kk = _ref_stepdown(_ref_lsf2poly(w))
    if kk is None or not in_domain(kk):
        return None
    return w


def gen_acint(nrng, order):
    """integer autocorrelation R[0..order], positive definite, reflection coefficients inside the domain; None otherwise"""
    tail = nrng.integers(-4, 5, order)
    s = int(np.sum(np.abs(tail)))
    R = np.concatenate(([int(nrng.integers(max(1, s // 2), 2 * s + 3))], tail)).astype(np.int64)
    T = np.array([[float(R[abs(i - j)]) for j in range(order + 1)] for i in range(order + 1)])
    if np.min(np.linalg.eigvalsh(T)) < 0.02 * R[0]:
        return None
    kk = _toeplitz_ref(R)[2]
    if not in_domain(kk):
        return None
    return R


def gen_set(nrng, order, cplx, i=0, avoid=()):
    """one admissible parameter set of the given order and dtype (redrawn until the conditioning predicate holds and the set differs
    from the sets in `avoid`; every fourth draw from the large-modulus family)"""
    for attempt in range(30):
        k = gen_k_large(nrng, order, cplx) if (i + attempt) % 4 == 3 else gen_k(nrng, order, cplx)
        if in_domain(k) and not any(np.array_equal(k, np.asarray(s["k"])) for s in avoid):
            return {"k": k, "r0": float(nrng.integers(1, 9)) / 2.0}
    k = gen_k(nrng, order, cplx) * 0.5 + (0.015625 * (1 + len(avoid)))      # moduli <= 0.75: always inside the domain
    return {"k": k, "r0": 1.0}


KEPT_INPUTS = ("fresh", "buffer", "temp", "readonly")


def gen_kept(nrng, quick):
    """histories with kept results: (1) three different parameter sets of ONE order and dtype, every order 1..16, real and complex,
    both orders of the converter sequence, alternately set after set / converter after converter; (2) two sets of one order and dtype
    with sets of another order and of the other dtype converted in between"""
    j = 0
    for rep in range(1):
        for order in range(1, 17):
            for cplx in (False, True):
                for rev in (False, True):
                    sets = []
                    for i in range(3):
                        sets.append(gen_set(nrng, order, cplx, j + i, sets))
                    yield ("kept", {"sets": sets, "inputs": KEPT_INPUTS[j % 4], "rev": rev, "rot": int(nrng.integers(0, 16)), "faults": j % 3 == 1,
                                    "interleave": "by-fn" if (j + j // 2 + j // 4) % 2 else "by-set"})
                    j += 1
    for i in range(16 if quick else 32):
        order = 1 + i % 16
        other = 1 + int(nrng.integers(0, 16))
        cplx = bool((i // 2) % 2)
        sets = [gen_set(nrng, order, cplx, i)]
        sets.append(gen_set(nrng, other, cplx if i % 2 else not cplx, i + 1))
        sets.append(gen_set(nrng, order, not cplx, i + 2))
        sets.append(gen_set(nrng, order, cplx, i + 3, sets[:1]))
        if i % 3 == 1:
            sets[3]["k"] = np.zeros(order, dtype=complex if cplx else float)        # white noise: nothing to compute, nothing to copy?
        elif i % 3 == 0:
            sets[3]["k"][-1] = 0.0                                                   # polynomial of lower degree than the order
        yield ("kept", {"sets": sets, "inputs": KEPT_INPUTS[i % 4], "rev": bool((i // 3) % 2), "rot": int(nrng.integers(0, 16)), "faults": i % 3 == 2,
                        "interleave": "by-fn" if (i // 4) % 2 else "by-set"})


def gen(rng, nrng, tier):
    quick = tier == "quick"
    n = 90 if quick else 1500
    kinds = ["rc2poly", "poly2rc", "poly2ac", "rc2ac", "ac2poly", "levdown"]
    ndrop = 0
    for i in range(n):
        cplx = bool(i % 2)
        order = 1 + (i % 16) if i < 64 else int(nrng.integers(1, 17))
        large = i % 5 == 3
        k = gen_k_large(nrng, order, cplx) if large else gen_k(nrng, order, cplx)
        r0 = float(nrng.integers(1, 9)) / 2.0
        if i % 9 == 4:
            r0 = [1e-15, 1e-12, 1e12, 2.0 ** -60][(i // 9) % 4]   # conversions are homogeneous in the power level
        if not in_domain(k):
            ndrop += 1          # generated freely, filtered by the conditioning predicate e/r0 >= 1e-8; counted in `cond-dropped`
            continue
        p = {"k": k, "r0": r0}
        yield ("laws", dict(p, ndrop=ndrop, family="large" if large else "uniform"))
        ndrop = 0
        if quick or (i // 2) % 2 == 0:
            yield ("forms", p)
        yield (_cls(kinds[i % len(kinds)], k), p)
        yield (_cls(kinds[(i + 3) % len(kinds)], k), p)
        if not cplx:
            a, e = _lp().rc2poly(k, r0)
            yield ("lsf", {"lsf": np.asarray(_lp().poly2lsf(np.asarray(a))), "k": k, "r0": r0})
    if ndrop:
        # drops after the last accepted set: carried by a fixed well-conditioned case
        yield ("laws", {"k": np.array([0.5, -0.25]), "r0": 1.0, "ndrop": ndrop, "family": "uniform"})
    # extreme patterns inside the domain: constant modulus v, signs all +, all -, alternating, at every order with
    # (1 - v^2)^order >= 1e-8 (orders 1..8 for v = 15/16, 1..6 for v = 31/32); real, and complex v * sign * e^{i theta}
    j = 0
    for v in (0.9375, 0.96875):
        for order in range(1, 17):
            if (1.0 - v * v) ** order < 1.0 / COND_MAX:
                continue
            for sname, sgn in (("+", np.ones(order)), ("-", -np.ones(order)), ("alt", (-1.0) ** np.arange(order))):
                for cplx in (False, True):
                    if cplx:
                        # theta: exactly pi/2 (k = i v sign, exact) for a third of the patterns, random otherwise
                        ph = 1j if j % 3 == 0 else np.exp(1j * float(nrng.uniform(0.0, 2 * np.pi)))
                        k = v * sgn * ph
                        k = k * min(1.0, 0.98 / float(np.max(np.abs(k))))
                    else:
                        k = v * sgn
                    j += 1
                    if not in_domain(k):
                        continue            # (rounding of |e^{i theta}| at the edge of the predicate)
                    p = {"k": k, "r0": [2.0, 1.0, 0.5, 3.0][(j // 2) % 4]}
                    yield ("laws", dict(p, family="const-modulus"))
                    yield ("forms", p)
                    if quick and (j // 2) % 3:
                        continue
                    yield (_cls(kinds[(j // 2) % len(kinds)], k), p)
                    yield (_cls(kinds[(j // 2 + 3) % len(kinds)], k), p)
    # parameter sets with reflection coefficients that are exactly zero (last, first, interior, several): the polynomial then has
    # exactly-zero coefficients, which are coefficients like any other; real and complex
    for i in range(12 if quick else 120):
        order = 2 + i % 6
        k = gen_k(nrng, order, False)
        k[np.abs(k) < 1e-9] = 0.25
        for pos in [[order - 1], [0], [order // 2], [order - 1, order - 2]][i % 4]:
            k[pos] = 0.0
        p = {"k": k, "r0": 1.0 + (i % 3)}
        if in_domain(k):
            yield ("laws", dict(p, family="zeros"))
            yield ("forms", p)
            yield (_cls(kinds[i % len(kinds)], k), p)
            a, e = _lp().rc2poly(k, p["r0"])
            yield ("lsf", {"lsf": np.asarray(_lp().poly2lsf(np.asarray(a))), "k": k, "r0": p["r0"]})
        kc = gen_k(nrng, order, True)
        kc[np.abs(kc) < 1e-9] = 0.25 - 0.5j
        for pos in [[order - 1], [0], [order // 2], [order - 1, order - 2]][(i // 2) % 4]:
            kc[pos] = 0.0
        pc = {"k": kc, "r0": 1.0 + (i % 3)}
        if in_domain(kc):
            yield ("laws", dict(pc, family="zeros"))
            yield ("forms", pc)
            yield (_cls(kinds[(i // 4) % len(kinds)], kc), pc)
    # all reflection coefficients zero (white noise: a = [1, 0, ..], R = [r0, 0, ..]), order 1..16, real and complex dtype
    for order in range(1, 17):
        for cplx in (False, True):
            if quick and (order + cplx) % 3:
                continue
            p = {"k": np.zeros(order, dtype=complex if cplx else float), "r0": [1.0, 2.0, 0.5][order % 3]}
            yield ("laws", dict(p, family="all-zero"))
            yield ("forms", p)
            yield (kinds[order % len(kinds)], p)
    # polynomial <- LSF: independent increasing angle vectors (not produced by poly2lsf), orders 1..16 (both parities)
    ndrop = 0
    for i in range(48 if quick else 400):
        order = 1 + i % 16
        w = gen_lsf(nrng, order)
        if w is None:
            ndrop += 1
            continue
        yield ("lsfinv", {"lsf": w, "ndrop": ndrop})
        ndrop = 0
        yield ("lsf", {"lsf": w})
    # integer-dtype autocorrelations (the documentation example of this kind first)
    yield ("acint", {"R": np.array([8, 4, 2, 1, 3])})
    yield ("acint", {"R": np.array([5, -2, 1])})
    for i in range(10 if quick else 100):
        R = gen_acint(nrng, 1 + i % 8)
        if R is not None:
            yield ("acint", {"R": R})
    # results of earlier conversions kept while later conversions run (own random stream: the cases above stay what they were)
    for case in gen_kept(np.random.default_rng([int(nrng.integers(0, 2 ** 31)), 11]), quick):
        yield case
    # the same parameter sets written down entry by entry: heterogeneous lists / tuples / object arrays of scalars, integer dtypes
    # (own random streams again)
    for case in gen_hetero(np.random.default_rng([int(nrng.integers(0, 2 ** 31)), 12]), quick):
        yield case
    for case in gen_intdtype(np.random.default_rng([int(nrng.integers(0, 2 ** 31)), 13]), quick):
        yield case
