"""C20  Every named window is a well-formed taper of the requested length."""
import numpy as np

import proto
from common import rel

TRUSTED_BASE = [
    "numpy.hamming/hanning/bartlett/kaiser are modelled by their documented closed forms (I0 by its power series); "
    "scipy.signal.windows.chebwin has no closed form in the model: the chebwin wrapper is compared with scipy's function directly "
    "by the oracle",
    "window samples are computed by the model in doubles (Float.cos/exp/...), compared at rtol 1e-9 (taylor/kaiser 1e-8)",
    "per-sample references of the oracle (|w - ref| <= 1e-9 |ref| + 1e-15; cosine sums + 1e-14): numpy closed forms written in the "
    "oracle for gaussian / poisson / poisson_hanning / cauchy / hamming / blackman / nuttall / blackman_nuttall / blackman_harris / "
    "flattop (both coefficient sets), scipy.special.i0 for kaiser, scipy.signal.windows.chebwin for chebwin; taylor: the Carrara-"
    "Goodman-Majewski coefficients F_m and cosine sum written in the oracle with float arithmetic only (floor 3e-13; agrees with "
    "scipy.signal.windows.taylor(N, nbar, -sll, norm=True) to 1e-15)",
    "a request whose shape parameter is a numpy.float32 is computed partly in single precision by the library: it is compared with the "
    "double-precision request of the same value at 3e-5 of the window maximum (max <= 1 and centre = 1 at 3e-5), not with the closed "
    "form or the model",
    "Kaiser beta > 50 is outside the model's 60-term I0 series: those cases are checked by the oracle only (scipy.special.i0)",
    "the window-name table, generator signatures and factory routing are regenerated from the live package into "
    "lean/SpecVerif/Generated/Registry.lean on every run; the alias/routing theorems are `decide`d about that table",
]
PARTIAL = ["max <= 1 for chebwin and taylor (and centre = 1 for chebwin) are evaluated by the oracle, not proved; kaiser (<= 1, > 0, centre = 1, first sample 1/I0(beta)) and the taylor centre are proved for the model's 60-term I0 series",
           "flat-top: the published coefficients sum to 1.000000003, so its bound is sum a_i (float check: 1 + 1e-8)"]
ASSUMPTIONS = ["histories on a Window object: the caller never writes into the array returned by .data (it is the object's own "
               "storage, handed out by reference); a compute_response request with a non-integer NFFT may raise whatever it raises; "
               ".mean_square is read as a report of the samples (sum(w^2)/N of create_window's array, 1e-12 relative; the unchanged "
               "library agrees exactly)",
               "the ENBW comparison (Window.enbw, spectrum.enbw against N sum w^2 / (sum w)^2) is made for every N whenever sum(w) != 0 "
               "and the samples do not underflow when squared (max |w| > 1e-150; only kaiser(N <= 2, beta = 700) falls below); an "
               "all-zero window (hann(2), riesz(1)) has no ENBW (0/0) and the '>= 1' clause is stated for N >= 3",
               "values outside the documented set (tukey r outside [0, 1], flattop mode not symmetric/periodic) are refused with "
               "AssertionError; keywords that are not documented for the window with ValueError; Window without a name with ValueError",
               "Taylor windows: no range is documented for nbar / sll; cases stay where the Taylor design itself (the closed form) has "
               "maximum <= 1: nbar 1..8 at sll <= -22 (DESIGN 0.6) and nbar <= 40 at sll <= -30 (at sll = -25 the design exceeds 1 from "
               "nbar = 18, at -22 from nbar = 10)",
               "a shape parameter or a length given as an 8-bit or an unsigned numpy integer is not generated (pending ruling: the "
               "unchanged library wraps -N/2, -alpha, nbar**2 in the argument's type and returns a different window)",
               "flattop(mode='periodic') satisfies w[n] = w[N-n] (the periodic variant); the symmetric clause is read for the default mode",
               "Chebyshev windows: the centre-sample clause is evaluated for attenuation >= 45 dB and N <= 512 (the exhaustive range): a "
               "Dolph-Chebyshev window whose main lobe is narrower than the requested attenuation allows has its maximum at the end "
               "samples (scipy normalises by the maximum and warns); e.g. 50 dB, N = 2047. This is a property of the window definition, "
               "not of the wrapper"]
RULE = ("all 29 window names x N = 1..96 exhaustively (quick) / 1..512 (thorough) and sampled N up to 2048 / 16384, default and "
        "random shape parameters over their documented ranges, plus Chebyshev attenuation 20..150 (5..300 thorough), Kaiser beta "
        "50/300/700, integer / float / numpy-scalar twins of every parameter, N given as numpy int64/int32, parameterised windows "
        "at N = 1023, 4096 (thorough); factory routing (default name, every keyword of every generator against every name), alias, "
        "Window-object, direct-generator (kaiser method, flattop precision='octave') and value-guard cases; "
        "the numeric TYPE of every shape parameter as a generated dimension (Python int / Python float / numpy int16, int32, int64, "
        "float32, float64 of the same value; every case with a non-float parameter is compared with the all-Python-float request: "
        "identical array, float32 to 3e-5) over integer-valued and fractional values of the customary AND upper ranges (Kaiser beta "
        "0..100, Gaussian alpha 1..40, Poisson/Hann-Poisson/Cauchy alpha 0..100, Chebyshev 45..250 dB, Tukey r 0/1/fractions), partly "
        "with a numpy-integer N; Taylor: every nbar of 2..40 as Python int, Python float and numpy.int64 (one further type in turn) "
        "x sll -30..-80 of every type x N 2..129, random (nbar 2..40, sll -80..-30, N < 300) of random types, all against an "
        "independent double-precision closed form per sample; float draws from the upper ranges (beta 30..120, alpha 6..40/100, "
        "attenuation 120..250); N as numpy.int16 at 181..1000 (N*N beyond the type) for every name and as numpy.int32 at 46341 / "
        "46342 / 65536 (a sixth of the names; every name thorough); N = 65536, 65537, 131072 for 18 (name, parameter) pairs (thorough). "
        "Not generated (pending ruling, /tmp/finding_C20.py): 8-bit and unsigned numpy integers as N or as a parameter. "
        "HISTORIES on one Window object (kind 'hist': every name x norm default / True / False, N in 1..600 and 2049 / 4096, default "
        "and given shape parameters, names in other letter case, numpy-integer N, numpy-scalar parameters): 1..8 steps drawn from "
        ".response, .frequencies, compute_response (NFFT 32..4096 incl. NFFT < N and numpy-integer NFFT, norm given or not), "
        "a compute_response that fails, str(), info(), .mean_square, .enbw, .data re-reads, the caller overwriting the response "
        "array, plot_frequencies / plot_window / plot_time_freq (Agg), shallow / deep / pickled copies and a second object of the "
        "same request being used; after EVERY step .data must equal create_window(N, name, **kw) bit for bit, .N / .enbw / .name / "
        ".norm be unchanged and every array handed out by an earlier .data read be unchanged; afterwards the factory and a new "
        "object still give the same samples. "
        "non-trivial = N >= 3")


def _W():
    from spectrum import window
    return window


def _gen_name(name):
    W = _W()
    g = W.window_names[name]
    return g if isinstance(g, str) else g.__name__


PARAMS = {
    "kaiser": ("beta", lambda r: float(r.uniform(0, 30))),
    "blackman": ("alpha", lambda r: float(r.uniform(0, 0.5))),
    "cauchy": ("alpha", lambda r: float(r.uniform(0.1, 6))),
    "gaussian": ("alpha", lambda r: float(r.uniform(0.1, 6))),
    "poisson": ("alpha", lambda r: float(r.uniform(0.1, 6))),
    "poisson_hanning": ("alpha", lambda r: float(r.uniform(0.1, 6))),
    "tukey": ("r", lambda r: float(r.choice([0.0, 1.0, r.uniform(0.01, 0.99)]))),
    "chebwin": ("attenuation", lambda r: float(r.uniform(45, 120))),
    "flattop": ("mode", lambda r: str(r.choice(["symmetric", "periodic"]))),
}


NTYPES = {"int64": np.int64, "int32": np.int32, "int16": np.int16,
          "uint8": np.uint8, "uint16": np.uint16, "uint32": np.uint32, "uint64": np.uint64, "int8": np.int8}


def _N(p):
    """the length as handed to the library: a Python int, or the numpy integer type named by p['ntype']"""
    return NTYPES[p["ntype"]](p["N"]) if p.get("ntype") else p["N"]


# numeric type of a shape parameter as handed to the library.  params["kw"] holds the VALUE (a Python int or float: JSON keeps the
# two apart, so nbar=16 and nbar=16.0 replay as what they were); params["ptype"] = {keyword: type name} names a numpy scalar type
# (a numpy scalar itself would come back from a replay file as a Python number).
# Ruling: 8-bit and unsigned numpy integers as SHAPE PARAMETERS are not generated: the parameters are documented as floats;
# window_taylor(N, nbar=numpy.int8(12..)) / numpy.uint8(16..) wraps in nbar**2 and window_poisson(N, alpha=numpy.uintXX(a)) in
# -alpha — arithmetic in a type the caller chose, outside the stated quantifier ("shape parameters over their documented
# ranges").  The LENGTH given as an unsigned / 8-bit numpy integer through the factory or the Window class is generated (it gave
# a different window for cauchy, gaussian, lanczos, parzen, poisson, poisson_hanning, riemann, riesz, chebwin: defect D32,
# fixed in create_window); the generator functions called directly with such a length, and chebwin with N equal to the largest
# value of its integer type (inside scipy), are not generated.
PTYPES = {"int16": np.int16, "int32": np.int32, "int64": np.int64, "float32": np.float32, "float64": np.float64}
# a single-precision parameter makes part of the computation single precision (10**(-sll/20), (1 - alpha)/2, scipy's chebwin
# order ...): such a request is compared with the double-precision request of the same value at FLOAT32_TOL of the window maximum,
# not sample by sample at 1e-9.  Worst observed on the unchanged tree over the generated cases (quick seeds 0..4, thorough seeds
# 0..1): taylor 5.3e-7 (nbar 38, sll -40, N 129), tukey 2.5e-8, blackman 1.5e-8, chebwin 1.0e-8; margin 56x.
FLOAT32_TOL = 3e-5


def _kw(p):
    """the keyword arguments as handed to the library (values of p['kw'], each as the type named by p['ptype'], if any)"""
    pt = p.get("ptype") or {}
    return {k: (PTYPES[pt[k]](v) if k in pt else v) for k, v in p["kw"].items()}


def _kwf(p):
    """the same request with every numeric parameter as a Python float of the same value"""
    return {k: (v if isinstance(v, str) else float(v)) for k, v in _kw(p).items()}


def _single(p):
    return "float32" in (p.get("ptype") or {}).values()


def impl_win(p):
    W = _W()
    return [np.asarray(W.create_window(_N(p), p["name"], **_kw(p)), dtype=float)]


def model_win(p):
    g = _gen_name(p["name"])
    if _single(p):
        return None          # single-precision parameter: compared with the double-precision request by the oracle (FLOAT32_TOL)
    kw = _kwf(p)
    par = []
    if g in ("window_kaiser",):
        if kw.get("beta", 8.6) > 50:
            return None      # outside the range of the model's 60-term I0 series; the oracle's scipy.special.i0 reference applies
        par = [kw.get("beta", 8.6)]
    elif g == "window_blackman":
        par = [kw.get("alpha", 0.16)]
    elif g == "window_cauchy":
        par = [kw.get("alpha", 3)]
    elif g == "window_gaussian":
        par = [kw.get("alpha", 2.5)]
    elif g in ("window_poisson", "window_poisson_hanning"):
        par = [kw.get("alpha", 2)]
    elif g == "window_tukey":
        par = [kw.get("r", 0.5)]
    elif g == "window_flattop":
        par = [1.0 if kw.get("mode", "symmetric") == "periodic" else 0.0]
    elif g == "window_taylor":
        par = [float(kw.get("nbar", 4)), float(kw.get("sll", -30))]
    return ("F", proto.request("window", "F", [g, int(p["N"])], [[float(v) for v in par]]))


def _hp(N, n):
    """numpy.linspace(-N/2, N/2, N)[n] written out"""
    return -N / 2.0 + n * (N / (N - 1.0))


def _reference(g, N, kw):
    """independent per-sample reference of the generator `g` (N >= 2): (array, absolute floor) or None.
    Product / exponential forms keep their relative accuracy in the tails (floor 1e-15); the cosine sums cancel at the ends,
    so their floor is a few ulps of the unit-size terms (1e-14)."""
    n = np.arange(N, dtype=float)
    th = 2 * np.pi * n / (N - 1.0)
    if g == "window_kaiser":
        from scipy.special import i0
        b = float(kw.get("beta", 8.6))
        return i0(b * np.sqrt(4.0 * n * (N - 1 - n)) / (N - 1.0)) / i0(b), 1e-15
    if g == "window_gaussian":
        a = kw.get("alpha", 2.5)
        return np.exp(-0.5 * (a * (n - (N - 1) / 2.0) / (N / 2.0)) ** 2), 1e-15
    if g == "window_poisson":
        return np.exp(-kw.get("alpha", 2) * np.abs(_hp(N, n)) / (N / 2.0)), 1e-15
    if g == "window_poisson_hanning":
        return (0.5 - 0.5 * np.cos(th)) * np.exp(-kw.get("alpha", 2) * np.abs(_hp(N, n)) / (N / 2.0)), 1e-15
    if g == "window_cauchy":
        return 1.0 / (1.0 + (kw.get("alpha", 3) * _hp(N, n) / (N / 2.0)) ** 2), 1e-15
    if g == "window_chebwin":
        import scipy.signal.windows
        return scipy.signal.windows.chebwin(N, kw.get("attenuation", 50)), 1e-15
    if g == "window_hamming":
        return 0.54 - 0.46 * np.cos(th), 1e-14
    if g == "window_blackman":
        a = kw.get("alpha", 0.16)
        return (1 - a) / 2.0 - 0.5 * np.cos(th) + a / 2.0 * np.cos(2 * th), 1e-14
    c4 = {"window_nuttall": (0.355768, 0.487396, 0.144232, 0.012604),
          "window_blackman_nuttall": (0.3635819, 0.4891775, 0.1365995, 0.0106411),
          "window_blackman_harris": (0.35875, 0.48829, 0.14128, 0.01168)}
    if g in c4:
        a0, a1, a2, a3 = c4[g]
        return a0 - a1 * np.cos(th) + a2 * np.cos(2 * th) - a3 * np.cos(3 * th), 1e-14
    if g == "window_flattop":
        x = 2 * np.pi * n / float(N) if kw.get("mode") == "periodic" else th
        return _flattop_ref(x, None), 1e-14
    if g == "window_taylor":
        # floor: worst |w - ref| measured on the unchanged tree over nbar 1..40 x sll -22..-100 x N in 2..2048 is 9.3e-15
        # (5.6e-16 at N = 65536/65537); 3e-13 leaves a margin of 30x.  The smallest |ref| of that grid is 3.5e-4.
        return _taylor_ref(N, kw.get("nbar", 4), kw.get("sll", -30)), 3e-13
    return None


def _taylor_ref(N, nbar, sll):
    """Taylor window (Carrara, Goodman & Majewski pp. 512-513) normalised by its value at the continuous centre, all in doubles and
    with no integer arithmetic: F_m = (-1)^(m+1) prod_j (1 - m^2/(s2 (A^2 + (j-1/2)^2))) / (2 prod_{j != m} (1 - m^2/j^2)),
    w[n] = (1 + 2 sum_m F_m cos(2 pi m (n - (N-1)/2)/N)) / (1 + 2 sum_m F_m),  m, j = 1..nbar-1"""
    nb = int(nbar)
    sll = float(sll)
    A = np.arccosh(10.0 ** (-sll / 20.0)) / np.pi
    s2 = float(nb) ** 2 / (A ** 2 + (nb - 0.5) ** 2)
    j = np.arange(1, nb, dtype=float)
    F = np.zeros(max(nb - 1, 0))
    for i in range(nb - 1):
        m = float(i + 1)
        num = np.prod(1.0 - m * m / s2 / (A ** 2 + (j - 0.5) ** 2))
        den = 2.0 * np.prod(1.0 - m * m / (np.delete(j, i) ** 2))
        F[i] = (-1.0) ** i * num / den
    n = np.arange(N, dtype=float)
    w = 1.0 + 2.0 * np.dot(F, np.cos(2 * np.pi * np.outer(j, (n - (N - 1) / 2.0) / N))) if nb > 1 else np.ones(N)
    return w / (1.0 + 2.0 * F.sum())


def _flattop_ref(x, precision):
    a = (0.21557895, 0.41663158, 0.277263158, 0.083578947, 0.006947368)
    if precision == "octave":
        a = tuple(v / 4.6402 for v in (1.0, 1.93, 1.29, 0.388, 0.0322))
    return a[0] - a[1] * np.cos(x) + a[2] * np.cos(2 * x) - a[3] * np.cos(3 * x) + a[4] * np.cos(4 * x)


def oracle_win(p):
    import spectrum
    W = _W()
    N, name = p["N"], p["name"]
    kw = _kw(p)         # what the library is given: each shape parameter as the numeric type named by p['ptype'], if any
    kwf = _kwf(p)       # the same values as Python floats: what the closed-form references are evaluated with
    single = _single(p)
    Nl = _N(p)          # what the library is given (a numpy integer for the 'ntype' cases)
    out = []
    tag = "%s(N=%s%d%s)" % (name, (p["ntype"] + ":") if p.get("ntype") else "", N, "".join(", %s=%r" % kv for kv in kw.items()))
    try:
        w = np.asarray(W.create_window(Nl, name, **kw))
    except Exception as e:
        return ["create_window %s raised %r" % (tag, e)]
    if p.get("ntype"):
        # a length given as a numpy integer is the same length
        w0 = np.asarray(W.create_window(int(N), name, **kw))
        if _gen_name(name) == "window_chebwin" and w.shape == w0.shape:
            # scipy.signal.windows.chebwin itself is not bit-identical for a numpy-integer and a Python-int length (even lengths:
            # 1j*pi/M is a numpy complex division for a numpy M): about 10% of (N, attenuation) differ in the last bit, worst
            # 2.2e-16 absolute on the unchanged tree (N < 400 and N = 46342; measured while adding the numpy-integer lengths
            # beyond 128).  The wrapper must hand the length over unchanged: exactly scipy's result for that very N, and the
            # Python-int window to 1e-13 of the maximum (450x the worst observed); every other window: identical arrays.
            # (since the factory converts a numpy-integer length to int, defect D32, the factory's result is scipy's window for the
            # PYTHON-int length)
            import scipy.signal.windows
            ws = np.asarray(scipy.signal.windows.chebwin(int(N), kw.get("attenuation", 50)))
            if ws.shape != w.shape or not np.array_equal(w, ws):
                out.append("create_window %s is not scipy.signal.windows.chebwin for that length and attenuation" % tag)
            if not np.max(np.abs(w - w0)) <= 1e-13 * float(np.max(np.abs(w0))):
                out.append("create_window %s differs from the same request with a Python int N by %.3e" % (tag, np.max(np.abs(w - w0))))
        elif w.shape != w0.shape or not np.array_equal(w, w0):
            out.append("create_window %s differs from the same request with a Python int N" % tag)
    if p.get("twin") is not None:
        # the same parameter value given as the other numeric type (3 / 3.0, numpy scalar) is the same window
        wt = np.asarray(W.create_window(Nl, name, **p["twin"]))
        if wt.shape != w.shape or not np.array_equal(w, wt):
            out.append("create_window %s differs from the same request with %r" % (tag, p["twin"]))
    if any(type(v) is not float and not isinstance(v, str) for v in kw.values()):
        # a shape parameter given as a Python int / numpy integer / numpy float is the same number as the Python float of that
        # value: the identical window (a single-precision parameter: the same window to FLOAT32_TOL of its maximum)
        try:
            wf = np.asarray(W.create_window(Nl, name, **kwf))
            if wf.shape != w.shape:
                out.append("create_window %s has %d samples, %d with the parameters as Python floats %r" % (tag, w.size, wf.size, kwf))
            elif single:
                if not np.max(np.abs(w - wf)) <= FLOAT32_TOL * max(1.0, float(np.max(np.abs(wf)))):
                    out.append("create_window %s differs by %.3e from the same request with double-precision parameters %r" % (
                        tag, np.max(np.abs(w - wf)), kwf))
            elif not np.array_equal(w, wf):
                j = int(np.argmax(~(w == wf)))
                out.append("create_window %s differs from the same request with the parameters as Python floats %r: sample %d is %r / %r, "
                           "max difference %.3e" % (tag, kwf, j, float(w[j]), float(wf[j]), np.nanmax(np.abs(w - wf))))
        except Exception as e:
            out.append("create_window(N=%d, %r, **%r) raised %r" % (N, name, kwf, e))
    if w.shape != (N,) or np.iscomplexobj(w) or not np.all(np.isfinite(w)):
        return out + ["%s does not return N finite real samples (shape %s, finite %s)" % (tag, w.shape, bool(np.all(np.isfinite(w))))]
    periodic = (_gen_name(name) == "window_flattop" and kw.get("mode") == "periodic")
    scale = max(1.0, float(np.max(np.abs(w))))
    if periodic:
        if N > 1 and np.max(np.abs(w[1:] - w[1:][::-1])) > 1e-9 * scale:
            out.append("%s is not periodically symmetric w[n] = w[N-n]" % tag)
    elif np.max(np.abs(w - w[::-1])) > 1e-9 * scale:
        out.append("%s is not symmetric: max |w[n]-w[N-1-n]| = %.3e" % (tag, np.max(np.abs(w - w[::-1]))))
    # (a single-precision shape parameter makes the coefficients single precision: blackman(alpha=float32(0.16)) peaks at 1 + 1.5e-8)
    tol1 = FLOAT32_TOL if single else 1e-8
    if np.max(w) > 1 + tol1:
        out.append("%s has maximum %.10f > 1" % (tag, np.max(w)))
    cheb_far = (_gen_name(name) == "window_chebwin" and (N > 512 or kwf.get("attenuation", 50) < 45))
    if N >= 3 and N % 2 == 1 and not periodic and not cheb_far:
        if abs(w[N // 2] - 1) > tol1:
            out.append("%s centre sample is %.10f, not 1" % (tag, w[N // 2]))
    s = np.sum(w)
    if s != 0 and np.max(np.abs(w)) > 1e-150:
        # (squares of samples below 1e-150 underflow: kaiser(2, beta=700) = [6.5e-303, 6.5e-303]; N >= 3 windows peak near 1)
        # (an all-zero window -- hann(2), riesz(1) -- has no ENBW: 0/0; the ">= 1" clause is stated for N >= 3)
        e = N * np.sum(w ** 2) / s ** 2
        if N >= 3 and e < 1 - 1e-12:
            out.append("%s has ENBW %.6f < 1" % (tag, e))
        try:
            e2 = W.Window(Nl, name, **kw).enbw
            if not abs(e2 - e) <= 1e-9 * abs(e):
                out.append("Window(%s).enbw = %r differs from N*sum(w^2)/sum(w)^2 = %r" % (tag, e2, e))
        except Exception as ex:
            out.append("Window(%s) raised %r" % (tag, ex))
        # the enbw function itself, on the samples, against the oracle's formula (accurately summed)
        import math
        ef = N * math.fsum(float(v) * float(v) for v in w) / math.fsum(float(v) for v in w) ** 2
        for fn, label in ((spectrum.enbw, "spectrum.enbw"), (W.enbw, "spectrum.window.enbw")):
            try:
                e3 = fn(w)
                if not abs(e3 - ef) <= 1e-9 * abs(ef):
                    out.append("%s(%s) = %r differs from N*sum(w^2)/sum(w)^2 = %r" % (label, tag, e3, ef))
            except Exception as ex:
                out.append("%s(%s) raised %r" % (label, tag, ex))
    # Window object reports the same samples and length
    try:
        o = W.Window(Nl, name, **kw)
        if o.N != N or len(o.data) != N or rel(np.asarray(o.data), w) > 0:
            out.append("Window(%s) does not report the same samples / length" % tag)
    except Exception as ex:
        out.append("Window(%s) raised %r" % (tag, ex))
    # the factory forwards the documented shape parameter: same as calling the generator directly
    gen = getattr(W, _gen_name(name))
    try:
        # (a length of an unsigned / 8-bit numpy type is normalised by the factory, defect D32; the generator functions called
        # directly with such a length compute -N/2 in that type: not generated, see the ruling at PTYPES)
        wd = np.asarray(gen(N if p.get("ntype") in ("uint8", "uint16", "uint32", "uint64", "int8") else Nl, **kw))
        if p.get("ntype") and _gen_name(name) == "window_chebwin" and wd.shape == w.shape:
            # scipy's chebwin is not bit-identical for a numpy-integer and a Python-int length (see above): last-bit differences
            if not np.max(np.abs(wd - w)) <= 1e-13 * float(np.max(np.abs(w))):
                out.append("create_window(%s) differs from %s(N, **kw) by %.3e" % (tag, gen.__name__, np.max(np.abs(wd - w))))
        elif rel(wd, w) > 0:
            out.append("create_window(%s) differs from %s(N, **kw)" % (tag, gen.__name__))
    except Exception as ex:
        out.append("%s(N, **%r) raised %r" % (gen.__name__, kw, ex))
    # closed forms of the classical wrappers
    g = _gen_name(name)
    if N >= 2 and not single:     # (single-precision parameter: tied to the double-precision request above)
        n = np.arange(N)
        ref = None
        if g == "window_hamming":
            ref = 0.54 - 0.46 * np.cos(2 * np.pi * n / (N - 1))
        elif g == "window_hann":
            ref = 0.5 - 0.5 * np.cos(2 * np.pi * n / (N - 1))
        elif g == "window_bartlett":
            ref = 1 - np.abs(2 * n / (N - 1) - 1)
        elif g == "window_rectangle":
            ref = np.ones(N)
        elif g == "window_chebwin":
            import scipy.signal.windows
            ref = scipy.signal.windows.chebwin(N, kwf.get("attenuation", 50))
        elif g == "window_kaiser":
            from scipy.special import i0
            b = kwf.get("beta", 8.6)
            ref = i0(b * np.sqrt(np.clip(1 - (2 * n / (N - 1) - 1) ** 2, 0, None))) / i0(b)
        if ref is not None and rel(w, ref) > 1e-9:
            out.append("%s differs from its closed-form definition: %.2e" % (tag, rel(w, ref)))
        # every sample on its own scale: a tail sample (kaiser beta=30 ends at 1.3e-12, blackman_harris at 6e-5) that is
        # wrong by any factor is invisible when the error is measured against the window maximum
        r2 = _reference(g, N, kwf)
        if r2 is not None:
            ref2, floor = r2
            bad = np.abs(w - ref2) > 1e-9 * np.abs(ref2) + floor
            if np.any(bad):
                j = int(np.argmax(bad))
                out.append("%s sample %d is %r, its definition gives %r (per-sample relative check, %d samples off)" % (
                    tag, j, float(w[j]), float(ref2[j]), int(np.sum(bad))))
    return out


ALIASES = [("hann", "hanning"), ("rectangle", "rectangular"), ("bartlett", "triangular"), ("cosine", "sine"), ("lanczos", "sinc")]


def oracle_factory(p):
    W = _W()
    N = _N(p)
    out = []
    for a, b in ALIASES:
        if not np.array_equal(W.create_window(N, a), W.create_window(N, b)):
            out.append("aliases %s / %s give different arrays (N=%d)" % (a, b, N))
    names = sorted(W.window_names)
    if len(names) != 29:
        out.append("the factory accepts %d names, not 29" % len(names))
    for name in names:
        try:
            W.create_window(N, name, foo=1)
            out.append("create_window(%d, %r, foo=1) accepted an unknown parameter" % (N, name))
        except ValueError:
            pass
        except Exception as e:
            out.append("create_window(%d, %r, foo=1) raised %r instead of ValueError" % (N, name, e))
        if name in PARAMS:
            other = "beta" if PARAMS[name][0] != "beta" else "alpha"
            try:
                W.create_window(N, name, **{other: 1.0})
                out.append("create_window(%d, %r, %s=1.0) accepted a parameter of another window" % (N, name, other))
            except ValueError:
                pass
    try:
        W.create_window(N, "nosuchwindow")
        out.append("create_window accepted an unknown name")
    except (AssertionError, ValueError, KeyError):
        pass
    # the documented default name: rectangular
    for args in ((N,), (N, None)):
        try:
            w = np.asarray(W.create_window(*args))
            if w.shape != (N,) or not np.array_equal(w, np.ones(N)):
                out.append("create_window%r is not the rectangular window ones(%d)" % (args, N))
        except Exception as e:
            out.append("create_window%r raised %r" % (args, e))
    # ... while the Window object requires a name (documented ValueError)
    try:
        W.Window(N)
        out.append("Window(%d) without a name did not raise ValueError" % N)
    except ValueError:
        pass
    except Exception as e:
        out.append("Window(%d) without a name raised %r instead of ValueError" % (N, e))
    # exactly the documented shape parameters: every keyword of every generator (those of the other windows, and the
    # generator arguments `method` / `precision` that the factory does not forward) is rejected unless it is the window's own
    for name in names:
        own = DOC_PARAMS.get(name, set())
        for k in sorted(ALL_KEYWORDS):
            if k in own:
                continue
            # alone, and next to a documented parameter of the window
            for extra in [{}] + [{kk: ALL_KEYWORDS[kk]} for kk in sorted(own)]:
                kws = dict(extra)
                kws[k] = ALL_KEYWORDS[k]
                try:
                    W.create_window(N, name, **kws)
                    out.append("create_window(%d, %r, **%r) accepted a parameter that is not documented for this window" % (N, name, kws))
                except ValueError:
                    pass
                except Exception as e:
                    out.append("create_window(%d, %r, **%r) raised %r instead of ValueError" % (N, name, kws, e))
        # every documented parameter is accepted, alone and all together
        for kws in [{k: ALL_KEYWORDS[k]} for k in sorted(own)] + ([{k: ALL_KEYWORDS[k] for k in own}] if len(own) > 1 else []):
            try:
                w = np.asarray(W.create_window(N, name, **kws))
                wd = np.asarray(getattr(W, _gen_name(name))(N, **kws))
                if w.shape != (N,) or not np.array_equal(w, wd):
                    out.append("create_window(%d, %r, **%r) is not %s(N, **kw)" % (N, name, kws, _gen_name(name)))
            except Exception as e:
                out.append("create_window(%d, %r, **%r) raised %r" % (N, name, kws, e))
    for name, kws in (("kaiser", {"method": "x"}), ("kaiser", {"method": "scipy"}), ("flattop", {"precision": "octave"}),
                      ("taylor", {"beta": 1.0}), ("kaiser", {"beta": 3.0, "foo": 1}), ("flattop", {"mode": "periodic", "precision": None}),
                      ("taylor", {"nbar": 4, "sll": -30.0, "alpha": 1.0})):
        try:
            W.create_window(N, name, **kws)
            out.append("create_window(%d, %r, **%r) accepted an undocumented parameter" % (N, name, kws))
        except ValueError:
            pass
        except Exception as e:
            out.append("create_window(%d, %r, **%r) raised %r instead of ValueError" % (N, name, kws, e))
    return out


# the documented shape parameters (create_window docstring; Taylor: the generator's own documentation), written down here
# independently of the package's routing table, with a valid value for each keyword
DOC_PARAMS = {"kaiser": {"beta"}, "blackman": {"alpha"}, "cauchy": {"alpha"}, "gaussian": {"alpha"}, "poisson": {"alpha"},
              "poisson_hanning": {"alpha"}, "tukey": {"r"}, "chebwin": {"attenuation"}, "flattop": {"mode"},
              "taylor": {"nbar", "sll"}}
ALL_KEYWORDS = {"beta": 3.0, "alpha": 1.0, "r": 0.5, "attenuation": 60.0, "mode": "periodic", "nbar": 4, "sll": -30.0,
                "method": "numpy", "precision": "octave", "foo": 1, "norm": True, "Beta": 3.0}



def _key(p):
    return "%s|%s|%s%s%s%s" % (p.get("name"), p["N"], sorted((k, repr(v)) for k, v in p.get("kw", {}).items()),
                               ("|" + p["ntype"]) if p.get("ntype") else "", "|twin" if p.get("twin") is not None else "",
                               ("|" + ",".join("%s:%s" % kv for kv in sorted(p["ptype"].items()))) if p.get("ptype") else "")


def _ptags(p):
    """numeric type of every shape parameter of the request, as counted in the input distribution"""
    out = []
    pt = p.get("ptype") or {}
    for k, v in p.get("kw", {}).items():
        if isinstance(v, str):
            continue
        t = pt.get(k) or ("python-int" if isinstance(v, (int, np.integer)) and not isinstance(v, bool) else "python-float")
        out.append("ptype:" + t)
    return sorted(set(out))


def _range_tags(p):
    """requests in the upper part of a shape parameter's range"""
    kw = p.get("kw", {})
    g = p.get("name")
    hi = ((g == "taylor" and kw.get("nbar", 4) >= 9) or (g == "kaiser" and kw.get("beta", 0) > 30)
          or (g in ("gaussian", "poisson", "poisson_hanning", "cauchy") and kw.get("alpha", 0) > 6)
          or (g == "chebwin" and kw.get("attenuation", 0) > 120))
    return ["params:upper-range"] if hi else []


KINDS = {
    "win": {"impl": impl_win, "model": model_win, "oracle": oracle_win, "rtol": 1e-9, "atol": 1e-13, "key": _key,
            "nontrivial": lambda p: p["N"] >= 3,
            "tags": lambda p: ["win:" + p["name"], "N:" + ("odd" if p["N"] % 2 else "even"), "params:" + ("default" if not p["kw"] else "given")] + (
                ["N:numpy-integer"] if p.get("ntype") else []) + (["params:numeric-type-twin"] if p.get("twin") is not None else []) + (
                _ptags(p) + _range_tags(p) + (["N:>=65536"] if p["N"] >= 65536 else []))},
    "factory": {"oracle": oracle_factory, "key": _key, "tags": lambda p: ["factory"] + (["N:numpy-integer"] if p.get("ntype") else [])},
}


def oracle_alt(p):
    """alternative arguments of the generator functions that the factory does not forward: the same window must come out"""
    W = _W()
    N = p["N"]
    out = []
    if p["what"] == "kaiser-method":
        w = np.asarray(W.window_kaiser(N, p["beta"], method="scipy"))
        ref = np.kaiser(N, p["beta"])
        if w.shape != (N,) or not np.all(np.isfinite(w)) or rel(w, ref) > 1e-9:
            out.append("window_kaiser(N=%d, beta=%g, method='scipy') returns %d samples / differs from the Kaiser window (numpy.kaiser) by %.2e" % (
                N, p["beta"], w.size, rel(w, ref) if w.shape == ref.shape else float("inf")))
    if p["what"] == "name-case":
        # the factory accepts a name in any letter case (it lower-cases it); the Window object must report the same samples for
        # every name the factory accepts
        for nm in (p["name"].upper(), p["name"].title()):
            ref = np.asarray(W.create_window(N, nm), dtype=float)
            if rel(ref, np.asarray(W.create_window(N, p["name"]), dtype=float)) > 0:
                out.append("create_window(%d, %r) differs from create_window(%d, %r)" % (N, nm, N, p["name"]))
            try:
                o = W.Window(N, nm)
                if o.N != N or rel(np.asarray(o.data, dtype=float), ref) > 0:
                    out.append("Window(%d, %r) does not report the samples of create_window(%d, %r)" % (N, nm, N, nm))
            except ValueError as e:
                out.append("the factory accepts the window name %r but Window(%d, %r) raises ValueError" % (nm, N, nm))
                break
    if p["what"] == "flattop-octave":
        # the generator's `precision="octave"` coefficient set (not forwarded by the factory): still a well-formed taper
        mode = p["mode"]
        tag = "window_flattop(%d, %r, precision='octave')" % (N, mode)
        try:
            w = np.asarray(W.window_flattop(_N(p), mode, precision="octave"))
        except Exception as e:
            return ["%s raised %r" % (tag, e)]
        if w.shape != (N,) or np.iscomplexobj(w) or not np.all(np.isfinite(w)):
            return ["%s does not return N finite real samples (shape %s)" % (tag, w.shape)]
        if np.max(w) > 1 + 1e-8:
            out.append("%s has maximum %.10f > 1" % (tag, np.max(w)))
        if mode == "periodic":
            if N > 1 and np.max(np.abs(w[1:] - w[1:][::-1])) > 1e-9:
                out.append("%s is not periodically symmetric w[n] = w[N-n]" % tag)
            x = 2 * np.pi * np.arange(N) / float(N)
        else:
            if np.max(np.abs(w - w[::-1])) > 1e-9:
                out.append("%s is not symmetric" % tag)
            if N >= 3 and N % 2 == 1 and abs(w[N // 2] - 1) > 1e-8:
                out.append("%s centre sample is %.10f, not 1" % (tag, w[N // 2]))
            x = 2 * np.pi * np.arange(N) / float(N - 1) if N > 1 else None
        ref = np.ones(1) if x is None else _flattop_ref(x, "octave")
        if np.any(np.abs(w - ref) > 1e-9 * np.abs(ref) + 1e-14):
            out.append("%s differs from the cosine sum with the coefficients (1, 1.93, 1.29, 0.388, 0.0322)/4.6402: %.2e" % (tag, np.max(np.abs(w - ref))))
        s = np.sum(w)
        if N >= 3 and s != 0 and N * np.sum(w ** 2) / s ** 2 < 1 - 1e-12:
            out.append("%s has ENBW < 1" % tag)
    if p["what"] == "value-guard":
        # shape-parameter values outside the documented set are refused (AssertionError), by the factory, the Window object
        # and the generator alike -- never turned into some other window
        name, kw = p["name"], p["kw"]
        calls = (("create_window", lambda: W.create_window(N, name, **kw)), ("Window", lambda: W.Window(N, name, **kw)),
                 ("spectrum.window." + _gen_name(name), lambda: getattr(W, _gen_name(name))(N, **kw)))
        for label, f in calls:
            try:
                f()
                out.append("%s (N=%d, %r, **%r) accepted a value outside the documented range" % (label, N, name, kw))
            except AssertionError:
                pass
            except Exception as e:
                out.append("%s (N=%d, %r, **%r) raised %r instead of AssertionError" % (label, N, name, kw, e))
    return out


KINDS["alt"] = {"oracle": oracle_alt, "key": lambda p: "alt|%s|%d|%s|%s|%s|%s" % (p["what"], p["N"], p.get("beta"), p.get("name"), p.get("mode"),
                                                                         sorted(p.get("kw", {}).items())),
                "tags": lambda p: ["alt:" + p["what"]]}


# ====================================================================================================================
# HISTORIES on one Window object.  "The Window object reports the same samples, length and ENBW" is a statement about the object
# for as long as it lives, not only right after construction: whatever has been asked of its frequency-domain side in between
# (.response, .frequencies, compute_response with any NFFT / norm, str(), info(), the plotting methods, copies of the object, a
# failing compute_response, the caller overwriting the response array it was given), in any order and repeated, `.data` is
# still create_window(N, name, **kw) bit for bit, `.N` and `.enbw` are what they were, `.name` / `.norm` are as given, and an array
# obtained from an earlier `.data` read has not been rescaled behind the caller's back.
# A step is [what, args]; params["steps"] is the whole history (JSON: replayable).

def _agg():
    import os
    os.environ.setdefault("MPLBACKEND", "Agg")
    import matplotlib
    if "agg" not in matplotlib.get_backend().lower():
        matplotlib.use("Agg", force=True)
    import pylab
    return pylab


def _hist_step(W, w, what, a, N, name, kw, st):
    """perform one step of a history on the Window `w`; returns a failure text or None.  `st` holds what the caller keeps
    between steps (arrays it was handed)."""
    import contextlib
    import copy
    import io
    import pickle
    if what == "response":
        r = w.response
        if not isinstance(r, np.ndarray) or r.ndim != 1 or r.size < 1:
            return "response is not a one-dimensional array"
        st["resp"] = r
    elif what == "frequencies":
        f = w.frequencies
        if len(f) != len(w.response):
            return "frequencies has %d entries, response %d" % (len(f), len(w.response))
    elif what == "compute_response":
        args = dict(a)
        if "NFFT" in args and args.get("nfft_type"):
            args["NFFT"] = NTYPES[args.pop("nfft_type")](args["NFFT"])
        args.pop("nfft_type", None)
        w.compute_response(**args)
        want = args.get("NFFT", 2048)
        if want < N:
            want = 2 * N
        if len(w.response) != want:
            return "compute_response(**%r) leaves a response of %d bins, not %d" % (a, len(w.response), want)
    elif what == "compute_response_bad":
        # a request that cannot be computed (NFFT that is not an integer): whatever it raises, the object is as it was
        try:
            w.compute_response(**a)
        except Exception:
            pass
    elif what == "str":
        s = str(w)
        if ("Length: %s" % N) not in s or name not in s:
            return "str(w) does not report the name and the length: %r" % s
    elif what == "info":
        buf = io.StringIO()
        with contextlib.redirect_stdout(buf):
            w.info()
        if ("Length: %s" % N) not in buf.getvalue():
            return "info() does not print the length: %r" % buf.getvalue()
    elif what == "mean_square":
        ms = float(w.mean_square)
        ref = float(np.sum(st["ref"] ** 2) / N)
        # (the unchanged library evaluates this very expression on its samples: difference 0 observed over quick seeds 0..4 and
        # a thorough run; 1e-12 relative allows another summation order)
        if not abs(ms - ref) <= 1e-12 * abs(ref):
            return "mean_square = %r, the samples of create_window give sum(w^2)/N = %r" % (ms, ref)
    elif what == "enbw":
        w.enbw
    elif what == "data":
        st["held"].append((w.data, np.array(w.data, copy=True)))
    elif what == "scribble-response":
        # the caller post-processes the response array it was given, in place
        r = w.response
        if isinstance(r, np.ndarray) and r.flags.writeable:
            r[...] = np.nan
    elif what in ("plot_frequencies", "plot_window", "plot_time_freq"):
        pylab = _agg()
        try:
            pylab.figure()
            getattr(w, what)(**a)
        finally:
            pylab.close("all")
    elif what in ("copy", "deepcopy", "pickle"):
        # a copy of the object is used; the original is as it was (a shallow copy shares the sample array with the original)
        o = copy.copy(w) if what == "copy" else copy.deepcopy(w) if what == "deepcopy" else pickle.loads(pickle.dumps(w))
        o.compute_response(**a)
        o.response, o.frequencies, str(o)
        if o.N != N or not np.array_equal(np.asarray(o.data), st["ref"]):
            return "a %s of the object does not report the samples of create_window after its response was computed" % what
    elif what == "other":
        # another object for the same request, constructed and used while this one is alive
        o = W.Window(st["Nl"], name, **kw)
        o.response, str(o)
        o.compute_response(**a)
        if o.N != N or not np.array_equal(np.asarray(o.data), st["ref"]):
            return "a second Window for the same request does not report the samples of create_window after its response was computed"
    else:
        raise ValueError("unknown step %r" % (what,))
    return None


def oracle_hist(p):
    import warnings
    W = _W()
    N, name = p["N"], p["name"]
    kw = _kw(p)
    Nl = _N(p)
    okw = dict(kw)
    if "norm" in p:
        okw["norm"] = p["norm"]
    tag = "Window(%s%d, %r%s)" % ((p["ntype"] + ":") if p.get("ntype") else "", N, name, "".join(", %s=%r" % kv for kv in okw.items()))
    out = []
    with warnings.catch_warnings(), np.errstate(all="ignore"):
        warnings.simplefilter("ignore")
        try:
            ref = np.array(W.create_window(Nl, name, **kw), dtype=float, copy=True)
            w = W.Window(Nl, name, **okw)
        except Exception as e:
            return ["%s raised %r" % (tag, e)]
        e0 = w.enbw
        first = w.data                       # the array a caller gets from a read right after construction ...
        snap = np.array(first, copy=True)    # ... and its values at that time
        st = {"ref": ref, "held": [(first, snap)], "Nl": Nl}

        def state(after):
            f = []
            d = np.asarray(w.data)
            if w.N != N or d.shape != (N,):
                f.append("%s after %s: N = %r, %d samples; constructed with N = %d" % (tag, after, w.N, d.size, N))
            elif not np.array_equal(d, ref):
                j = int(np.argmax(~(d == ref)))
                f.append("%s after %s: .data differs from create_window(N, name, **kw): sample %d is %r, not %r (max |diff| = %.3e)" % (
                    tag, after, j, float(d[j]), float(ref[j]), float(np.nanmax(np.abs(d - ref)))))
            e1 = w.enbw
            if not (e1 == e0 or (e1 != e1 and e0 != e0)):
                f.append("%s after %s: .enbw = %r, it was %r after construction" % (tag, after, e1, e0))
            for k, (arr, val) in enumerate(st["held"]):
                if not np.array_equal(arr, val, equal_nan=True):
                    f.append("%s after %s: the array returned by an earlier .data read (read %d) has changed in the caller's hands "
                             "(max |diff| = %.3e)" % (tag, after, k, float(np.nanmax(np.abs(arr - val)))))
                    st["held"][k] = (arr, np.array(arr, copy=True))      # reported once
            if w.name != name:
                f.append("%s after %s: .name = %r" % (tag, after, w.name))
            want_norm = p["norm"] if "norm" in p else True
            if w.norm is not want_norm:
                f.append("%s after %s: .norm = %r" % (tag, after, w.norm))
            return f

        out += state("construction")
        s0 = float(np.sum(ref))
        if s0 != 0 and float(np.max(np.abs(ref))) > 1e-150:
            e = N * float(np.sum(ref ** 2)) / s0 ** 2
            if not abs(e0 - e) <= 1e-9 * abs(e):
                out.append("%s.enbw = %r differs from N*sum(w^2)/sum(w)^2 = %r" % (tag, e0, e))
        done = []
        for what, a in p["steps"]:
            done.append(what if not a else "%s(%s)" % (what, ", ".join("%s=%r" % kv for kv in sorted(a.items()))))
            after = " -> ".join(done)
            try:
                msg = _hist_step(W, w, what, dict(a), N, name, kw, st)
            except Exception as ex:
                out.append("%s: step %s raised %s: %s" % (tag, after, type(ex).__name__, str(ex)[:160]))
                break
            if msg:
                out.append("%s after %s: %s" % (tag, after, msg))
            f = state(after)
            out += f
            if f or msg:
                break                        # the first step that breaks the object is the report
        # nothing process-wide was left behind: the factory still gives the same window, a new object the same samples
        try:
            again = np.asarray(W.create_window(Nl, name, **kw))
            fresh = W.Window(Nl, name, **okw)
            if again.shape != ref.shape or not np.array_equal(again, ref):
                out.append("create_window for the request of %s gives a different array after the history %s" % (tag, " -> ".join(done)))
            if not np.array_equal(np.asarray(fresh.data), ref) or not (fresh.enbw == e0 or (fresh.enbw != fresh.enbw and e0 != e0)):
                out.append("a new %s constructed after the history %s reports other samples / ENBW" % (tag, " -> ".join(done)))
        except Exception as ex:
            out.append("%s constructed again after the history raised %r" % (tag, ex))
    return out


def _hist_key(p):
    import json
    return "hist|%s|%s|%s|%s" % (_key(p), p.get("norm", "default"), len(p["steps"]), json.dumps(p["steps"], sort_keys=True)[:300])


def _hist_tags(p):
    t = ["history:Window", "history:norm=" + str(p.get("norm", "default")), "history:win:" + p["name"].lower(),
         "history:steps:%s" % ("1" if len(p["steps"]) == 1 else "2-4" if len(p["steps"]) <= 4 else ">=5"),
         "history:params:" + ("given" if p["kw"] else "default")]
    t += sorted(set("history:step:" + s[0] for s in p["steps"]))
    if p.get("ntype"):
        t.append("history:N:numpy-integer")
    if p.get("ptype"):
        t.append("history:params:numpy-scalar")
    if p["N"] > 2048:
        t.append("history:N>2048")
    return t


KINDS["hist"] = {"oracle": oracle_hist, "key": _hist_key, "tags": _hist_tags, "nontrivial": lambda p: p["N"] >= 3}

# shape parameters used by the histories (documented ranges; Taylor inside the range where the design is a taper)
HIST_KW = {"kaiser": [{"beta": 3.0}, {"beta": 14}, {"beta": 0.0}], "gaussian": [{"alpha": 1.5}, {"alpha": 4}],
           "tukey": [{"r": 0.25}, {"r": 1.0}, {"r": 0.0}], "chebwin": [{"attenuation": 80}, {"attenuation": 52.5}],
           "taylor": [{"nbar": 5, "sll": -40}, {"nbar": 6}, {"sll": -35.0}], "poisson": [{"alpha": 3}, {"alpha": 0.5}],
           "poisson_hanning": [{"alpha": 1.5}], "cauchy": [{"alpha": 4}, {"alpha": 0.0}], "blackman": [{"alpha": 0.2}, {"alpha": 0}],
           "flattop": [{"mode": "periodic"}, {"mode": "symmetric"}]}


def _gen_hist(nrng, tier, names):
    """histories on Window objects: every name x norm default / True / False x several N x default and given shape
    parameters; steps drawn from every way of using the frequency-domain side, in random order, with repeats"""
    thorough = tier == "thorough"

    def ri(n):
        return int(nrng.integers(0, n))

    def cr_args():
        a = {}
        k = ri(8)
        if k:
            a["NFFT"] = [32, 64, 100, 255, 256, 1024, 4096, 2048][k]
            if ri(6) == 0:
                a["nfft_type"] = ("int64", "int32", "int16")[ri(3)]
        k = ri(4)
        if k < 2:
            a["norm"] = bool(k)
        return a

    def plot_args(what):
        if what == "plot_window":
            return {}
        a = {}
        if ri(3) == 0:
            a["norm"] = bool(ri(2))
        if ri(3) == 0:
            a["mindB"] = -float(ri(150) + 20)
        if what == "plot_time_freq" and ri(3) == 0:
            a["yaxis_label_position"] = "right"
        return a

    def step(plots):
        k = ri(20 if plots else 17)
        if k < 4:
            return ["compute_response", cr_args()]
        if k < 13:
            return [("response", "frequencies", "str", "info", "mean_square", "enbw", "data", "response", "frequencies")[k - 4], {}]
        if k == 13:
            return ["scribble-response", {}]
        if k == 14:
            return ["compute_response_bad", {"NFFT": (100.5, "2048", None)[ri(3)]}]
        if k == 15:
            return [("copy", "deepcopy", "pickle")[ri(3)], cr_args()]
        if k == 16:
            return ["other", cr_args()]
        what = ("plot_frequencies", "plot_window", "plot_time_freq")[k - 17]
        return [what, plot_args(what)]

    def case(name, N, kw, norm, steps, ntype=None, ptype=None):
        q = {"name": name, "N": N, "kw": dict(kw), "steps": steps}
        if norm is not None:
            q["norm"] = norm
        if ntype:
            q["ntype"] = ntype
        if ptype:
            q["ptype"] = ptype
        return ("hist", q)

    # --- the single ways of reaching the frequency side, each as a one/two-step history, in turn over the names
    singles = [[["response", {}]], [["frequencies", {}]], [["str", {}]], [["info", {}]], [["compute_response", {}]],
               [["compute_response", {"NFFT": 32}]], [["compute_response", {"NFFT": 4096, "norm": True}]],
               [["compute_response", {"norm": True}]], [["plot_frequencies", {}]], [["plot_time_freq", {}]],
               [["copy", {}]], [["mean_square", {}], ["response", {}], ["mean_square", {}]],
               [["data", {}], ["frequencies", {}]], [["compute_response", {"norm": False}], ["response", {}], ["str", {}]],
               [["compute_response_bad", {"NFFT": 100.5}]], [["other", {}]], [["plot_frequencies", {"norm": False}], ["plot_frequencies", {}]]]
    Ns = [7, 64, 65, 8, 33, 3, 2, 1, 128, 513]
    c = 0
    for j, name in enumerate(names):
        for norm in (None, True, False):
            c += 1
            yield case(name, Ns[(j + c) % len(Ns)], {}, norm, singles[c % len(singles)])
    # --- random histories: every name, norm default / True / False, N fixed and random, with and without shape parameters
    rounds = 2 if not thorough else 10
    for rnd in range(rounds):
        for j, name in enumerate(names):
            for norm in (None, True, False):
                c += 1
                N = Ns[(c + rnd) % len(Ns)] if c % 2 else int(nrng.integers(1, 600))
                kw = {}
                if name in HIST_KW and (c + j) % 3 != 0:
                    kw = HIST_KW[name][ri(len(HIST_KW[name]))]
                plots = (c % 4 == 0)
                steps = [step(plots) for _ in range(2 + ri(7))]
                nm = name if c % 7 else (name.upper() if c % 2 else name.title())     # the name is not case sensitive
                ntype = ("int64", "int32", "int16", "uint16")[ri(4)] if c % 9 == 0 else None
                ptype = None
                if kw and c % 5 == 0:
                    k0 = sorted(kw)[0]
                    if not isinstance(kw[k0], str):
                        ptype = {k0: "int64" if isinstance(kw[k0], int) else "float64"}
                yield case(nm, N, kw, norm, steps, ntype=ntype, ptype=ptype)
    # --- records longer than the default grid (NFFT < N: the response is computed on 2 N bins)
    for j, (name, kw) in enumerate((("hamming", {}), ("kaiser", {"beta": 8.6}), ("hann", {}), ("chebwin", {}), ("taylor", {}),
                                    ("blackman_harris", {}), ("tukey", {"r": 0.5}), ("lanczos", {}))):
        if not thorough and j >= 3:
            break
        for N in (2049, 4096) + ((2048, 5000) if thorough else ()):
            yield case(name, N, kw, (None, False, True)[(j + N) % 3], [step(False) for _ in range(2 + ri(4))] + [["response", {}]])



def gen(rng, nrng, tier):
    W = _W()
    for N in (1, 2, 3, 8, 9, 64, 65):
        for beta in (0.0, 8.6, 30.0):
            yield ("alt", {"what": "kaiser-method", "N": N, "beta": beta})
    for j, name in enumerate(sorted(W.window_names)):
        yield ("alt", {"what": "name-case", "N": [8, 9, 33][j % 3], "name": name})
    names = sorted(W.window_names)
    maxex = 96 if tier == "quick" else 512
    for name in names:
        for N in range(1, maxex + 1):
            if tier == "quick" and N > 40 and (N + len(name)) % 3:
                continue
            yield ("win", {"name": name, "N": N, "kw": {}})
    big = [127, 128, 255, 256, 511, 512, 1023, 1024, 2047, 2048] + ([4095, 4096, 8191, 16384] if tier == "thorough" else [])
    for name in names:
        for N in big:
            if name in ("taylor", "chebwin") and N > 2048:
                continue
            yield ("win", {"name": name, "N": N, "kw": {}})
    # shape parameters over their ranges; the same N requested repeatedly with different parameters
    n_par = 250 if tier == "quick" else 4000
    pn = sorted(PARAMS)
    for i in range(n_par):
        name = pn[i % len(pn)]
        key, f = PARAMS[name]
        N = [7, 8, 33, 64][i % 4] if i % 3 == 0 else int(nrng.integers(1, 200))
        yield ("win", {"name": name, "N": N, "kw": {key: f(nrng)}})
    # the end points of every shape parameter's range
    ends = {"kaiser": ("beta", [0.0, 30.0]), "blackman": ("alpha", [0.0, 0.5]), "cauchy": ("alpha", [0.0, 6.0]),
            "gaussian": ("alpha", [0.0, 6.0]), "poisson": ("alpha", [0.0, 6.0]), "poisson_hanning": ("alpha", [0.0, 6.0]),
            "tukey": ("r", [0.0, 1.0, 1e-9, 1 - 1e-9]), "chebwin": ("attenuation", [45.0, 120.0])}
    for name in sorted(ends):
        key, vals = ends[name]
        for v in vals:
            for N in ((2, 9, 64) if tier == "quick" else (1, 2, 3, 9, 64, 65, 257)):
                yield ("win", {"name": name, "N": N, "kw": {key: v}})
    # (nbar=8, sll=-20) is left out: there the Taylor design itself is no longer a monotone taper (edge samples exceed the
    # centre by 1.3e-4; scipy.signal.windows.taylor agrees to 1e-16), so "maximum <= 1" is not a statement about the code
    # one of the two Taylor parameters given, the other left to its documented default
    for N in (3, 16, 33):
        for kw in ({"nbar": 3}, {"nbar": 6}, {"sll": -40.0}, {"sll": -25.0}):
            yield ("win", {"name": "taylor", "N": N, "kw": kw})
    for nbar, sll in ((2, -20.0), (8, -80.0), (2, -80.0), (8, -22.0), (7, -20.0), (1, -30.0)):
        for N in (2, 9, 64):
            yield ("win", {"name": "taylor", "N": N, "kw": {"nbar": nbar, "sll": sll}})
    for i in range(40 if tier == "quick" else 400):
        N = int(nrng.integers(1, 300))
        nbar = int(nrng.integers(2, 9))
        sll = -float(nrng.uniform(20, 80))
        if nbar >= 8 and sll > -22:
            sll = -22.0       # see the end-point cases above
        yield ("win", {"name": "taylor", "N": N, "kw": {"nbar": nbar, "sll": sll}})
    # default-parameter requests AFTER explicit non-default ones in the same process (defaults must not be remembered)
    for name in sorted(PARAMS) + ["taylor"]:
        for N in (8, 9, 33):
            yield ("win", {"name": name, "N": N, "kw": {}})
    for N in (1, 2, 3, 8, 51, 64):
        yield ("factory", {"N": N})
    thorough = tier == "thorough"
    # --- generator arguments and values the factory does not forward / must refuse
    for N in (1, 2, 9, 64) + ((3, 65, 257) if thorough else ()):
        for mode in ("symmetric", "periodic"):
            yield ("alt", {"what": "flattop-octave", "N": N, "mode": mode})
    yield ("alt", {"what": "flattop-octave", "N": 9, "mode": "symmetric", "ntype": "int64"})
    for N in (9, 1, 64):
        for name, kw in (("tukey", {"r": -0.1}), ("tukey", {"r": 1.1}), ("flattop", {"mode": "foo"}),
                         ("tukey", {"r": -1e-9}), ("tukey", {"r": 1 + 1e-9}), ("flattop", {"mode": "Periodic"})):
            yield ("alt", {"what": "value-guard", "N": N, "name": name, "kw": kw})
    # --- shape parameters beyond the sampled ranges (Chebyshev: the centre clause is evaluated for >= 45 dB only, see ASSUMPTIONS)
    for att in (20.0, 30.0, 44.9, 150.0) + ((5.0, 10.0, 200.0, 300.0) if thorough else ()):
        for N in (1, 2, 3, 9, 64, 65, 200) + ((33, 128, 257, 511, 512) if thorough else ()):
            yield ("win", {"name": "chebwin", "N": N, "kw": {"attenuation": att}})
    for beta in (50.0, 300.0, 700.0) + ((100.0, 500.0) if thorough else ()):
        for N in (1, 2, 3, 9, 64, 65) + ((8, 257, 1023, 4096) if thorough else ()):
            yield ("win", {"name": "kaiser", "N": N, "kw": {"beta": beta}})
    # --- the same value as the other numeric type (3 / 3.0 / numpy scalar): the identical array
    twins = [("kaiser", {"beta": 8}, {"beta": 8.0}), ("kaiser", {"beta": 0}, {"beta": 0.0}), ("blackman", {"alpha": 0}, {"alpha": 0.0}),
             ("gaussian", {"alpha": 3}, {"alpha": 3.0}), ("poisson", {"alpha": 2}, {"alpha": 2.0}),
             ("poisson_hanning", {"alpha": 1}, {"alpha": 1.0}), ("cauchy", {"alpha": 3}, {"alpha": 3.0}),
             ("tukey", {"r": 0}, {"r": 0.0}), ("tukey", {"r": 1}, {"r": 1.0}), ("chebwin", {"attenuation": 60}, {"attenuation": 60.0}),
             ("taylor", {"nbar": 4.0}, {"nbar": 4}), ("taylor", {"sll": -30}, {"sll": -30.0}),
             ("taylor", {"nbar": 5.0, "sll": -40}, {"nbar": 5, "sll": -40.0}),
             ("gaussian", {"alpha": np.float32(1.5)}, {"alpha": 1.5}), ("kaiser", {"beta": np.int64(5)}, {"beta": 5.0}),
             ("tukey", {"r": np.float64(0.25)}, {"r": 0.25}), ("chebwin", {"attenuation": np.int32(80)}, {"attenuation": 80.0})]
    for j, (name, kw, tw) in enumerate(twins):
        for N in (1, 2, 9, 64) + ((3, 65, 255) if thorough else ()):
            yield ("win", {"name": name, "N": N, "kw": kw, "twin": tw})
    # --- the length given as a numpy integer
    for j, name in enumerate(names):
        for k, nt in enumerate(("int64", "int32") + (("int16",) if thorough else ())):
            N = [1, 2, 9, 64, 33, 3, 128][(j // 2 + 3 * k) % 7]
            kw = {}
            if name in PARAMS and (j + k) % 2:
                kw = {PARAMS[name][0]: PARAMS[name][1](nrng)}
            yield ("win", {"name": name, "N": N, "kw": kw, "ntype": nt})
    # unsigned and 8-bit lengths through the factory and the Window class (defect D32, fixed: -N/2 wrapped in the length's own type)
    for j, name in enumerate(names):
        nt = ("uint8", "uint16", "uint32", "uint64", "int8")[(j + int(nrng.integers(0, 5))) % 5]
        kw = {}
        if name in PARAMS and j % 2:
            kw = {PARAMS[name][0]: PARAMS[name][1](nrng)}
        yield ("win", {"name": name, "N": [9, 64, 33, 100, 126, 2, 1][(j // 3) % 7], "kw": kw, "ntype": nt})
    for nt, N in (("int64", 16), ("int32", 17)):
        yield ("win", {"name": "taylor", "N": N, "kw": {"nbar": 5, "sll": -35.0}, "ntype": nt})
    for i, (N, nt) in enumerate(((1, "int64"), (8, "int32"), (51, "int64"))):
        yield ("factory", {"N": N, "ntype": nt})
    # --- long windows with a shape parameter
    if thorough:
        for name in pn:
            key, f = PARAMS[name]
            for N in (1023, 4096):
                yield ("win", {"name": name, "N": N, "kw": {key: f(nrng)}})
        for N in (1023, 4096):
            yield ("win", {"name": "taylor", "N": N, "kw": {"nbar": int(nrng.integers(2, 8)), "sll": -float(nrng.uniform(22, 80))}})
    # ================================================================================================================
    # numeric TYPE of every shape parameter as a generated dimension, and the upper part of every parameter's range.
    # The cases above draw the shape parameters from small customary ranges and (but for Taylor nbar) as Python floats.
    # A shape parameter is a number: nbar=16 / 16.0 / numpy.int64(16), beta=8 / 8.0, sll=-60 / -60.0 ... are the same request
    # and must give the identical array (oracle: against the all-Python-float request; numpy.float32: FLOAT32_TOL), through
    # create_window, Window(...).data/.enbw and the generator function, and that array must be the closed form.
    # (8-bit and unsigned numpy integers as shape parameters: see the ruling at PTYPES.)
    ptypes = ["python-int", "python-float", "int64", "int16", "float32", "int32", "float64"]
    is_int = {"python-int", "int16", "int32", "int64"}

    def typed(name, N, vals, types, ntype=None):
        """one 'win' case: vals = {keyword: number}, types = {keyword: entry of ptypes}"""
        kw, pt = {}, {}
        for k, v in vals.items():
            t = types[k]
            if t in is_int:
                v = int(round(v))
            elif t == "float32":
                v = float(np.float32(v))
            else:
                v = float(v)
            kw[k] = v
            if not t.startswith("python"):
                pt[k] = t
        q = {"name": name, "N": N, "kw": kw}
        if pt:
            q["ptype"] = pt
        if ntype:
            q["ntype"] = ntype
        return ("win", q)

    def taylor_ok(N, nbar, sll):
        # DESIGN.md 0.6: for shallow side lobes and large nbar the Taylor DESIGN is not a taper any more (edge samples above the
        # centre: (8, -20) by 1.3e-4, (20, -25) by 3e-2, (40, -22): maximum 2.3).  The cases stay where the definition itself
        # (the independent closed form, which agrees with scipy.signal.windows.taylor(N, nbar, -sll, norm=True) to 1e-15) has
        # maximum <= 1: everywhere in nbar <= 40, sll <= -30.
        return N < 2 or float(np.max(_taylor_ref(N, nbar, sll))) <= 1.0 + 1e-12

    # integer-valued values from the customary AND the upper part of each range, so that every numeric type applies
    grid = {"kaiser": ("beta", [0, 1, 3, 8, 14, 20, 30, 40, 50, 64, 100]),
            "blackman": ("alpha", [0]),
            "gaussian": ("alpha", [1, 2, 3, 6, 10, 20, 40]),
            "poisson": ("alpha", [0, 1, 2, 6, 10, 30, 100]),
            "poisson_hanning": ("alpha", [0, 1, 2, 6, 10, 30, 100]),
            "cauchy": ("alpha", [0, 1, 3, 6, 10, 30, 100]),
            "tukey": ("r", [0, 1]),
            "chebwin": ("attenuation", [45, 50, 60, 80, 100, 120, 150, 200, 250])}
    frac = {"blackman": [0.16, 0.25, 0.5], "tukey": [0.25, 0.5, 0.75], "kaiser": [8.6, 33.3], "gaussian": [2.5, 7.5],
            "poisson": [0.5, 12.5], "poisson_hanning": [1.5, 12.5], "cauchy": [2.5, 12.5], "chebwin": [52.5, 133.3]}
    gn = sorted(grid)
    rounds = 3 if tier == "quick" else 12
    c = 0
    for rnd in range(rounds):
        for a, name in enumerate(gn):
            key, vals = grid[name]
            for b, t in enumerate(ptypes):
                c += 1
                if t in is_int or (rnd + a + b) % 2:
                    v = vals[int(nrng.integers(0, len(vals)))]
                else:
                    v = frac[name][int(nrng.integers(0, len(frac[name])))]       # the float types also with a fractional value
                N = [9, 64, 2, 33, 3, 16, 65, 1][(rnd + a + 3 * b) % 8] if rnd < 2 else int(nrng.integers(1, 200))
                yield typed(name, N, {key: v}, {key: t}, ntype=("int32", "int64", "int16")[c % 3] if c % 5 == 0 else None)
    # Taylor: every nbar of 2..40 as Python int, Python float and numpy.int64 (and one of the other types in turn); sll and N in turn
    slls = [-30, -35, -40, -50, -60, -70, -80]
    Ns = [2, 3, 9, 16, 33, 64, 65, 129]
    c = 0
    for nbar in range(2, 41):
        for t in ("python-int", "python-float", "int64", ptypes[3 + nbar % 4]):
            if nbar < 9 and t in ("python-float", "int64") and tier == "quick" and nbar % 2:
                continue
            c += 1
            sll, N = slls[(c + nbar) % 7], Ns[(c * 3 + nbar) % 8]
            if taylor_ok(N, nbar, sll):
                yield typed("taylor", N, {"nbar": nbar, "sll": sll}, {"nbar": t, "sll": ptypes[(c + c // 7) % 7]},
                            ntype=("int64", "int32")[c % 2] if c % 9 == 0 else None)
    # ... and drawn at random over nbar 2..40 x sll -80..-30 x N, nbar of every type; one parameter alone (the other at its default)
    for i in range(60 if tier == "quick" else 500):
        N = int(nrng.integers(1, 300))
        nbar = int(nrng.integers(2, 41))
        sll = -float(nrng.uniform(30, 80))
        tn, ts = ptypes[int(nrng.integers(0, 7))], ptypes[int(nrng.integers(0, 7))]
        if i % 5 == 0:
            sll = -30.0      # the default; with large nbar
            if taylor_ok(N, nbar, sll):
                yield typed("taylor", N, {"nbar": nbar}, {"nbar": tn})
        elif taylor_ok(N, nbar, sll):
            yield typed("taylor", N, {"nbar": nbar, "sll": sll}, {"nbar": tn, "sll": ts})
    # --- the upper part of every parameter's range as floats, against the closed forms (per sample) and the model
    upper = {"kaiser": ("beta", 30, 120), "gaussian": ("alpha", 6, 40), "poisson": ("alpha", 6, 100),
             "poisson_hanning": ("alpha", 6, 100), "cauchy": ("alpha", 6, 100), "chebwin": ("attenuation", 120, 250)}
    un = sorted(upper)
    for i in range(90 if tier == "quick" else 900):
        name = un[i % len(un)]
        key, lo, hi = upper[name]
        N = [7, 8, 33, 64, 129, 512][(i // len(un)) % 6] if i % 2 == 0 else int(nrng.integers(1, 300))
        yield ("win", {"name": name, "N": N, "kw": {key: float(nrng.uniform(lo, hi))}})
    # --- the length as a numpy integer where N*N no longer fits the type (int16: N >= 182; int32: N >= 46341), every name
    for j, name in enumerate(names):
        kw = {}
        if name in PARAMS and j % 2:
            kw = {PARAMS[name][0]: PARAMS[name][1](nrng)}
        yield ("win", {"name": name, "N": [182, 255, 256, 257, 1000, 181][j % 6], "kw": kw, "ntype": "int16"})
        if thorough or j % 5 == 0:
            yield ("win", {"name": name, "N": [46341, 46342, 65536][j % 3], "kw": kw, "ntype": "int32"})
    # --- long windows (N >= 2**16), thorough tier: default and given shape parameters, Python int and numpy integer N
    if thorough:
        longs = [("hamming", {}), ("hann", {}), ("blackman_harris", {}), ("bohman", {}), ("parzen", {}), ("riesz", {}), ("lanczos", {}),
                 ("flattop", {}), ("kaiser", {"beta": 14.0}), ("kaiser", {"beta": 64}), ("gaussian", {"alpha": 4}), ("tukey", {"r": 0.25}),
                 ("poisson", {"alpha": 3.0}), ("cauchy", {"alpha": 12}), ("chebwin", {"attenuation": 100}), ("chebwin", {"attenuation": 160.0}),
                 ("taylor", {"nbar": 6, "sll": -45}), ("taylor", {"nbar": 12, "sll": -70.0})]
        for j, (name, kw) in enumerate(longs):
            for N in (65536, 65537, 131072):
                if name == "taylor" and N != (65536, 65537)[j % 2]:
                    continue
                q = {"name": name, "N": N, "kw": dict(kw)}
                if (j + N) % 3 == 0:
                    q["ntype"] = ("int64", "int32")[j % 2]
                yield ("win", q)
    # --- histories on one Window object (see oracle_hist)
    for cs in _gen_hist(nrng, tier, names):
        yield cs
