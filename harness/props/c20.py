"""C20  Every named window is a well-formed taper of the requested length."""
import numpy as np

import proto
from common import rel

TRUSTED_BASE = [
    "numpy.hamming/hanning/bartlett/kaiser are modelled by their documented closed forms (I0 by its power series); "
    "scipy.signal.windows.chebwin has no closed form in the model: the chebwin wrapper is compared with scipy's function directly "
    "by the oracle",
    "window samples are computed by the model in doubles (Float.cos/exp/...), compared at rtol 1e-9 (taylor/kaiser 1e-8)",
    "per-sample references of the oracle (|w - ref| <= 1e-9 |ref| + 1e-15; cosine sums + 1e-14): numpy closed forms written in the "
    "oracle for gaussian / poisson / poisson_hanning / cauchy / hamming / blackman / nuttall / blackman_nuttall / blackman_harris / "
    "flattop (both coefficient sets), scipy.special.i0 for kaiser, scipy.signal.windows.chebwin for chebwin",
    "Kaiser beta > 50 is outside the model's 60-term I0 series: those cases are checked by the oracle only (scipy.special.i0)",
    "the window-name table, generator signatures and factory routing are regenerated from the live package into "
    "lean/SpecVerif/Generated/Registry.lean on every run; the alias/routing theorems are `decide`d about that table",
]
PARTIAL = ["max <= 1 for chebwin and taylor (and centre = 1 for chebwin) are evaluated by the oracle, not proved; kaiser (<= 1, > 0, centre = 1, first sample 1/I0(beta)) and the taylor centre are proved for the model's 60-term I0 series",
           "flat-top: the published coefficients sum to 1.000000003, so its bound is sum a_i (float check: 1 + 1e-8)"]
ASSUMPTIONS = ["the ENBW comparison (Window.enbw, spectrum.enbw against N sum w^2 / (sum w)^2) is made for every N whenever sum(w) != 0 "
               "and the samples do not underflow when squared (max |w| > 1e-150; only kaiser(N <= 2, beta = 700) falls below); an "
               "all-zero window (hann(2), riesz(1)) has no ENBW (0/0) and the '>= 1' clause is stated for N >= 3",
               "values outside the documented set (tukey r outside [0, 1], flattop mode not symmetric/periodic) are refused with "
               "AssertionError; keywords that are not documented for the window with ValueError; Window without a name with ValueError",
               "flattop(mode='periodic') satisfies w[n] = w[N-n] (the periodic variant); the symmetric clause is read for the default mode",
               "Chebyshev windows: the centre-sample clause is evaluated for attenuation >= 45 dB and N <= 512 (the exhaustive range): a "
               "Dolph-Chebyshev window whose main lobe is narrower than the requested attenuation allows has its maximum at the end "
               "samples (scipy normalises by the maximum and warns); e.g. 50 dB, N = 2047. This is a property of the window definition, "
               "not of the wrapper"]
RULE = ("all 29 window names x N = 1..96 exhaustively (quick) / 1..512 (thorough) and sampled N up to 2048 / 16384, default and "
        "random shape parameters over their documented ranges, plus Chebyshev attenuation 20..150 (5..300 thorough), Kaiser beta "
        "50/300/700, integer / float / numpy-scalar twins of every parameter, N given as numpy int64/int32, parameterised windows "
        "at N = 1023, 4096 (thorough); factory routing (default name, every keyword of every generator against every name), alias, "
        "Window-object, direct-generator (kaiser method, flattop precision='octave') and value-guard cases; non-trivial = N >= 3")


def _W():
    from spectrum import window
    return window


def _gen_name(name):
    W = _W()
    g = W.window_names[name]
    return g if isinstance(g, str) else g.__name__


PARAMS = {
    "kaiser": ("beta", lambda r: float(r.uniform(0, 30))),
    "blackman": ("alpha", lambda r: float(r.uniform(0, 0.5))),
    "cauchy": ("alpha", lambda r: float(r.uniform(0.1, 6))),
    "gaussian": ("alpha", lambda r: float(r.uniform(0.1, 6))),
    "poisson": ("alpha", lambda r: float(r.uniform(0.1, 6))),
    "poisson_hanning": ("alpha", lambda r: float(r.uniform(0.1, 6))),
    "tukey": ("r", lambda r: float(r.choice([0.0, 1.0, r.uniform(0.01, 0.99)]))),
    "chebwin": ("attenuation", lambda r: float(r.uniform(45, 120))),
    "flattop": ("mode", lambda r: str(r.choice(["symmetric", "periodic"]))),
}


NTYPES = {"int64": np.int64, "int32": np.int32, "int16": np.int16}


def _N(p):
    """the length as handed to the library: a Python int, or the numpy integer type named by p['ntype']"""
    return NTYPES[p["ntype"]](p["N"]) if p.get("ntype") else p["N"]


def impl_win(p):
    W = _W()
    return [np.asarray(W.create_window(_N(p), p["name"], **p["kw"]), dtype=float)]


def model_win(p):
    g = _gen_name(p["name"])
    kw = p["kw"]
    par = []
    if g in ("window_kaiser",):
        if kw.get("beta", 8.6) > 50:
            return None      # outside the range of the model's 60-term I0 series; the oracle's scipy.special.i0 reference applies
        par = [kw.get("beta", 8.6)]
    elif g == "window_blackman":
        par = [kw.get("alpha", 0.16)]
    elif g == "window_cauchy":
        par = [kw.get("alpha", 3)]
    elif g == "window_gaussian":
        par = [kw.get("alpha", 2.5)]
    elif g in ("window_poisson", "window_poisson_hanning"):
        par = [kw.get("alpha", 2)]
    elif g == "window_tukey":
        par = [kw.get("r", 0.5)]
    elif g == "window_flattop":
        par = [1.0 if kw.get("mode", "symmetric") == "periodic" else 0.0]
    elif g == "window_taylor":
        par = [float(kw.get("nbar", 4)), float(kw.get("sll", -30))]
    return ("F", proto.request("window", "F", [g, int(p["N"])], [[float(v) for v in par]]))


def _hp(N, n):
    """numpy.linspace(-N/2, N/2, N)[n] written out"""
    return -N / 2.0 + n * (N / (N - 1.0))


def _reference(g, N, kw):
    """independent per-sample reference of the generator `g` (N >= 2): (array, absolute floor) or None.
    Product / exponential forms keep their relative accuracy in the tails (floor 1e-15); the cosine sums cancel at the ends,
    so their floor is a few ulps of the unit-size terms (1e-14)."""
    n = np.arange(N, dtype=float)
    th = 2 * np.pi * n / (N - 1.0)
    if g == "window_kaiser":
        from scipy.special import i0
        b = float(kw.get("beta", 8.6))
        return i0(b * np.sqrt(4.0 * n * (N - 1 - n)) / (N - 1.0)) / i0(b), 1e-15
    if g == "window_gaussian":
        a = kw.get("alpha", 2.5)
        return np.exp(-0.5 * (a * (n - (N - 1) / 2.0) / (N / 2.0)) ** 2), 1e-15
    if g == "window_poisson":
        return np.exp(-kw.get("alpha", 2) * np.abs(_hp(N, n)) / (N / 2.0)), 1e-15
    if g == "window_poisson_hanning":
        return (0.5 - 0.5 * np.cos(th)) * np.exp(-kw.get("alpha", 2) * np.abs(_hp(N, n)) / (N / 2.0)), 1e-15
    if g == "window_cauchy":
        return 1.0 / (1.0 + (kw.get("alpha", 3) * _hp(N, n) / (N / 2.0)) ** 2), 1e-15
    if g == "window_chebwin":
        import scipy.signal.windows
        return scipy.signal.windows.chebwin(N, kw.get("attenuation", 50)), 1e-15
    if g == "window_hamming":
        return 0.54 - 0.46 * np.cos(th), 1e-14
    if g == "window_blackman":
        a = kw.get("alpha", 0.16)
        return (1 - a) / 2.0 - 0.5 * np.cos(th) + a / 2.0 * np.cos(2 * th), 1e-14
    c4 = {"window_nuttall": (0.355768, 0.487396, 0.144232, 0.012604),
          "window_blackman_nuttall": (0.3635819, 0.4891775, 0.1365995, 0.0106411),
          "window_blackman_harris": (0.35875, 0.48829, 0.14128, 0.01168)}
    if g in c4:
        a0, a1, a2, a3 = c4[g]
        return a0 - a1 * np.cos(th) + a2 * np.cos(2 * th) - a3 * np.cos(3 * th), 1e-14
    if g == "window_flattop":
        x = 2 * np.pi * n / float(N) if kw.get("mode") == "periodic" else th
        return _flattop_ref(x, None), 1e-14
    return None


def _flattop_ref(x, precision):
    a = (0.21557895, 0.41663158, 0.277263158, 0.083578947, 0.006947368)
    if precision == "octave":
        a = tuple(v / 4.6402 for v in (1.0, 1.93, 1.29, 0.388, 0.0322))
    return a[0] - a[1] * np.cos(x) + a[2] * np.cos(2 * x) - a[3] * np.cos(3 * x) + a[4] * np.cos(4 * x)


def oracle_win(p):
    import spectrum
    W = _W()
    N, name, kw = p["N"], p["name"], p["kw"]
    Nl = _N(p)          # what the library is given (a numpy integer for the 'ntype' cases)
    out = []
    tag = "%s(N=%s%d%s)" % (name, (p["ntype"] + ":") if p.get("ntype") else "", N, "".join(", %s=%r" % kv for kv in kw.items()))
    try:
        w = np.asarray(W.create_window(Nl, name, **kw))
    except Exception as e:
        return ["create_window %s raised %r" % (tag, e)]
    if p.get("ntype"):
        # a length given as a numpy integer is the same length
        w0 = np.asarray(W.create_window(int(N), name, **kw))
        if w.shape != w0.shape or not np.array_equal(w, w0):
            out.append("create_window %s differs from the same request with a Python int N" % tag)
    if p.get("twin") is not None:
        # the same parameter value given as the other numeric type (3 / 3.0, numpy scalar) is the same window
        wt = np.asarray(W.create_window(Nl, name, **p["twin"]))
        if wt.shape != w.shape or not np.array_equal(w, wt):
            out.append("create_window %s differs from the same request with %r" % (tag, p["twin"]))
    if w.shape != (N,) or np.iscomplexobj(w) or not np.all(np.isfinite(w)):
        return ["%s does not return N finite real samples (shape %s, finite %s)" % (tag, w.shape, bool(np.all(np.isfinite(w))))]
    periodic = (_gen_name(name) == "window_flattop" and kw.get("mode") == "periodic")
    scale = max(1.0, float(np.max(np.abs(w))))
    if periodic:
        if N > 1 and np.max(np.abs(w[1:] - w[1:][::-1])) > 1e-9 * scale:
            out.append("%s is not periodically symmetric w[n] = w[N-n]" % tag)
    elif np.max(np.abs(w - w[::-1])) > 1e-9 * scale:
        out.append("%s is not symmetric: max |w[n]-w[N-1-n]| = %.3e" % (tag, np.max(np.abs(w - w[::-1]))))
    if np.max(w) > 1 + 1e-8:
        out.append("%s has maximum %.10f > 1" % (tag, np.max(w)))
    cheb_far = (_gen_name(name) == "window_chebwin" and (N > 512 or kw.get("attenuation", 50) < 45))
    if N >= 3 and N % 2 == 1 and not periodic and not cheb_far:
        if abs(w[N // 2] - 1) > 1e-8:
            out.append("%s centre sample is %.10f, not 1" % (tag, w[N // 2]))
    s = np.sum(w)
    if s != 0 and np.max(np.abs(w)) > 1e-150:
        # (squares of samples below 1e-150 underflow: kaiser(2, beta=700) = [6.5e-303, 6.5e-303]; N >= 3 windows peak near 1)
        # (an all-zero window -- hann(2), riesz(1) -- has no ENBW: 0/0; the ">= 1" clause is stated for N >= 3)
        e = N * np.sum(w ** 2) / s ** 2
        if N >= 3 and e < 1 - 1e-12:
            out.append("%s has ENBW %.6f < 1" % (tag, e))
        try:
            e2 = W.Window(Nl, name, **kw).enbw
            if not abs(e2 - e) <= 1e-9 * abs(e):
                out.append("Window(%s).enbw = %r differs from N*sum(w^2)/sum(w)^2 = %r" % (tag, e2, e))
        except Exception as ex:
            out.append("Window(%s) raised %r" % (tag, ex))
        # the enbw function itself, on the samples, against the oracle's formula (accurately summed)
        import math
        ef = N * math.fsum(float(v) * float(v) for v in w) / math.fsum(float(v) for v in w) ** 2
        for fn, label in ((spectrum.enbw, "spectrum.enbw"), (W.enbw, "spectrum.window.enbw")):
            try:
                e3 = fn(w)
                if not abs(e3 - ef) <= 1e-9 * abs(ef):
                    out.append("%s(%s) = %r differs from N*sum(w^2)/sum(w)^2 = %r" % (label, tag, e3, ef))
            except Exception as ex:
                out.append("%s(%s) raised %r" % (label, tag, ex))
    # Window object reports the same samples and length
    try:
        o = W.Window(Nl, name, **kw)
        if o.N != N or len(o.data) != N or rel(np.asarray(o.data), w) > 0:
            out.append("Window(%s) does not report the same samples / length" % tag)
    except Exception as ex:
        out.append("Window(%s) raised %r" % (tag, ex))
    # the factory forwards the documented shape parameter: same as calling the generator directly
    gen = getattr(W, _gen_name(name))
    try:
        wd = np.asarray(gen(Nl, **kw))
        if rel(wd, w) > 0:
            out.append("create_window(%s) differs from %s(N, **kw)" % (tag, gen.__name__))
    except Exception as ex:
        out.append("%s(N, **%r) raised %r" % (gen.__name__, kw, ex))
    # closed forms of the classical wrappers
    g = _gen_name(name)
    if N >= 2:
        n = np.arange(N)
        ref = None
        if g == "window_hamming":
            ref = 0.54 - 0.46 * np.cos(2 * np.pi * n / (N - 1))
        elif g == "window_hann":
            ref = 0.5 - 0.5 * np.cos(2 * np.pi * n / (N - 1))
        elif g == "window_bartlett":
            ref = 1 - np.abs(2 * n / (N - 1) - 1)
        elif g == "window_rectangle":
            ref = np.ones(N)
        elif g == "window_chebwin":
            import scipy.signal.windows
            ref = scipy.signal.windows.chebwin(N, kw.get("attenuation", 50))
        elif g == "window_kaiser":
            from scipy.special import i0
            b = kw.get("beta", 8.6)
            ref = i0(b * np.sqrt(np.clip(1 - (2 * n / (N - 1) - 1) ** 2, 0, None))) / i0(b)
        if ref is not None and rel(w, ref) > 1e-9:
            out.append("%s differs from its closed-form definition: %.2e" % (tag, rel(w, ref)))
        # every sample on its own scale: a tail sample (kaiser beta=30 ends at 1.3e-12, blackman_harris at 6e-5) that is
        # wrong by any factor is invisible when the error is measured against the window maximum
        r2 = _reference(g, N, kw)
        if r2 is not None:
            ref2, floor = r2
            bad = np.abs(w - ref2) > 1e-9 * np.abs(ref2) + floor
            if np.any(bad):
                j = int(np.argmax(bad))
                out.append("%s sample %d is %r, its definition gives %r (per-sample relative check, %d samples off)" % (
                    tag, j, float(w[j]), float(ref2[j]), int(np.sum(bad))))
    return out


ALIASES = [("hann", "hanning"), ("rectangle", "rectangular"), ("bartlett", "triangular"), ("cosine", "sine"), ("lanczos", "sinc")]


def oracle_factory(p):
    W = _W()
    N = _N(p)
    out = []
    for a, b in ALIASES:
        if not np.array_equal(W.create_window(N, a), W.create_window(N, b)):
            out.append("aliases %s / %s give different arrays (N=%d)" % (a, b, N))
    names = sorted(W.window_names)
    if len(names) != 29:
        out.append("the factory accepts %d names, not 29" % len(names))
    for name in names:
        try:
            W.create_window(N, name, foo=1)
            out.append("create_window(%d, %r, foo=1) accepted an unknown parameter" % (N, name))
        except ValueError:
            pass
        except Exception as e:
            out.append("create_window(%d, %r, foo=1) raised %r instead of ValueError" % (N, name, e))
        if name in PARAMS:
            other = "beta" if PARAMS[name][0] != "beta" else "alpha"
            try:
                W.create_window(N, name, **{other: 1.0})
                out.append("create_window(%d, %r, %s=1.0) accepted a parameter of another window" % (N, name, other))
            except ValueError:
                pass
    try:
        W.create_window(N, "nosuchwindow")
        out.append("create_window accepted an unknown name")
    except (AssertionError, ValueError, KeyError):
        pass
    # the documented default name: rectangular
    for args in ((N,), (N, None)):
        try:
            w = np.asarray(W.create_window(*args))
            if w.shape != (N,) or not np.array_equal(w, np.ones(N)):
                out.append("create_window%r is not the rectangular window ones(%d)" % (args, N))
        except Exception as e:
            out.append("create_window%r raised %r" % (args, e))
    # ... while the Window object requires a name (documented ValueError)
    try:
        W.Window(N)
        out.append("Window(%d) without a name did not raise ValueError" % N)
    except ValueError:
        pass
    except Exception as e:
        out.append("Window(%d) without a name raised %r instead of ValueError" % (N, e))
    # exactly the documented shape parameters: every keyword of every generator (those of the other windows, and the
    # generator arguments `method` / `precision` that the factory does not forward) is rejected unless it is the window's own
    for name in names:
        own = DOC_PARAMS.get(name, set())
        for k in sorted(ALL_KEYWORDS):
            if k in own:
                continue
            # alone, and next to a documented parameter of the window
            for extra in [{}] + [{kk: ALL_KEYWORDS[kk]} for kk in sorted(own)]:
                kws = dict(extra)
                kws[k] = ALL_KEYWORDS[k]
                try:
                    W.create_window(N, name, **kws)
                    out.append("create_window(%d, %r, **%r) accepted a parameter that is not documented for this window" % (N, name, kws))
                except ValueError:
                    pass
                except Exception as e:
                    out.append("create_window(%d, %r, **%r) raised %r instead of ValueError" % (N, name, kws, e))
        # every documented parameter is accepted, alone and all together
        for kws in [{k: ALL_KEYWORDS[k]} for k in sorted(own)] + ([{k: ALL_KEYWORDS[k] for k in own}] if len(own) > 1 else []):
            try:
                w = np.asarray(W.create_window(N, name, **kws))
                wd = np.asarray(getattr(W, _gen_name(name))(N, **kws))
                if w.shape != (N,) or not np.array_equal(w, wd):
                    out.append("create_window(%d, %r, **%r) is not %s(N, **kw)" % (N, name, kws, _gen_name(name)))
            except Exception as e:
                out.append("create_window(%d, %r, **%r) raised %r" % (N, name, kws, e))
    for name, kws in (("kaiser", {"method": "x"}), ("kaiser", {"method": "scipy"}), ("flattop", {"precision": "octave"}),
                      ("taylor", {"beta": 1.0}), ("kaiser", {"beta": 3.0, "foo": 1}), ("flattop", {"mode": "periodic", "precision": None}),
                      ("taylor", {"nbar": 4, "sll": -30.0, "alpha": 1.0})):
        try:
            W.create_window(N, name, **kws)
            out.append("create_window(%d, %r, **%r) accepted an undocumented parameter" % (N, name, kws))
        except ValueError:
            pass
        except Exception as e:
            out.append("create_window(%d, %r, **%r) raised %r instead of ValueError" % (N, name, kws, e))
    return out


# the documented shape parameters (create_window docstring; Taylor: the generator's own documentation), written down here
# independently of the package's routing table, with a valid value for each keyword
DOC_PARAMS = {"kaiser": {"beta"}, "blackman": {"alpha"}, "cauchy": {"alpha"}, "gaussian": {"alpha"}, "poisson": {"alpha"},
              "poisson_hanning": {"alpha"}, "tukey": {"r"}, "chebwin": {"attenuation"}, "flattop": {"mode"},
              "taylor": {"nbar", "sll"}}
ALL_KEYWORDS = {"beta": 3.0, "alpha": 1.0, "r": 0.5, "attenuation": 60.0, "mode": "periodic", "nbar": 4, "sll": -30.0,
                "method": "numpy", "precision": "octave", "foo": 1, "norm": True, "Beta": 3.0}



def _key(p):
    return "%s|%s|%s%s%s" % (p.get("name"), p["N"], sorted((k, repr(v)) for k, v in p.get("kw", {}).items()),
                             ("|" + p["ntype"]) if p.get("ntype") else "", "|twin" if p.get("twin") is not None else "")


KINDS = {
    "win": {"impl": impl_win, "model": model_win, "oracle": oracle_win, "rtol": 1e-9, "atol": 1e-13, "key": _key,
            "nontrivial": lambda p: p["N"] >= 3,
            "tags": lambda p: ["win:" + p["name"], "N:" + ("odd" if p["N"] % 2 else "even"), "params:" + ("default" if not p["kw"] else "given")] + (
                ["N:numpy-integer"] if p.get("ntype") else []) + (["params:numeric-type-twin"] if p.get("twin") is not None else [])},
    "factory": {"oracle": oracle_factory, "key": _key, "tags": lambda p: ["factory"] + (["N:numpy-integer"] if p.get("ntype") else [])},
}


def oracle_alt(p):
    """alternative arguments of the generator functions that the factory does not forward: the same window must come out"""
    W = _W()
    N = p["N"]
    out = []
    if p["what"] == "kaiser-method":
        w = np.asarray(W.window_kaiser(N, p["beta"], method="scipy"))
        ref = np.kaiser(N, p["beta"])
        if w.shape != (N,) or not np.all(np.isfinite(w)) or rel(w, ref) > 1e-9:
            out.append("window_kaiser(N=%d, beta=%g, method='scipy') returns %d samples / differs from the Kaiser window (numpy.kaiser) by %.2e" % (
                N, p["beta"], w.size, rel(w, ref) if w.shape == ref.shape else float("inf")))
    if p["what"] == "name-case":
        # the factory accepts a name in any letter case (it lower-cases it); the Window object must report the same samples for
        # every name the factory accepts
        for nm in (p["name"].upper(), p["name"].title()):
            ref = np.asarray(W.create_window(N, nm), dtype=float)
            if rel(ref, np.asarray(W.create_window(N, p["name"]), dtype=float)) > 0:
                out.append("create_window(%d, %r) differs from create_window(%d, %r)" % (N, nm, N, p["name"]))
            try:
                o = W.Window(N, nm)
                if o.N != N or rel(np.asarray(o.data, dtype=float), ref) > 0:
                    out.append("Window(%d, %r) does not report the samples of create_window(%d, %r)" % (N, nm, N, nm))
            except ValueError as e:
                out.append("the factory accepts the window name %r but Window(%d, %r) raises ValueError" % (nm, N, nm))
                break
    if p["what"] == "flattop-octave":
        # the generator's `precision="octave"` coefficient set (not forwarded by the factory): still a well-formed taper
        mode = p["mode"]
        tag = "window_flattop(%d, %r, precision='octave')" % (N, mode)
        try:
            w = np.asarray(W.window_flattop(_N(p), mode, precision="octave"))
        except Exception as e:
            return ["%s raised %r" % (tag, e)]
        if w.shape != (N,) or np.iscomplexobj(w) or not np.all(np.isfinite(w)):
            return ["%s does not return N finite real samples (shape %s)" % (tag, w.shape)]
        if np.max(w) > 1 + 1e-8:
            out.append("%s has maximum %.10f > 1" % (tag, np.max(w)))
        if mode == "periodic":
            if N > 1 and np.max(np.abs(w[1:] - w[1:][::-1])) > 1e-9:
                out.append("%s is not periodically symmetric w[n] = w[N-n]" % tag)
            x = 2 * np.pi * np.arange(N) / float(N)
        else:
            if np.max(np.abs(w - w[::-1])) > 1e-9:
                out.append("%s is not symmetric" % tag)
            if N >= 3 and N % 2 == 1 and abs(w[N // 2] - 1) > 1e-8:
                out.append("%s centre sample is %.10f, not 1" % (tag, w[N // 2]))
            x = 2 * np.pi * np.arange(N) / float(N - 1) if N > 1 else None
        ref = np.ones(1) if x is None else _flattop_ref(x, "octave")
        if np.any(np.abs(w - ref) > 1e-9 * np.abs(ref) + 1e-14):
            out.append("%s differs from the cosine sum with the coefficients (1, 1.93, 1.29, 0.388, 0.0322)/4.6402: %.2e" % (tag, np.max(np.abs(w - ref))))
        s = np.sum(w)
        if N >= 3 and s != 0 and N * np.sum(w ** 2) / s ** 2 < 1 - 1e-12:
            out.append("%s has ENBW < 1" % tag)
    if p["what"] == "value-guard":
        # shape-parameter values outside the documented set are refused (AssertionError), by the factory, the Window object
        # and the generator alike -- never turned into some other window
        name, kw = p["name"], p["kw"]
        calls = (("create_window", lambda: W.create_window(N, name, **kw)), ("Window", lambda: W.Window(N, name, **kw)),
                 ("spectrum.window." + _gen_name(name), lambda: getattr(W, _gen_name(name))(N, **kw)))
        for label, f in calls:
            try:
                f()
                out.append("%s (N=%d, %r, **%r) accepted a value outside the documented range" % (label, N, name, kw))
            except AssertionError:
                pass
            except Exception as e:
                out.append("%s (N=%d, %r, **%r) raised %r instead of AssertionError" % (label, N, name, kw, e))
    return out


KINDS["alt"] = {"oracle": oracle_alt, "key": lambda p: "alt|%s|%d|%s|%s|%s|%s" % (p["what"], p["N"], p.get("beta"), p.get("name"), p.get("mode"),
                                                                         sorted(p.get("kw", {}).items())),
                "tags": lambda p: ["alt:" + p["what"]]}


def gen(rng, nrng, tier):
    W = _W()
    for N in (1, 2, 3, 8, 9, 64, 65):
        for beta in (0.0, 8.6, 30.0):
            yield ("alt", {"what": "kaiser-method", "N": N, "beta": beta})
    for j, name in enumerate(sorted(W.window_names)):
        yield ("alt", {"what": "name-case", "N": [8, 9, 33][j % 3], "name": name})
    names = sorted(W.window_names)
    maxex = 96 if tier == "quick" else 512
    for name in names:
        for N in range(1, maxex + 1):
            if tier == "quick" and N > 40 and (N + len(name)) % 3:
                continue
            yield ("win", {"name": name, "N": N, "kw": {}})
    big = [127, 128, 255, 256, 511, 512, 1023, 1024, 2047, 2048] + ([4095, 4096, 8191, 16384] if tier == "thorough" else [])
    for name in names:
        for N in big:
            if name in ("taylor", "chebwin") and N > 2048:
                continue
            yield ("win", {"name": name, "N": N, "kw": {}})
    # shape parameters over their ranges; the same N requested repeatedly with different parameters
    n_par = 250 if tier == "quick" else 4000
    pn = sorted(PARAMS)
    for i in range(n_par):
        name = pn[i % len(pn)]
        key, f = PARAMS[name]
        N = [7, 8, 33, 64][i % 4] if i % 3 == 0 else int(nrng.integers(1, 200))
        yield ("win", {"name": name, "N": N, "kw": {key: f(nrng)}})
    # the end points of every shape parameter's range
    ends = {"kaiser": ("beta", [0.0, 30.0]), "blackman": ("alpha", [0.0, 0.5]), "cauchy": ("alpha", [0.0, 6.0]),
            "gaussian": ("alpha", [0.0, 6.0]), "poisson": ("alpha", [0.0, 6.0]), "poisson_hanning": ("alpha", [0.0, 6.0]),
            "tukey": ("r", [0.0, 1.0, 1e-9, 1 - 1e-9]), "chebwin": ("attenuation", [45.0, 120.0])}
    for name in sorted(ends):
        key, vals = ends[name]
        for v in vals:
            for N in ((2, 9, 64) if tier == "quick" else (1, 2, 3, 9, 64, 65, 257)):
                yield ("win", {"name": name, "N": N, "kw": {key: v}})
    # (nbar=8, sll=-20) is left out: there the Taylor design itself is no longer a monotone taper (edge samples exceed the
    # centre by 1.3e-4; scipy.signal.windows.taylor agrees to 1e-16), so "maximum <= 1" is not a statement about the code
    # one of the two Taylor parameters given, the other left to its documented default
    for N in (3, 16, 33):
        for kw in ({"nbar": 3}, {"nbar": 6}, {"sll": -40.0}, {"sll": -25.0}):
            yield ("win", {"name": "taylor", "N": N, "kw": kw})
    for nbar, sll in ((2, -20.0), (8, -80.0), (2, -80.0), (8, -22.0), (7, -20.0), (1, -30.0)):
        for N in (2, 9, 64):
            yield ("win", {"name": "taylor", "N": N, "kw": {"nbar": nbar, "sll": sll}})
    for i in range(40 if tier == "quick" else 400):
        N = int(nrng.integers(1, 300))
        nbar = int(nrng.integers(2, 9))
        sll = -float(nrng.uniform(20, 80))
        if nbar >= 8 and sll > -22:
            sll = -22.0       # see the end-point cases above
        yield ("win", {"name": "taylor", "N": N, "kw": {"nbar": nbar, "sll": sll}})
    # default-parameter requests AFTER explicit non-default ones in the same process (defaults must not be remembered)
    for name in sorted(PARAMS) + ["taylor"]:
        for N in (8, 9, 33):
            yield ("win", {"name": name, "N": N, "kw": {}})
    for N in (1, 2, 3, 8, 51, 64):
        yield ("factory", {"N": N})
    thorough = tier == "thorough"
    # --- generator arguments and values the factory does not forward / must refuse
    for N in (1, 2, 9, 64) + ((3, 65, 257) if thorough else ()):
        for mode in ("symmetric", "periodic"):
            yield ("alt", {"what": "flattop-octave", "N": N, "mode": mode})
    yield ("alt", {"what": "flattop-octave", "N": 9, "mode": "symmetric", "ntype": "int64"})
    for N in (9, 1, 64):
        for name, kw in (("tukey", {"r": -0.1}), ("tukey", {"r": 1.1}), ("flattop", {"mode": "foo"}),
                         ("tukey", {"r": -1e-9}), ("tukey", {"r": 1 + 1e-9}), ("flattop", {"mode": "Periodic"})):
            yield ("alt", {"what": "value-guard", "N": N, "name": name, "kw": kw})
    # --- shape parameters beyond the sampled ranges (Chebyshev: the centre clause is evaluated for >= 45 dB only, see ASSUMPTIONS)
    for att in (20.0, 30.0, 44.9, 150.0) + ((5.0, 10.0, 200.0, 300.0) if thorough else ()):
        for N in (1, 2, 3, 9, 64, 65, 200) + ((33, 128, 257, 511, 512) if thorough else ()):
            yield ("win", {"name": "chebwin", "N": N, "kw": {"attenuation": att}})
    for beta in (50.0, 300.0, 700.0) + ((100.0, 500.0) if thorough else ()):
        for N in (1, 2, 3, 9, 64, 65) + ((8, 257, 1023, 4096) if thorough else ()):
            yield ("win", {"name": "kaiser", "N": N, "kw": {"beta": beta}})
    # --- the same value as the other numeric type (3 / 3.0 / numpy scalar): the identical array
    twins = [("kaiser", {"beta": 8}, {"beta": 8.0}), ("kaiser", {"beta": 0}, {"beta": 0.0}), ("blackman", {"alpha": 0}, {"alpha": 0.0}),
             ("gaussian", {"alpha": 3}, {"alpha": 3.0}), ("poisson", {"alpha": 2}, {"alpha": 2.0}),
             ("poisson_hanning", {"alpha": 1}, {"alpha": 1.0}), ("cauchy", {"alpha": 3}, {"alpha": 3.0}),
             ("tukey", {"r": 0}, {"r": 0.0}), ("tukey", {"r": 1}, {"r": 1.0}), ("chebwin", {"attenuation": 60}, {"attenuation": 60.0}),
             ("taylor", {"nbar": 4.0}, {"nbar": 4}), ("taylor", {"sll": -30}, {"sll": -30.0}),
             ("taylor", {"nbar": 5.0, "sll": -40}, {"nbar": 5, "sll": -40.0}),
             ("gaussian", {"alpha": np.float32(1.5)}, {"alpha": 1.5}), ("kaiser", {"beta": np.int64(5)}, {"beta": 5.0}),
             ("tukey", {"r": np.float64(0.25)}, {"r": 0.25}), ("chebwin", {"attenuation": np.int32(80)}, {"attenuation": 80.0})]
    for j, (name, kw, tw) in enumerate(twins):
        for N in (1, 2, 9, 64) + ((3, 65, 255) if thorough else ()):
            yield ("win", {"name": name, "N": N, "kw": kw, "twin": tw})
    # --- the length given as a numpy integer
    for j, name in enumerate(names):
        for k, nt in enumerate(("int64", "int32") + (("int16",) if thorough else ())):
            N = [1, 2, 9, 64, 33, 3, 128][(j // 2 + 3 * k) % 7]
            kw = {}
            if name in PARAMS and (j + k) % 2:
                kw = {PARAMS[name][0]: PARAMS[name][1](nrng)}
            yield ("win", {"name": name, "N": N, "kw": kw, "ntype": nt})
    for nt, N in (("int64", 16), ("int32", 17)):
        yield ("win", {"name": "taylor", "N": N, "kw": {"nbar": 5, "sll": -35.0}, "ntype": nt})
    for i, (N, nt) in enumerate(((1, "int64"), (8, "int32"), (51, "int64"))):
        yield ("factory", {"N": N, "ntype": nt})
    # --- long windows with a shape parameter
    if thorough:
        for name in pn:
            key, f = PARAMS[name]
            for N in (1023, 4096):
                yield ("win", {"name": name, "N": N, "kw": {key: f(nrng)}})
        for N in (1023, 4096):
            yield ("win", {"name": "taylor", "N": N, "kw": {"nbar": int(nrng.integers(2, 8)), "sll": -float(nrng.uniform(22, 80))}})
