"""C20  Every named window is a well-formed taper of the requested length."""
import numpy as np

import proto
from common import rel

TRUSTED_BASE = [
    "numpy.hamming/hanning/bartlett/kaiser are modelled by their documented closed forms (I0 by its power series); "
    "scipy.signal.windows.chebwin has no closed form in the model: the chebwin wrapper is compared with scipy's function directly "
    "by the oracle",
    "window samples are computed by the model in doubles (Float.cos/exp/...), compared at rtol 1e-9 (taylor/kaiser 1e-8)",
    "the window-name table, generator signatures and factory routing are regenerated from the live package into "
    "lean/SpecVerif/Generated/Registry.lean on every run; the alias/routing theorems are `decide`d about that table",
]
PARTIAL = ["max <= 1 for chebwin and taylor (and centre = 1 for chebwin) are evaluated by the oracle, not proved; kaiser (<= 1, > 0, centre = 1, first sample 1/I0(beta)) and the taylor centre are proved for the model's 60-term I0 series",
           "flat-top: the published coefficients sum to 1.000000003, so its bound is sum a_i (float check: 1 + 1e-8)"]
ASSUMPTIONS = ["flattop(mode='periodic') satisfies w[n] = w[N-n] (the periodic variant); the symmetric clause is read for the default mode",
               "Chebyshev windows: the centre-sample clause is evaluated for attenuation >= 45 dB and N <= 512 (the exhaustive range): a "
               "Dolph-Chebyshev window whose main lobe is narrower than the requested attenuation allows has its maximum at the end "
               "samples (scipy normalises by the maximum and warns); e.g. 50 dB, N = 2047. This is a property of the window definition, "
               "not of the wrapper"]
RULE = ("all 29 window names x N = 1..96 exhaustively (quick) / 1..512 (thorough) and sampled N up to 2048 / 16384, default and "
        "random shape parameters over their documented ranges; factory routing, alias, Window-object cases; non-trivial = N >= 3")


def _W():
    from spectrum import window
    return window


def _gen_name(name):
    W = _W()
    g = W.window_names[name]
    return g if isinstance(g, str) else g.__name__


PARAMS = {
    "kaiser": ("beta", lambda r: float(r.uniform(0, 30))),
    "blackman": ("alpha", lambda r: float(r.uniform(0, 0.5))),
    "cauchy": ("alpha", lambda r: float(r.uniform(0.1, 6))),
    "gaussian": ("alpha", lambda r: float(r.uniform(0.1, 6))),
    "poisson": ("alpha", lambda r: float(r.uniform(0.1, 6))),
    "poisson_hanning": ("alpha", lambda r: float(r.uniform(0.1, 6))),
    "tukey": ("r", lambda r: float(r.choice([0.0, 1.0, r.uniform(0.01, 0.99)]))),
    "chebwin": ("attenuation", lambda r: float(r.uniform(45, 120))),
    "flattop": ("mode", lambda r: str(r.choice(["symmetric", "periodic"]))),
}


def impl_win(p):
    W = _W()
    return [np.asarray(W.create_window(p["N"], p["name"], **p["kw"]), dtype=float)]


def model_win(p):
    g = _gen_name(p["name"])
    kw = p["kw"]
    par = []
    if g in ("window_kaiser",):
        par = [kw.get("beta", 8.6)]
    elif g == "window_blackman":
        par = [kw.get("alpha", 0.16)]
    elif g == "window_cauchy":
        par = [kw.get("alpha", 3)]
    elif g == "window_gaussian":
        par = [kw.get("alpha", 2.5)]
    elif g in ("window_poisson", "window_poisson_hanning"):
        par = [kw.get("alpha", 2)]
    elif g == "window_tukey":
        par = [kw.get("r", 0.5)]
    elif g == "window_flattop":
        par = [1.0 if kw.get("mode", "symmetric") == "periodic" else 0.0]
    elif g == "window_taylor":
        par = [float(kw.get("nbar", 4)), float(kw.get("sll", -30))]
    return ("F", proto.request("window", "F", [g, p["N"]], [par]))


def oracle_win(p):
    W = _W()
    N, name, kw = p["N"], p["name"], p["kw"]
    out = []
    tag = "%s(N=%d%s)" % (name, N, "".join(", %s=%r" % kv for kv in kw.items()))
    try:
        w = np.asarray(W.create_window(N, name, **kw))
    except Exception as e:
        return ["create_window %s raised %r" % (tag, e)]
    if w.shape != (N,) or np.iscomplexobj(w) or not np.all(np.isfinite(w)):
        return ["%s does not return N finite real samples (shape %s, finite %s)" % (tag, w.shape, bool(np.all(np.isfinite(w))))]
    periodic = (_gen_name(name) == "window_flattop" and kw.get("mode") == "periodic")
    scale = max(1.0, float(np.max(np.abs(w))))
    if periodic:
        if N > 1 and np.max(np.abs(w[1:] - w[1:][::-1])) > 1e-9 * scale:
            out.append("%s is not periodically symmetric w[n] = w[N-n]" % tag)
    elif np.max(np.abs(w - w[::-1])) > 1e-9 * scale:
        out.append("%s is not symmetric: max |w[n]-w[N-1-n]| = %.3e" % (tag, np.max(np.abs(w - w[::-1]))))
    if np.max(w) > 1 + 1e-8:
        out.append("%s has maximum %.10f > 1" % (tag, np.max(w)))
    cheb_far = (_gen_name(name) == "window_chebwin" and (N > 512 or kw.get("attenuation", 50) < 45))
    if N >= 3 and N % 2 == 1 and not periodic and not cheb_far:
        if abs(w[N // 2] - 1) > 1e-8:
            out.append("%s centre sample is %.10f, not 1" % (tag, w[N // 2]))
    if N >= 3:
        s = np.sum(w)
        if s != 0:
            e = N * np.sum(w ** 2) / s ** 2
            if e < 1 - 1e-12:
                out.append("%s has ENBW %.6f < 1" % (tag, e))
            try:
                e2 = W.Window(N, name, **kw).enbw
                if abs(e2 - e) > 1e-9 * abs(e):
                    out.append("Window(%s).enbw = %r differs from N*sum(w^2)/sum(w)^2 = %r" % (tag, e2, e))
            except Exception as ex:
                out.append("Window(%s) raised %r" % (tag, ex))
    # Window object reports the same samples and length
    try:
        o = W.Window(N, name, **kw)
        if o.N != N or len(o.data) != N or rel(np.asarray(o.data), w) > 0:
            out.append("Window(%s) does not report the same samples / length" % tag)
    except Exception as ex:
        out.append("Window(%s) raised %r" % (tag, ex))
    # the factory forwards the documented shape parameter: same as calling the generator directly
    gen = getattr(W, _gen_name(name))
    try:
        wd = np.asarray(gen(N, **kw))
        if rel(wd, w) > 0:
            out.append("create_window(%s) differs from %s(N, **kw)" % (tag, gen.__name__))
    except Exception as ex:
        out.append("%s(N, **%r) raised %r" % (gen.__name__, kw, ex))
    # closed forms of the classical wrappers
    g = _gen_name(name)
    if N >= 2:
        n = np.arange(N)
        ref = None
        if g == "window_hamming":
            ref = 0.54 - 0.46 * np.cos(2 * np.pi * n / (N - 1))
        elif g == "window_hann":
            ref = 0.5 - 0.5 * np.cos(2 * np.pi * n / (N - 1))
        elif g == "window_bartlett":
            ref = 1 - np.abs(2 * n / (N - 1) - 1)
        elif g == "window_rectangle":
            ref = np.ones(N)
        elif g == "window_chebwin":
            import scipy.signal.windows
            ref = scipy.signal.windows.chebwin(N, kw.get("attenuation", 50))
        elif g == "window_kaiser":
            from scipy.special import i0
            b = kw.get("beta", 8.6)
            ref = i0(b * np.sqrt(np.clip(1 - (2 * n / (N - 1) - 1) ** 2, 0, None))) / i0(b)
        if ref is not None and rel(w, ref) > 1e-9:
            out.append("%s differs from its closed-form definition: %.2e" % (tag, rel(w, ref)))
    return out


ALIASES = [("hann", "hanning"), ("rectangle", "rectangular"), ("bartlett", "triangular"), ("cosine", "sine"), ("lanczos", "sinc")]


def oracle_factory(p):
    W = _W()
    N = p["N"]
    out = []
    for a, b in ALIASES:
        if not np.array_equal(W.create_window(N, a), W.create_window(N, b)):
            out.append("aliases %s / %s give different arrays (N=%d)" % (a, b, N))
    names = sorted(W.window_names)
    if len(names) != 29:
        out.append("the factory accepts %d names, not 29" % len(names))
    for name in names:
        try:
            W.create_window(N, name, foo=1)
            out.append("create_window(%d, %r, foo=1) accepted an unknown parameter" % (N, name))
        except ValueError:
            pass
        except Exception as e:
            out.append("create_window(%d, %r, foo=1) raised %r instead of ValueError" % (N, name, e))
        if name in PARAMS:
            other = "beta" if PARAMS[name][0] != "beta" else "alpha"
            try:
                W.create_window(N, name, **{other: 1.0})
                out.append("create_window(%d, %r, %s=1.0) accepted a parameter of another window" % (N, name, other))
            except ValueError:
                pass
    try:
        W.create_window(N, "nosuchwindow")
        out.append("create_window accepted an unknown name")
    except (AssertionError, ValueError, KeyError):
        pass
    return out


def _key(p):
    return "%s|%s|%s" % (p.get("name"), p["N"], sorted(p.get("kw", {}).items()))


KINDS = {
    "win": {"impl": impl_win, "model": model_win, "oracle": oracle_win, "rtol": 1e-9, "atol": 1e-13, "key": _key,
            "nontrivial": lambda p: p["N"] >= 3,
            "tags": lambda p: ["win:" + p["name"], "N:" + ("odd" if p["N"] % 2 else "even"), "params:" + ("default" if not p["kw"] else "given")]},
    "factory": {"oracle": oracle_factory, "key": _key, "tags": lambda p: ["factory"]},
}


def oracle_alt(p):
    """alternative arguments of the generator functions that the factory does not forward: the same window must come out"""
    W = _W()
    N = p["N"]
    out = []
    if p["what"] == "kaiser-method":
        w = np.asarray(W.window_kaiser(N, p["beta"], method="scipy"))
        ref = np.kaiser(N, p["beta"])
        if w.shape != (N,) or not np.all(np.isfinite(w)) or rel(w, ref) > 1e-9:
            out.append("window_kaiser(N=%d, beta=%g, method='scipy') returns %d samples / differs from the Kaiser window (numpy.kaiser) by %.2e" % (
                N, p["beta"], w.size, rel(w, ref) if w.shape == ref.shape else float("inf")))
    if p["what"] == "name-case":
        # the factory accepts a name in any letter case (it lower-cases it); the Window object must report the same samples for
        # every name the factory accepts
        for nm in (p["name"].upper(), p["name"].title()):
            ref = np.asarray(W.create_window(N, nm), dtype=float)
            if rel(ref, np.asarray(W.create_window(N, p["name"]), dtype=float)) > 0:
                out.append("create_window(%d, %r) differs from create_window(%d, %r)" % (N, nm, N, p["name"]))
            try:
                o = W.Window(N, nm)
                if o.N != N or rel(np.asarray(o.data, dtype=float), ref) > 0:
                    out.append("Window(%d, %r) does not report the samples of create_window(%d, %r)" % (N, nm, N, nm))
            except ValueError as e:
                out.append("the factory accepts the window name %r but Window(%d, %r) raises ValueError" % (nm, N, nm))
                break
    return out


KINDS["alt"] = {"oracle": oracle_alt, "key": lambda p: "alt|%s|%d|%s|%s" % (p["what"], p["N"], p.get("beta"), p.get("name")),
                "tags": lambda p: ["alt:" + p["what"]]}


def gen(rng, nrng, tier):
    W = _W()
    for N in (1, 2, 3, 8, 9, 64, 65):
        for beta in (0.0, 8.6, 30.0):
            yield ("alt", {"what": "kaiser-method", "N": N, "beta": beta})
    for j, name in enumerate(sorted(W.window_names)):
        yield ("alt", {"what": "name-case", "N": [8, 9, 33][j % 3], "name": name})
    names = sorted(W.window_names)
    maxex = 96 if tier == "quick" else 512
    for name in names:
        for N in range(1, maxex + 1):
            if tier == "quick" and N > 40 and (N + len(name)) % 3:
                continue
            yield ("win", {"name": name, "N": N, "kw": {}})
    big = [127, 128, 255, 256, 511, 512, 1023, 1024, 2047, 2048] + ([4095, 4096, 8191, 16384] if tier == "thorough" else [])
    for name in names:
        for N in big:
            if name in ("taylor", "chebwin") and N > 2048:
                continue
            yield ("win", {"name": name, "N": N, "kw": {}})
    # shape parameters over their ranges; the same N requested repeatedly with different parameters
    n_par = 250 if tier == "quick" else 4000
    pn = sorted(PARAMS)
    for i in range(n_par):
        name = pn[i % len(pn)]
        key, f = PARAMS[name]
        N = [7, 8, 33, 64][i % 4] if i % 3 == 0 else int(nrng.integers(1, 200))
        yield ("win", {"name": name, "N": N, "kw": {key: f(nrng)}})
    # the end points of every shape parameter's range
    ends = {"kaiser": ("beta", [0.0, 30.0]), "blackman": ("alpha", [0.0, 0.5]), "cauchy": ("alpha", [0.0, 6.0]),
            "gaussian": ("alpha", [0.0, 6.0]), "poisson": ("alpha", [0.0, 6.0]), "poisson_hanning": ("alpha", [0.0, 6.0]),
            "tukey": ("r", [0.0, 1.0, 1e-9, 1 - 1e-9]), "chebwin": ("attenuation", [45.0, 120.0])}
    for name in sorted(ends):
        key, vals = ends[name]
        for v in vals:
            for N in ((2, 9, 64) if tier == "quick" else (1, 2, 3, 9, 64, 65, 257)):
                yield ("win", {"name": name, "N": N, "kw": {key: v}})
    # (nbar=8, sll=-20) is left out: there the Taylor design itself is no longer a monotone taper (edge samples exceed the
    # centre by 1.3e-4; scipy.signal.windows.taylor agrees to 1e-16), so "maximum <= 1" is not a statement about the code
    # one of the two Taylor parameters given, the other left to its documented default
    for N in (3, 16, 33):
        for kw in ({"nbar": 3}, {"nbar": 6}, {"sll": -40.0}, {"sll": -25.0}):
            yield ("win", {"name": "taylor", "N": N, "kw": kw})
    for nbar, sll in ((2, -20.0), (8, -80.0), (2, -80.0), (8, -22.0), (7, -20.0), (1, -30.0)):
        for N in (2, 9, 64):
            yield ("win", {"name": "taylor", "N": N, "kw": {"nbar": nbar, "sll": sll}})
    for i in range(40 if tier == "quick" else 400):
        N = int(nrng.integers(1, 300))
        nbar = int(nrng.integers(2, 9))
        sll = -float(nrng.uniform(20, 80))
        if nbar >= 8 and sll > -22:
            sll = -22.0       # see the end-point cases above
        yield ("win", {"name": "taylor", "N": N, "kw": {"nbar": nbar, "sll": sll}})
    # default-parameter requests AFTER explicit non-default ones in the same process (defaults must not be remembered)
    for name in sorted(PARAMS) + ["taylor"]:
        for N in (8, 9, 33):
            yield ("win", {"name": name, "N": N, "kw": {}})
    for N in (1, 2, 3, 8, 51, 64):
        yield ("factory", {"N": N})
