"""C02  Every estimator puts spectral values on the frequency axis it reports."""
import numpy as np

import proto
import classes as C
from common import rel

TRUSTED_BASE = [
    "class glue correspondence: the raw two-sided estimate comes from the implementation's functional API (tied to the model under "
    "C01/C08/C12-C17/C19), the model applies slice/double/reverse and scale(); axes: Range.* vs the model's rangeBins * df",
    "float mode rtol 1e-9",
    "MUSIC / EV selection arguments ('subglue'): music() / ev() of the functional API called with the same threshold / criteria / NSIG "
    "give the raw centre-DC estimate, the model folds it; the class must hand the arguments through unchanged (rtol 1e-9; the two sides "
    "run the same SVD, observed difference 0)",
    "placement oracle ('place'): numpy evaluation of c*rho/fs*|B(f_j)|^2/|A(f_j)|^2 at the frequencies the object reports, from the "
    "coefficients the object stores (aryule's rho for pyule, which does not store it); per-entry rtol 1e-9 (library: <= 1e-13)",
]
PARTIAL = ["'a dominant tone in noise peaks within one bin / the main-lobe half-width' for Burg, Yule-Walker, ARMA, minimum variance, "
           "multitaper and real sinusoids is a perturbation statement about the spectrum function, not about indexing: evaluated by "
           "the oracle with the stated tolerances; the placement theorems (entry j = c_j * spectrum at the frequency reported at j) and "
           "the exact-bin theorems for the periodogram and MUSIC/EV are proved",
           "placement of the model-based estimates (Burg, Yule-Walker, covariance, modified covariance, ARMA, MA) is checked entry by "
           "entry against the rational spectrum of the stored coefficients evaluated at frequencies()[j]; for minimum variance, "
           "multitaper, periodogram, correlogram, MUSIC and EV the independent placement evidence is the tone clause"]
ASSUMPTIONS = ["tone amplitude 1, noise 1e-3; real sinusoids at least 4 main-lobe widths from 0 and sampling/2",
               "main-lobe half-widths of the statement (in NFFT bins): periodogram 2*NFFT/N+1, correlogram NFFT/lag+1, multitaper "
               "NW*NFFT/N+1, parametric/subspace 1+NFFT/N; ARMA at non-default orders: NFFT/(lag-Q+P)+1 (the AR part is a fit to the "
               "lag-Q+P correlation lags Q-P+1..lag only)",
               "allowed distance of the maximum, complex on-grid exponential: 0 bins for periodogram, correlogram, covariance, modified "
               "covariance, MUSIC, EV (the statement) and for Burg, Yule-Walker, minimum variance, ARMA at the default orders and the "
               "eigen-weighted multitaper at NW=2.5, k=4 (the statement allows one bin / the taper bandwidth; 0 is what the unchanged "
               "library does on > 10^5 cases and at 100 times the noise); one bin for ARMA and the eigen-weighted multitaper at other "
               "configurations; unity / adaptive multitaper: NW*NFFT/N, at NW=2.5, k=4 min(NW*NFFT/N, 1.5*NFFT/N+1)",
               "allowed distance, real sinusoid: min(half-width, observed + 1 bin): 0 for covariance, modified covariance and for "
               "MUSIC / EV at order 6, NSIG 2; 2 for Burg; 1 for periodogram, correlogram, Yule-Walker, minimum variance, ARMA at the "
               "default orders, MUSIC / EV at other orders, eigen-weighted multitaper; unity / adaptive multitaper at NW=2.5, k=4 "
               "min(half-width, 1.75*NFFT/N+1); the half-width itself for ARMA and unity / adaptive multitaper at other configurations",
               "tone cases at non-default configurations: AR order >= 1 (complex) / >= 2 (real), ARMA order exactly 2 for real data (a "
               "spare real pole is placed by the noise alone: ill-conditioned), minimum variance order >= 3, correlogram lag >= 4, "
               "non-negative data / lag windows (flattop, lanczos, sinc have negative samples and may legitimately peak one bin off); "
               "MUSIC / EV: number of exponentials <= NSIG <= order-2 or NSIG = order-1 = number of exponentials (a single noise vector "
               "with spare roots has spurious nulls), NSIG chosen by the library (aic, mdl, threshold 2) at order = number of "
               "exponentials + 1, threshold 100 at any order",
               "MUSIC / EV with the subspace chosen by threshold / criteria / NSIG: the 'finite' clause is evaluated on noisy records and on "
               "noiseless records whose components lie BETWEEN the bins (a noiseless exponential exactly on a bin is an exact null of the "
               "noise subspace: the pseudo-spectrum is 1/0 there; observed inf for on-grid noiseless records and for the 'dominant DC' "
               "record derived from a noiseless one, so noiseless / impulse records get no derived degenerate records); tone clause at "
               "threshold < 100 and criteria aic / mdl only at order = number of exponentials + 1, threshold 100 at any larger order, "
               "threshold 1e9 (NSIG 0 -> 1) for one complex exponential, explicit NSIG as above",
               "option maxima (short records, 12..17 samples): generic noisy records only (no derived scaled / degenerate records: the fits "
               "are exactly determined or nearly so); adaptive multitaper with k >= 2",
               "amplitude: MUSIC / EV on records scaled by 1e-190 .. 1e158 (measured exact on the unchanged library from 1e-200 to 1e165); the "
               "other classes form products of samples: records ALL of whose samples are below ~1e-162 or above ~1e154 are outside the float "
               "range there (ruling, DESIGN 0.9) - generated at 1e-140 .. 1e140 (measured exact from 1e-150 to 1e150); parma at 1e-30 / 1e30 "
               "only (measured exact from 1e-40 to 1e30; outside: maximum 2 bins off at 1e-50, nan / inf below 1e-80 and above 1e40 - "
               "pending finding /tmp/finding_C02.py)",
               "shape clause through constructor defaults: list / integer / float32 / complex-with-zero-imaginary data, integer "
               "sampling, numpy-integer NFFT, o() and o.run() entry points, N in 6..16 with minimal orders"]
RULE = ("14 estimator class variants x real/complex x N in {32,33,47,64} x NFFT in {None, nextpow2, 64, 65, 2N, 2N+1, 97} (full product "
        "in the thorough tier; every class meets every NFFT choice in each quick run) x sampling x tone bin k (positive, negative and "
        "boundary bins 0, +-1, +-NFFT/2, +-(NFFT//2-1)) x default / random / boundary configurations; entry-by-entry placement of the "
        "6 model-based classes x real/complex x N in {32,33} x NFFT in {None, nextpow2, 64, 65} x sampling in {1, 250}; constructor "
        "defaults x data containers / dtypes x entry points; MUSIC / EV x every documented way of choosing the signal subspace "
        "(threshold exactly 1 as int / float / numpy float64, int64, float32; 1+1e-12, 1+2^-52, 1.5, 2, 3, 100, 1e9; criteria aic / mdl; "
        "explicit NSIG 0, random, number of exponentials, P-1) x order 2..9 and the largest admissible order 2N/3 x records (noise + "
        "tones, one tone in noise 1e-3, 1..3 noiseless off-grid components with noise singular values at round-off, impulse / impulse "
        "train records with exactly tied or exactly zero singular values) x real/complex x N x NFFT x sampling: shape clause always, "
        "tone clause where stated, and for a third of the noisy records the class estimate against the functional API called with the "
        "same selection arguments folded by the model; every class at the maxima of its option ranges on records of 12..17 samples "
        "(lag N-1, Burg order N-2, Yule-Walker N-1, covariance N/2-1, minimum variance N/2, ARMA / MA longest lag, MUSIC / EV order 2N/3 "
        "with NSIG 0, 1, P-1, multitaper NW just below N/2 with k = 1, 2, 2NW); records of extreme amplitude (kind `scale`): MUSIC / EV x "
        "real/complex x tone records (default order or any subspace choice inside the tone clause's domain) and noise records scaled by "
        "1e-190, 1e-170, 1e-165, 1e-150, 1e140, 1e155, 1e158 (these two never multiply two samples), every other class x tone records "
        "scaled by 1e-140, 1e-100, 1e100, 1e140 (parma: 1e-30, 1e30, pending finding): shape clause and the tone clause with the allowed "
        "distance of amplitude 1; non-trivial = all")

SIDES = ["onesided", "twosided", "centerdc"]


def impl_glue(p):
    o = C.make(p["cls"], p["x"], p["nfft"], p["fs"], False, p.get("cfg"))
    return [np.asarray(o.psd)]


def model_glue(p):
    x = np.asarray(p["x"])
    nfft = C.resolved_nfft(x, p["nfft"])
    raw = C.raw_two_sided(p["cls"], x, nfft, p["fs"], p.get("cfg"))
    return C.glue_request(p["cls"], raw, np.isrealobj(x), nfft, False, p["fs"])


def oracle_shape(p):
    x = np.asarray(p["x"])
    cls = p["cls"]
    if cls in ("pmusic", "pev") and p.get("cfg") and ("criteria" in p["cfg"] or "threshold" in p["cfg"]):
        o = _build(dict(p, x=x))
    else:
        o = C.make(cls, x, p["nfft"], p["fs"], False, p.get("cfg"))
    psd = np.asarray(o.psd)
    f = np.asarray(o.frequencies())
    nfft = C.resolved_nfft(x, p["nfft"])
    out = []
    tag = "%s %s N=%d NFFT=%s" % (cls, "complex" if np.iscomplexobj(x) else "real", len(x), p["nfft"])
    if p.get("cfg") and cls in ("pmusic", "pev"):
        tag += " cfg=%s" % (p["cfg"],)
    if o.NFFT != nfft:
        out.append("%s: NFFT attribute is %r, expected %d" % (tag, o.NFFT, nfft))
    L = C.expected_len(np.isrealobj(x), nfft)
    if len(psd) != L:
        out.append("%s: psd has %d values, expected %d" % (tag, len(psd), L))
    if len(f) != len(psd):
        out.append("%s: %d psd values but frequencies() returns %d" % (tag, len(psd), len(f)))
    if np.iscomplexobj(psd) or not np.all(np.isfinite(psd)):
        out.append("%s: psd is not real and finite (%d of %d values are not finite)" % (tag, int(np.sum(~np.isfinite(psd))), len(psd)))
    for sd in ("onesided", "twosided", "centerdc"):
        if sd == "onesided" and np.iscomplexobj(x):
            continue
        fl = len(o.frequencies(sd))
        ex = nfft if sd != "onesided" else C.expected_len(True, nfft)
        if fl != ex:
            out.append("%s: frequencies('%s') has %d entries, expected %d (sampling=%g)" % (tag, sd, fl, ex, p["fs"]))
    if len(f) == L and rel(f, np.arange(L) * p["fs"] / nfft) > 1e-12:
        out.append("%s: frequencies() is not k*sampling/NFFT" % tag)
    return out


def impl_axis(p):
    from spectrum.psd import Range
    r = Range(p["n"], p["fs"])
    return [np.asarray(r.onesided()), np.asarray(r.twosided()), np.asarray(r.centerdc())]


def model_axis(p):
    # three requests folded into one line is not possible: use the convhist-free rangebins command three times via post
    return ("F", proto.request("rangebins", "F", ["onesided", p["n"]], []))


def post_axis(p, iv, mv):
    n, fs = p["n"], p["fs"]
    df = fs / n
    reps = proto.run_driver([proto.request("rangebins", "F", [s, n], []) for s in SIDES])
    M = [np.real(proto.parse_reply(r, "F")[1][0]) * df for r in reps]
    return iv, M


_THR_TYPES = {"int": int, "float": float, "float64": np.float64, "int64": np.int64, "float32": np.float32}


def _thr(cfg):
    """the `threshold` argument in the scalar type named by cfg['thr_type'] (replay files hold plain JSON numbers)"""
    v = cfg["threshold"]
    t = cfg.get("thr_type")
    return _THR_TYPES[t](v) if t in _THR_TYPES else v


def _make(cls, x, cfg, **kw):
    """the constructor call of C.make with the keyword arguments left to the caller: the ones not given take the constructor's own
    defaults (scale_by_freq, NFFT, sampling); pmusic / pev also take `criteria` and `threshold` from cfg"""
    s = C.sp()
    if cls == "Periodogram":
        return s.Periodogram(x, window=cfg.get("window", "hann"), **kw)
    if cls == "pcorrelogram":
        return s.pcorrelogram(x, lag=cfg["lag"], window=cfg.get("window", "hamming"), **kw)
    if cls == "pburg":
        return s.pburg(x, cfg["order"], criteria=cfg.get("criteria"), **kw)
    if cls == "pyule":
        return s.pyule(x, cfg["order"], **kw)
    if cls == "pcovar":
        return s.pcovar(x, cfg["order"], **kw)
    if cls == "pmodcovar":
        return s.pmodcovar(x, cfg["order"], **kw)
    if cls == "parma":
        return s.parma(x, cfg["order"], cfg["Q"], cfg["lag"], **kw)
    if cls == "pma":
        return s.pma(x, cfg["Q"], cfg["M"], **kw)
    if cls == "pminvar":
        return s.pminvar(x, cfg["order"], **kw)
    if cls in ("pmusic", "pev"):
        extra = dict((k, cfg[k]) for k in ("criteria", "threshold") if k in cfg)
        if "threshold" in cfg:
            extra["threshold"] = _thr(cfg)
        extra.update(kw)
        return getattr(s, cls)(x, cfg["order"], NSIG=cfg.get("nsig"), **extra)
    if cls.startswith("MT-"):
        return s.MultiTapering(x, NW=cfg.get("NW", 2.5), k=cfg.get("k"), method=cls[3:], **kw)
    raise ValueError(cls)


def _build(p, cfg=None):
    """the estimator object of a tone / place case (scale_by_freq=False as in C.make)"""
    cfg = cfg or p.get("cfg") or C.default_cfg(p["cls"], len(p["x"]), np.iscomplexobj(p["x"]))
    if p["cls"] in ("pmusic", "pev") and ("criteria" in cfg or "threshold" in cfg):
        return _make(p["cls"], p["x"], cfg, NFFT=p["nfft"], sampling=p["fs"], scale_by_freq=False)
    return C.make(p["cls"], p["x"], p["nfft"], p["fs"], False, cfg)


# ---- placement: entry j of the model-based estimates is the rational spectrum at the frequency reported at j -------------------------

def _poly_at(c, f, fs):
    """1 + sum_m c_m exp(-2 pi i f m / fs) at every f (direct evaluation, no FFT)"""
    if c is None or len(c) == 0:
        return np.ones(len(f), dtype=complex)
    c = np.asarray(c, dtype=complex)
    m = np.arange(1, len(c) + 1)
    return 1.0 + np.exp(-2j * np.pi * np.outer(f, m) / fs).dot(c)


def oracle_place(p):
    cls = p["cls"]
    x = np.asarray(p["x"])
    fs = p["fs"]
    cfg = p.get("cfg") or C.default_cfg(cls, len(x), np.iscomplexobj(x))
    o = _build(p, cfg)
    psd = np.asarray(o.psd)
    f = np.asarray(o.frequencies(), dtype=float)
    tag = "%s %s N=%d NFFT=%s fs=%g cfg=%s" % (cls, "complex" if np.iscomplexobj(x) else "real", len(x), p["nfft"], fs, cfg)
    if len(psd) != len(f):
        return ["%s: %d psd values but frequencies() returns %d" % (tag, len(psd), len(f))]
    ar = None if cls == "pma" else o.ar
    ma = o.ma if cls in ("parma", "pma") else None
    if cls == "pyule":
        rho = C.sp().aryule(x, cfg["order"])[1]       # pyule does not keep the driving-noise variance
    else:
        rho = o.rho
    if cls != "pma" and (ar is None or len(ar) != cfg["order"]):
        return ["%s: the object stores %r AR parameters, expected %d" % (tag, None if ar is None else len(ar), cfg["order"])]
    if cls in ("parma", "pma") and (ma is None or len(ma) != cfg["Q"]):
        return ["%s: the object stores %r MA parameters, expected %d" % (tag, None if ma is None else len(ma), cfg["Q"])]
    c = 1.0 if np.iscomplexobj(x) else 2.0
    ref = c * float(np.real(rho)) / fs * np.abs(_poly_at(ma, f, fs)) ** 2 / np.abs(_poly_at(ar, f, fs)) ** 2
    if not np.all(np.isfinite(ref)) or np.any(ref <= 0):
        return []          # a pole / zero exactly on a reported frequency: nothing to compare
    e = np.abs(psd - ref) / ref
    j = int(np.argmax(e))
    if not e[j] <= 1e-9:
        return ["%s: psd[%d] = %.12g but the spectrum of the stored coefficients at frequencies()[%d] = %.6g is %.12g (relative "
                "difference %.2e)" % (tag, j, psd[j], j, f[j], ref[j], e[j])]
    return []


# ---- shape through the constructor defaults and the other entry points -------------------------------------------------------------

def oracle_entry(p):
    """length / axis / realness clause for an object built as a user would: keyword arguments in p['kw'] only (the others take the
    constructor defaults), data of any accepted container / dtype, evaluation through .psd, o() or o.run()"""
    cls = p["cls"]
    data = p["x"]
    xa = np.asarray(data)
    N = len(xa)
    cplx = np.iscomplexobj(xa)
    kw = dict(p.get("kw") or {})
    cfg = p.get("cfg") or C.default_cfg(cls, N, cplx)
    o = _make(cls, data, cfg, **kw)
    if p.get("entry") == "call":
        o()
    elif p.get("entry") == "run":
        o.run()
    psd = np.asarray(o.psd)
    f = np.asarray(o.frequencies())
    nf = kw.get("NFFT")
    nfft = int(C.resolved_nfft(xa, nf if (nf is None or isinstance(nf, str)) else int(nf)))
    fs = float(kw.get("sampling", 1.0))
    tag = "%s %s %s N=%d kw=%r entry=%s" % (cls, type(data).__name__, xa.dtype, N, kw, p.get("entry", "psd"))
    out = []
    if o.NFFT != nfft:
        out.append("%s: NFFT attribute is %r, expected %d" % (tag, o.NFFT, nfft))
    L = C.expected_len(not cplx, nfft)
    if len(psd) != L:
        out.append("%s: psd has %d values, expected %d" % (tag, len(psd), L))
    if len(f) != len(psd):
        out.append("%s: %d psd values but frequencies() returns %d" % (tag, len(psd), len(f)))
    if psd.dtype.kind != "f" or not np.all(np.isfinite(psd)):
        out.append("%s: psd is not real and finite (dtype %s)" % (tag, psd.dtype))
    if o.sides != ("twosided" if cplx else "onesided"):
        out.append("%s: sides is %r" % (tag, o.sides))
    if len(f) == L and rel(f, np.arange(L) * fs / nfft) > 1e-12:
        out.append("%s: frequencies() is not k*sampling/NFFT" % tag)
    return out


def _half_width(cls, N, nfft, cfg):
    if cls == "Periodogram":
        return 2.0 * nfft / N + 1
    if cls == "pcorrelogram":
        return float(nfft) / cfg["lag"] + 1
    if cls.startswith("MT"):
        return cfg.get("NW", 2.5) * nfft / N + 1
    return 1.0 + float(nfft) / N


EXACT = ("Periodogram", "pcorrelogram", "pcovar", "pmodcovar", "pmusic", "pev")
ONE_BIN = ("pburg", "pyule", "parma", "pminvar")


def _tone_dev(p):
    """(distance in NFFT bins between the reported frequency of the maximum and the tone, allowed distance, message) or a string when
    psd and frequencies() do not even have the same length"""
    cls = p["cls"]
    x = np.asarray(p["x"])
    nfft = C.resolved_nfft(x, p["nfft"])
    fs = p["fs"]
    cfg = p.get("cfg") or C.default_cfg(cls, len(x), np.iscomplexobj(x))
    o = _build(p, cfg)
    psd = np.asarray(o.psd)
    f = np.asarray(o.frequencies())
    if len(psd) != len(f):
        return "%s: %d psd values but %d frequencies" % (cls, len(psd), len(f))
    am = int(np.argmax(psd))
    k = p["k"]
    df = fs / nfft
    if np.iscomplexobj(x):
        fexp = (k % nfft) * df
        d = abs(f[am] - fexp) / df
        d = min(d, nfft - d)
        tol = _TOL_COMPLEX(cls, len(x), nfft, cfg, p.get("cfg") is not None)
        msg = ("%s (complex, N=%d, NFFT=%s, fs=%g, cfg=%s): tone at bin %d (frequency %.5g) but the maximum is reported at frequency "
               "%.5g (%.2f bins away, allowed %.2f)" % (cls, len(x), p["nfft"], fs, p.get("cfg"), k, fexp, f[am], d, tol))
    else:
        fexp = abs(k) * df
        d = abs(f[am] - fexp) / df
        tol = _TOL_REAL(cls, len(x), nfft, cfg, p.get("cfg") is not None)
        msg = ("%s (real, N=%d, NFFT=%s, fs=%g, cfg=%s): sinusoid at |f| = %.5g but the maximum is reported at %.5g (%.2f bins away, "
               "allowed %.2f)" % (cls, len(x), p["nfft"], fs, p.get("cfg"), fexp, f[am], d, tol))
    return d, tol, msg


# Tolerances.  The statement's allowances (one bin / taper bandwidth / main-lobe half-width) are upper bounds; where the unchanged library
# is observed to do better on every case (>= 10^5 tone cases over seeds 0..11 quick and 4 thorough-sized samples, and still at 100 times
# the noise amplitude for the entries set to 0), the oracle asks for the observed distance plus one bin of margin, never more than the
# statement's allowance.  Distances are whole bins, so "0" means the maximum sits on the tone's own entry.
_EXACT_COMPLEX_OBSERVED = ("pburg", "pyule", "pminvar")       # statement: one bin; observed 0 (peak/neighbour ratio >= 2.6)
_EXACT_REAL_OBSERVED = ("pcovar", "pmodcovar")                 # exact for a noiseless sinusoid (Prony); observed 0, ratio >= 2.8e5


def _TOL_COMPLEX(cls, N, nfft, cfg, custom=False):
    r = float(nfft) / N
    if cls in EXACT or cls in _EXACT_COMPLEX_OBSERVED:
        return 0.0
    if cls == "parma":
        return 1.0 if custom else 0.0          # default orders: observed 0 (ratio >= 2e4); other orders: the statement's one bin
    if cls == "MT-eigen":
        # eigenvalue weights: observed 0 for every (N, NFFT, NW, k) met, also at 100 times the noise (the shape of the weighted sum of
        # taper spectra is fixed by the tapers); one bin of margin away from NW=2.5, k=4
        return min(1.0 if custom else 0.0, cfg.get("NW", 2.5) * r)
    stated = cfg.get("NW", 2.5) * r
    if not custom:
        return min(stated, 1.5 * r + 1)                       # unity / adaptive weights at NW=2.5, k=4: observed <= 1.5 N-grid bins
    return stated


def _TOL_REAL(cls, N, nfft, cfg, custom):
    stated = _half_width(cls, N, nfft, cfg)
    r = float(nfft) / N
    if cls in _EXACT_REAL_OBSERVED:
        return 0.0
    if cls in ("pmusic", "pev") and not custom:
        return 0.0                                            # NSIG = 2 = number of exponentials: exact null; observed 0, ratio >= 3e5
    if cls == "pburg":
        return min(stated, 2.0)                               # observed <= 1
    if cls == "parma":
        if not custom:
            return min(stated, 1.0)                           # observed 0
        # the AR part is a covariance-method fit to the lag-Q+P correlation lags Q-P+1..lag only (modified Yule-Walker equations): the
        # estimator's resolution is that of a record of lag-Q+P samples, as the correlogram's is that of its lag count.  Observed: up to
        # 3.5 N-grid bins (0.29 of this width) for P=2, Q=3, lag=5, where the two AR parameters are fitted to exactly four lags
        return float(nfft) / (cfg["lag"] - cfg["Q"] + cfg["order"]) + 1
    if cls in ("MT-unity", "MT-adapt"):
        return min(stated, 1.75 * r + 1) if not custom else stated       # NW=2.5, k=4: observed <= 1.67 N-grid bins
    return min(stated, 1.0)                                   # observed 0 for periodogram, correlogram, Yule-Walker, minimum variance,
    #                                                           MUSIC / EV at other orders, eigen-weighted multitaper


def oracle_tone(p):
    if p["cls"] == "pma":
        # the MA model is exempt from the tone clause; the shape clause holds for this record all the same
        return oracle_shape(p)
    r = _tone_dev(p)
    if isinstance(r, str):
        return [r]
    d, tol, msg = r
    if d > tol + 1e-9:
        return [msg]
    return []


def _key(p):
    if "cls" not in p:
        return "axis|%d|%g" % (p["n"], p["fs"])
    x = np.asarray(p["x"])
    extra = ""
    if p.get("cfg") is not None or "kw" in p:
        extra = "|%s|%s|%s" % (sorted((p.get("cfg") or {}).items()), sorted((k, str(v)) for k, v in (p.get("kw") or {}).items()),
                               p.get("entry"))
    return "%s|%d|%s|%s|%s|%s|%d%s" % (p["cls"], len(x), p["nfft"], p["fs"], p.get("k"), np.iscomplexobj(x),
                                       hash(x.tobytes()) & 0xFFFFF, extra)


def _tags(p):
    if "cls" not in p:
        return ["axis:" + ("odd" if p["n"] % 2 else "even")]
    n = p["nfft"]
    x = np.asarray(p["x"])
    out = ["cls:" + p["cls"], "complex" if np.iscomplexobj(x) else "real",
           "nfft:%s" % (n if not isinstance(n, (int, np.integer)) else ("odd" if n % 2 else "even")), "N:" + ("odd" if len(x) % 2 else "even")]
    if p.get("cfg") is not None:
        out.append("cfg:given")
    if "kw" in p:
        out += ["data:%s/%s" % (type(p["x"]).__name__, x.dtype), "entry:" + p.get("entry", "psd")]
        out += ["default:" + k for k in ("NFFT", "sampling", "scale_by_freq") if k not in p["kw"]]
    return out


# kinds whose parameters describe the content of x: no derived degenerate records
NO_DEGEN = {"tone"}

KINDS = {
    "glue": {"impl": impl_glue, "model": model_glue, "oracle": oracle_shape, "rtol": 1e-9, "atol": 1e-300, "key": _key, "tags": _tags},
    "axis": {"impl": impl_axis, "model": model_axis, "post": post_axis, "rtol": 1e-13, "atol": 0.0, "key": _key, "tags": _tags},
    "tone": {"oracle": oracle_tone, "key": _key, "tags": _tags},
    "place": {"oracle": oracle_place, "key": _key, "tags": _tags},
    "entry": {"oracle": oracle_entry, "key": _key, "tags": _tags},
}


def _tone_data(nrng, N, nfft, k, cplx):
    n = np.arange(N)
    if cplx:
        return np.exp(2j * np.pi * k * n / nfft + 1j * nrng.uniform(0, 6)) + 1e-3 * (nrng.standard_normal(N) + 1j * nrng.standard_normal(N))
    return np.cos(2 * np.pi * k * n / nfft + nrng.uniform(0, 6)) + 1e-3 * nrng.standard_normal(N)


def _pick(nrng, seq):
    return seq[int(nrng.integers(0, len(seq)))]


def _nonneg_windows(n):
    """names of the windows without negative samples at length n (flattop, lanczos, sinc are excluded: a window with negative samples
    does not have its transform's maximum modulus at 0 in general)"""
    from spectrum.window import window_names, create_window
    out = []
    for w in sorted(window_names):
        try:
            if float(np.min(create_window(n, w))) > -1e-12:
                out.append(w)
        except Exception:
            pass
    return out


_NNW = {}


def _nnw(n):
    if n not in _NNW:
        _NNW[n] = _nonneg_windows(n)
    return _NNW[n]


def _tone_cfg(nrng, cls, N, cplx):
    """a configuration in the domain of the tone clause: the model can hold the tone (AR order >= number of exponentials, NSIG >= number
    of exponentials or chosen by the library's criteria), the window cannot move the maximum (non-negative samples)"""
    ne = 1 if cplx else 2
    if cls == "Periodogram":
        return {"window": _pick(nrng, _nnw(N))}
    if cls == "pcorrelogram":
        lag = int(nrng.integers(4, N // 2))
        return {"lag": lag, "window": _pick(nrng, _nnw(2 * lag + 1))}
    if cls in ("pburg", "pyule"):
        return {"order": int(nrng.integers(ne, 13))}
    if cls == "pminvar":
        return {"order": int(nrng.integers(3, min(N // 2, 12) + 1))}
    if cls in ("pcovar", "pmodcovar"):
        return {"order": int(nrng.integers(ne, 11))}
    if cls == "parma":
        # real data: exactly the two poles of the sinusoid.  A spare real pole (odd order) is placed by the noise alone and lands closer
        # to the unit circle than the tone's pair about once in 4000 records (observed: order 3, Q 2, lag 7, maximum at frequency 0):
        # an ill-conditioned fit, not a placement on the axis
        P = int(nrng.integers(1, 4)) if cplx else 2
        Q = int(nrng.integers(1, 4))
        lo = max(Q, 2 * P) + 1
        return {"order": P, "Q": Q, "lag": int(nrng.integers(lo, lo + 5))}
    if cls == "pma":
        return C.random_cfg(nrng, cls, N)
    if cls in ("pmusic", "pev"):
        # the noise subspace keeps at least two vectors, or has no spare root: with a single noise vector of P-1 > ne roots (Pisarenko)
        # a spare root on the unit circle gives a deeper null than the tone's (observed: order 5, criteria 'mdl' -> NSIG 4, one real
        # sinusoid, maximum at frequency 0) - a property of the method, not of the axis.  The library's own choice of NSIG (aic, mdl,
        # threshold 2: all may take every value up to P-1) is therefore exercised at P = ne+1, threshold 100 (which separates the tone,
        # 1000 times the noise, from the noise) at any P >= ne+2
        w = int(nrng.integers(0, 6))
        if w == 0:
            return {"order": ne + 1, "nsig": None, "criteria": "aic"}
        if w == 1:
            return {"order": ne + 1, "nsig": None, "criteria": "mdl"}
        if w == 2:
            return {"order": ne + 1, "nsig": None, "threshold": 2}
        if w == 3:
            return {"order": int(nrng.integers(ne + 2, 9)), "nsig": None, "threshold": 100}
        P = int(nrng.integers(3, 9))
        return {"order": P, "nsig": int(nrng.integers(ne, max(ne, P - 2) + 1))}
    if cls.startswith("MT"):
        return C.random_cfg(nrng, cls, N)
    raise ValueError(cls)


def _real_k(nrng, cls, N, nfft, cfg):
    lo = int(np.ceil(4 * _half_width(cls, N, nfft, cfg)))
    hi = nfft // 2 - lo
    if hi <= lo:
        return nfft // 4
    return int(nrng.integers(lo, hi))


def _boundary_ks(nfft):
    h = nfft // 2
    ks = [0, 1, -1, h - 1, -(h - 1)]
    ks += [h, -h] if nfft % 2 == 0 else [(nfft - 1) // 2, -((nfft - 1) // 2)]
    out = []
    for k in ks:
        if k not in out:
            out.append(k)
    return out


NFFT7 = [None, "nextpow2", 64, 65, "2N", "2N+1", 97]
NFFT6 = [None, "nextpow2", 64, 65, 96, 97]
RATES = [1.0, 2.0, 1000.0, 250.0, 44100.0]


def _nfft7(w, N):
    return {"2N": 2 * N, "2N+1": 2 * N + 1}.get(w, w)


def _entry_cases(nrng, n):
    """objects built as a user would build them: constructor defaults, other containers / dtypes, other entry points"""
    NC = len(C.CLASSES)
    off = nrng.integers(0, 1000, size=6)
    for i in range(n):
        cls = C.CLASSES[i % NC]
        r = i // NC
        form = ["list", "int", "float32", "czero", "float64", "complex128", "int16", "clist"][(r + off[0] + i) % 8]
        small = bool(nrng.integers(0, 3) == 0)
        if small:
            N = int(nrng.integers(6, 17))
            cfg = _min_cfg(cls, N)
        else:
            N = _pick(nrng, [24, 25, 32, 33])
            cfg = None if nrng.integers(0, 2) else C.random_cfg(nrng, cls, N)
        cplx = form in ("czero", "complex128", "clist")
        x = C.test_data(nrng, N, form in ("complex128", "clist"))
        if form == "list":
            data = [float(v) for v in x]
        elif form == "clist":
            data = [complex(v) for v in x]
        elif form == "int":
            data = np.round(20 * x).astype(np.int64)
        elif form == "int16":
            data = np.round(20 * x).astype(np.int16)
        elif form == "float32":
            data = x.astype(np.float32)
        elif form == "czero":
            data = x.astype(complex)
        else:
            data = x
        kw = {}
        need = C.min_nfft(cls, N, cfg or C.default_cfg(cls, N, cplx))
        w = int(nrng.integers(0, 9))          # 0, 6, 7, 8: the NFFT default
        if w == 1:
            kw["NFFT"] = "nextpow2"
        elif w == 2:
            kw["NFFT"] = np.int64(max(64, need))
        elif w == 3:
            kw["NFFT"] = np.int32(max(65, need))
        elif w == 4:
            kw["NFFT"] = max(N + int(nrng.integers(0, 2)), need)
        elif w == 5:
            kw["NFFT"] = np.intp(max(2 * N + 1, need))
        if "NFFT" not in kw and need > N:
            kw["NFFT"] = need
        if kw.get("NFFT") == "nextpow2" and C.resolved_nfft(x, "nextpow2") < need:
            kw["NFFT"] = need
        w = int(nrng.integers(0, 4))
        if w == 1:
            kw["sampling"] = _pick(nrng, [1, 2, 250, 1000])          # integer sampling rates
        elif w == 2:
            kw["sampling"] = _pick(nrng, [2.0, 250.0, 0.5])
        w = int(nrng.integers(0, 4))
        if w == 1:
            kw["scale_by_freq"] = True
        elif w == 2:
            kw["scale_by_freq"] = False
        p = {"cls": cls, "x": data, "kw": kw, "entry": ["psd", "call", "run"][int(nrng.integers(0, 3))],
             "nfft": kw.get("NFFT"), "fs": kw.get("sampling", 1.0)}
        if cfg is not None:
            p["cfg"] = cfg
        yield ("entry", p)


def _min_cfg(cls, N):
    """the smallest orders of every class (short records, N in 6..16)"""
    return {"Periodogram": {"window": "hann"}, "pcorrelogram": {"lag": 1, "window": "hamming"}, "pburg": {"order": 1},
            "pyule": {"order": 1}, "pcovar": {"order": 1}, "pmodcovar": {"order": 1}, "parma": {"order": 1, "Q": 1, "lag": 3},
            "pma": {"Q": 1, "M": 2}, "pminvar": {"order": 2}, "pmusic": {"order": 2, "nsig": 1}, "pev": {"order": 2, "nsig": 1},
            "MT-unity": {"NW": 1.5, "k": 1}, "MT-eigen": {"NW": 1.5, "k": 1}, "MT-adapt": {"NW": 1.5, "k": 2}}[cls]



def oracle_daniell(p):
    """`pdaniell` is an exported PSD class as well.  Its estimate lives on a DECIMATED grid (one value per 2P+1 bins) while the
    object keeps the NFFT-point frequency axis of its base class: KNOWN FINDING (known_findings.json), not repaired - a repair has
    to decide what the class's NFFT / df / frequencies() mean on the decimated grid."""
    import spectrum
    o = spectrum.pdaniell(np.asarray(p["x"]), p["P"], NFFT=p["nfft"], sampling=p["fs"], scale_by_freq=False)
    n_psd, n_f = len(np.asarray(o.psd)), len(o.frequencies())
    if n_psd != n_f:
        return ["pdaniell(P=%d, NFFT=%d, %s data): psd has %d values but frequencies() has %d" % (
            p["P"], p["nfft"], "complex" if np.iscomplexobj(p["x"]) else "real", n_psd, n_f)]
    return []


KINDS["daniell"] = {"oracle": oracle_daniell, "key": lambda p: "daniell|%d|%d|%s" % (p["P"], p["nfft"], np.iscomplexobj(p["x"])),
                    "tags": lambda p: ["daniell"]}
NO_VARY = set(globals().get("NO_VARY", set())) | {"daniell"}

# ---- MUSIC / EV: every documented way of choosing the signal subspace ---------------------------------------------------------------
# `threshold` (signal subspace = singular values larger than threshold x the smallest one; documented range threshold >= 1, smaller
# values are rejected) at the boundary of its range in every scalar type, just above it and far above it, `criteria` 'aic' / 'mdl', and
# an explicit NSIG from 0 to P-1 - on noisy records, tones in noise, noiseless records (rank-deficient data matrix: the noise singular
# values are at round-off level, threshold x min(S) falls among them) and impulse records (the data matrix has orthogonal columns:
# singular values exactly tied, also at the minimum).

SUB_CLS = ("pmusic", "pev")
# (value, scalar type): exactly 1 in five types, just above 1, moderate, huge (every singular value is below 1e9 x min: NSIG 0 -> 1)
SUB_THRESHOLDS = [(1, "int"), (1.0, "float"), (1.0, "float64"), (1, "int64"), (1.0, "float32"), (1 + 1e-12, "float"),
                  (1 + 2.0 ** -52, "float64"), (1.5, "float"), (3, "int"), (2, "int64"), (100.0, "float"), (1e9, "float")]
SUB_SELECT = [("thr", j) for j in range(len(SUB_THRESHOLDS))] + [("crit", "aic"), ("crit", "mdl"),
                                                                  ("nsig", "0"), ("nsig", "mid"), ("nsig", "max"), ("nsig", "ne")]


def _sub_cfg(nrng, sel, P, ne):
    if sel[0] == "thr":
        v, t = SUB_THRESHOLDS[sel[1]]
        return {"order": P, "nsig": None, "threshold": v, "thr_type": t}
    if sel[0] == "crit":
        return {"order": P, "nsig": None, "criteria": sel[1]}
    ns = {"0": 0, "max": P - 1, "ne": min(ne, P - 1), "mid": int(nrng.integers(0, P))}[sel[1]]
    return {"order": P, "nsig": ns}


def _sub_tone_domain(cfg, ne, cplx):
    """is the tone clause stated for this configuration (see ASSUMPTIONS: the noise subspace keeps at least two vectors or has no spare
    root, and holds no signal direction)?  The tone is 1000 times the noise: every threshold up to 100 separates them, and the noise
    singular values of the records generated here lie within a factor 100 of each other, so that below 100 the number of selected values
    may be anything from the number of exponentials to P-1 -> stated at P = number of exponentials + 1 only"""
    P = cfg["order"]
    if "threshold" in cfg:
        v = cfg["threshold"]
        if v >= 1e6:
            return cplx                       # NSIG 0 -> 1: one exponential only
        if v >= 100:
            return P >= ne + 1
        return P == ne + 1
    if "criteria" in cfg:
        return P == ne + 1
    ns = cfg["nsig"]
    return (ne <= ns <= P - 2) or (ns == P - 1 == ne)


def _clean_record(nrng, N, cplx, K):
    """K noiseless components at frequencies BETWEEN the bins of every NFFT used here (an exponential exactly on a bin is an exact null
    of the noise subspace: the pseudo-spectrum is 1/0 there, mathematically infinite - outside the 'finite' clause)"""
    n = np.arange(N)
    x = np.zeros(N, dtype=complex if cplx else float)
    for j in range(K):
        f = float(nrng.uniform(0.03, 0.47))
        a = float(nrng.uniform(0.5, 2.0))
        ph = float(nrng.uniform(0, 6))
        if cplx:
            x = x + a * np.exp((2j * np.pi * f * (1 if nrng.integers(0, 2) else -1)) * n + 1j * ph)
        else:
            x = x + a * np.cos(2 * np.pi * f * n + ph)
    return x


def _impulse_record(nrng, N, cplx, P):
    """one impulse, or an impulse train of period q >= P: the columns of the forward-backward data matrix are orthogonal, several (all)
    singular values are exactly equal"""
    a = float(nrng.uniform(0.5, 2.0)) * (np.exp(1j * float(nrng.uniform(0, 6))) if cplx else 1.0)
    x = np.zeros(N, dtype=complex if cplx else float)
    if nrng.integers(0, 2):
        x[int(nrng.integers(0, N))] = a
    else:
        q = int(nrng.integers(P, P + 4))
        x[int(nrng.integers(0, q))::q] = a
    return x


def oracle_sub(p):
    """shape clause (real, finite, as many values as frequencies(), frequencies k*sampling/NFFT) and, where p holds a tone bin `k`
    (generated only inside the tone clause's domain), the tone clause"""
    out = oracle_shape(p)
    if "k" in p and not out:
        out += oracle_tone(p)
    return out


def impl_subglue(p):
    return [np.asarray(_build(p).psd)]


def model_subglue(p):
    """the raw centre-DC estimate of the functional API called with the SAME selection arguments, folded by the model: the class must
    hand threshold / criteria / NSIG through to eigen() unchanged"""
    x = np.asarray(p["x"])
    cfg = p["cfg"]
    nfft = C.resolved_nfft(x, p["nfft"])
    f = C.sp().music if p["cls"] == "pmusic" else C.sp().ev
    kw = {}
    if "threshold" in cfg:
        kw["threshold"] = _thr(cfg)
    if "criteria" in cfg:
        kw["criteria"] = cfg["criteria"]
    raw = np.asarray(f(x, cfg["order"], NSIG=cfg.get("nsig"), NFFT=nfft, **kw)[0])
    return C.glue_request(p["cls"], raw, np.isrealobj(x), nfft, False, p["fs"])


def _sub_tags(p):
    cfg = p.get("cfg") or {}
    out = _tags(p)
    if "threshold" in cfg:
        v = cfg["threshold"]
        out.append("subspace:threshold" + ("=1(%s)" % cfg.get("thr_type") if v == 1 else ("<=1+1e-12" if v < 1.0001 else
                                                                                        (">=1e6" if v >= 1e6 else " moderate"))))
    elif "criteria" in cfg:
        out.append("subspace:" + cfg["criteria"])
    elif cfg.get("nsig") is not None:
        ns, P = cfg["nsig"], cfg["order"]
        out.append("subspace:NSIG" + ("=0" if ns == 0 else ("=P-1" if ns == P - 1 else "")))
    if p.get("data"):
        out.append("record:" + p["data"])
    return out


KINDS["subshape"] = {"oracle": oracle_sub, "key": _key, "tags": _sub_tags}
KINDS["subtone"] = {"oracle": oracle_sub, "key": _key, "tags": _sub_tags}
KINDS["subglue"] = {"impl": impl_subglue, "model": model_subglue, "oracle": oracle_sub, "rtol": 1e-9, "atol": 1e-300, "key": _key,
                    "tags": _sub_tags}
# noiseless / impulse records: the derived "dominant tone exactly at DC / Nyquist" records would put a NOISELESS exponential exactly on a
# bin - an exact null of the noise subspace, pseudo-spectrum 1/0 (observed: inf at bin 0 for pev, order 10, on such a record)
KINDS["subexact"] = {"oracle": oracle_sub, "key": _key, "tags": _sub_tags}
NO_DEGEN = NO_DEGEN | {"subtone", "subexact"}


def _sub_cases(nrng, quick):
    """MUSIC / EV x way of choosing the signal subspace x record type x real/complex x N x NFFT x order.  Every (class, selector) pair
    meets 3 (quick) record types per run; tone records inside the tone clause's domain also carry the tone clause"""
    nsel = len(SUB_SELECT)
    kinds = ["noise", "tone", "clean", "impulse"]
    reps = 3 if quick else 16
    off = int(nrng.integers(0, 4))
    for i in range(2 * nsel * reps):
        cls = SUB_CLS[i % 2]
        sel = SUB_SELECT[(i // 2) % nsel]
        r = i // (2 * nsel)
        data = kinds[(r + (i // 2) + off) % 4]
        cplx = bool(nrng.integers(0, 2))
        ne = 1 if cplx else 2
        N = _pick(nrng, [24, 25, 32, 33, 40])
        nf = _pick(nrng, [None, "nextpow2", 64, 65, 97])
        nfft = C.resolved_nfft(np.zeros(N), nf)
        fs = _pick(nrng, [1.0, 2.0, 250.0])
        P = int(nrng.integers(2, 10))
        if nrng.integers(0, 8) == 0:
            # the largest admissible order: 2*(N-P) > P-1
            N = _pick(nrng, [12, 13, 16])
            nf = _pick(nrng, [None, 64, 65])
            nfft = C.resolved_nfft(np.zeros(N), nf)
            P = (2 * N) // 3
        k = None
        if data == "tone":
            # half of the tone records: an order at which the tone clause is stated for this selector
            if nrng.integers(0, 2):
                P = ne + 1 if sel[0] in ("thr", "crit") and not (sel[0] == "thr" and SUB_THRESHOLDS[sel[1]][0] >= 100) else max(P, ne + 1)
            k = int(nrng.integers(-(nfft // 2) + 1, nfft // 2)) if cplx else _real_k(nrng, cls, N, nfft, {"order": P})
            x = _tone_data(nrng, N, nfft, k, cplx)
        elif data == "noise":
            x = C.test_data(nrng, N, cplx)
        elif data == "clean":
            x = _clean_record(nrng, N, cplx, int(nrng.integers(1, 4)))
        else:
            x = _impulse_record(nrng, N, cplx, P)
        cfg = _sub_cfg(nrng, sel, P, ne)
        p = {"cls": cls, "x": x, "nfft": nf, "fs": fs, "cfg": cfg, "data": data}
        if data == "tone" and _sub_tone_domain(cfg, ne, cplx):
            p["k"] = k
            yield ("subtone", p)
        elif data in ("noise", "tone") and i % 3 == 0:
            yield ("subglue", p)
        elif data in ("clean", "impulse"):
            yield ("subexact", p)
        else:
            yield ("subshape", p)


# ---- amplitude of the record: the clauses are statements about WHERE values sit, not about their size -------------------------------
# MUSIC / EV never form a product of two samples (singular value decomposition of the data matrix itself, unit-norm noise vectors; EV
# divides by the singular values, not by their squares): measured on the unchanged library, pmusic / pev give a real, finite PSD with
# the maximum on the tone's own entry for records scaled by every power of ten from 1e-200 to 1e165 (18 scales x real/complex x 3
# (N, NFFT) pairs, and seeds 0..11 of this generator: 0 bins off everywhere) -> generated at 1e-190 .. 1e158, real / complex, default
# orders and every way of choosing the subspace inside the tone clause's domain (_tone_cfg), plus noise records (shape clause only).
# The other classes square the samples themselves (lag products, periodogram, prediction error powers): records ALL of whose samples
# are below ~1e-162 or above ~1e154 legitimately under/overflow there (ruling in DESIGN.md 0.9: float range).  Measured, unchanged
# library, same grid: every class but parma is exact (same allowed distance as at amplitude 1) from 1e-150 to 1e150 (Burg / minimum
# variance fail from 1e-155 down, Periodogram / covariance from 1e153 up) -> generated at 1e-140, 1e-100, 1e100, 1e140, a factor
# >= 1e10 inside the measured range on both sides.  The oracles and allowed distances are those of the `tone` kind, unchanged.
# RULING (float range at fourth order: arma_estimate forms products of correlation lags, i.e. amplitude^4; exact for amplitudes 1e-40 .. 1e30; DESIGN 0.9) (parma, /tmp/finding_C02.py): parma is exact for 1e-40 <= scale <= 1e30 only: at 1e-50 the maximum of a real
# sinusoid moves 2 bins, at 1e-80 and below / at 1e40 (real) and 1e45 (complex) and above the PSD is all nan / inf - although the
# squares of the samples are far inside the float range.  parma is generated at 1e-30 and 1e30 only until this is ruled on.
SCALES_SUBSPACE = [1e-190, 1e-170, 1e-165, 1e-150, 1e140, 1e155, 1e158]
SCALES_OTHER = [1e-140, 1e-100, 1e100, 1e140]
SCALES_PARMA = [1e-30, 1e30]          # RULING (float range at fourth order: arma_estimate forms products of correlation lags, i.e. amplitude^4; exact for amplitudes 1e-40 .. 1e30; DESIGN 0.9): see above


def oracle_scale(p):
    """shape clause, then (tone records) the tone clause with the allowed distance of the `tone` kind.  Floating-point warnings are
    silenced for the call (denormal intermediate results are not an error; a non-finite value in the PSD is reported by the oracle)"""
    with np.errstate(all="ignore"):
        out = oracle_shape(p)
        if "k" in p and not out and p["cls"] != "pma":
            out += oracle_tone(p)
    return ["record scaled by %g: %s" % (p["scale"], m) for m in out]


def _scale_tags(p):
    return _tags(p) + ["scale:%g" % p["scale"], "record:" + ("tone" if "k" in p else "noise")]


KINDS["scale"] = {"oracle": oracle_scale, "key": lambda p: "scale|%g|%s" % (p["scale"], _key(p)), "tags": _scale_tags}
NO_VARY = NO_VARY | {"scale"}          # the amplitude is the parameter of the case
NO_DEGEN = NO_DEGEN | {"scale"}


def _scale_cases(nrng, quick):
    reps = 1 if quick else 3
    # MUSIC / EV: every scale x class x real/complex, default order or a subspace choice inside the tone clause's domain
    for r in range(reps):
        for j, s in enumerate(SCALES_SUBSPACE):
            for ci, cls in enumerate(SUB_CLS):
                for cplx in (True, False):
                    N = _pick(nrng, [32, 33, 48])
                    nf = _pick(nrng, NFFT6)
                    nfft = C.resolved_nfft(np.zeros(N), nf)
                    cfg = _tone_cfg(nrng, cls, N, cplx) if nrng.integers(0, 2) else None
                    k = int(nrng.integers(-(nfft // 2) + 1, nfft // 2)) if cplx else \
                        _real_k(nrng, cls, N, nfft, cfg or C.default_cfg(cls, N, False))
                    p = {"cls": cls, "x": s * _tone_data(nrng, N, nfft, k, cplx), "nfft": nf, "fs": _pick(nrng, [1.0, 2.0, 250.0]),
                         "k": k, "scale": s}
                    if cfg is not None:
                        p["cfg"] = cfg
                    yield ("scale", p)
            # a noise record (shape clause): explicit NSIG / criteria / moderate threshold
            cls = SUB_CLS[(j + r) % 2]
            cplx = bool(nrng.integers(0, 2))
            N = _pick(nrng, [24, 25, 32, 33])
            P = int(nrng.integers(3, 9))
            cfg = [{"order": P, "nsig": int(nrng.integers(1, P - 1))}, {"order": P, "nsig": None, "criteria": "aic"},
                   {"order": P, "nsig": None, "criteria": "mdl"}, {"order": P, "nsig": None, "threshold": 3}][int(nrng.integers(0, 4))]
            yield ("scale", {"cls": cls, "x": s * C.test_data(nrng, N, cplx), "nfft": _pick(nrng, [None, 64, 65]),
                             "fs": _pick(nrng, [1.0, 250.0]), "cfg": cfg, "scale": s})
    # the other classes inside their measured range (pma: shape clause only, it is exempt from the tone clause)
    for r in range(reps):
        for i, cls in enumerate(c for c in C.CLASSES if c not in SUB_CLS):
            scales = SCALES_PARMA if cls == "parma" else SCALES_OTHER
            for j, s in enumerate(scales):
                cplx = bool((i + j + r) % 2)
                N = _pick(nrng, [32, 33, 48])
                nf = _pick(nrng, NFFT6)
                nfft = C.resolved_nfft(np.zeros(N), nf)
                k = int(nrng.integers(-(nfft // 2) + 1, nfft // 2)) if cplx else _real_k(nrng, cls, N, nfft, C.default_cfg(cls, N, False))
                yield ("scale", {"cls": cls, "x": s * _tone_data(nrng, N, nfft, k, cplx), "nfft": nf,
                                 "fs": _pick(nrng, [1.0, 2.0, 250.0]), "k": k, "scale": s})


# ---- boundary values of the option ranges of the other classes at short records (the caps of C.random_cfg(boundary=True) - order <= 12,
# NW <= 4 - keep them away from N): lag = N-1, Burg order N-2, Yule-Walker order N-1, covariance orders N/2-1, minimum variance order
# N/2, ARMA / MA at their longest lag, MUSIC / EV order 2N/3 with NSIG 1 and P-1, multitaper NW just below N/2 with k = 1, 2 and 2NW

def _max_cfgs(cls, N):
    if cls == "Periodogram":
        return []
    if cls == "pcorrelogram":
        return [{"lag": N - 1, "window": "hamming"}, {"lag": N - 1, "window": "rectangular"}]
    if cls == "pburg":
        return [{"order": N - 2}]
    if cls == "pyule":
        return [{"order": N - 1}]
    if cls in ("pcovar", "pmodcovar"):
        return [{"order": N // 2 - 1}]
    if cls == "pminvar":
        return [{"order": N // 2}]
    if cls == "parma":
        return [{"order": 3, "Q": 3, "lag": N - 3}, {"order": 1, "Q": 1, "lag": N - 1}]
    if cls == "pma":
        return [{"Q": 3, "M": N - 1}, {"Q": 1, "M": N - 1}]
    if cls in ("pmusic", "pev"):
        P = (2 * N) // 3
        return [{"order": P, "nsig": 1}, {"order": P, "nsig": P - 1}, {"order": P, "nsig": 0}]
    NW = [N / 2.0 - 2.0 ** -10, N / 2.0 - 0.5, (N - 1) / 2.0][N % 3]
    ks = [2, int(2 * NW)] + ([] if cls == "MT-adapt" else [1])      # adaptive weights need two tapers (known finding)
    return [{"NW": NW, "k": k} for k in ks]


def _max_cases(nrng, quick):
    for cls in C.CLASSES:
        for N in ((12, 13, 16, 17) if not quick else (_pick(nrng, [12, 16]), _pick(nrng, [13, 17]))):
            cfgs = _max_cfgs(cls, N)
            if quick and len(cfgs) > 1:
                j = int(nrng.integers(0, len(cfgs)))
                cfgs = [cfgs[j], cfgs[(j + 1) % len(cfgs)]][:2]
            for cfg in cfgs:
                cplx = bool(nrng.integers(0, 2))
                x = C.test_data(nrng, N, cplx)
                need = C.min_nfft(cls, N, cfg)
                w = _pick(nrng, [None, 32, 33])
                nfft = max(w, need, N) if w else (None if need <= N else need)
                # "variant" is preset: these near-singular fits are made on generic records only, no derived degenerate / scaled records
                yield ("glue", {"cls": cls, "x": x, "nfft": nfft, "fs": _pick(nrng, [1.0, 250.0]), "cfg": cfg, "variant": "option-maximum"})


def gen(rng, nrng, tier):
    r7 = np.random.default_rng(7)
    yield ("daniell", {"x": r7.standard_normal(40), "P": 2, "nfft": 32, "fs": 1.0})
    yield ("daniell", {"x": r7.standard_normal(40) + 1j * r7.standard_normal(40), "P": 2, "nfft": 64, "fs": 2.0})
    NC = len(C.CLASSES)
    quick = tier == "quick"
    # ---- default configurations: class x complex x N x NFFT choice.  quick: every class meets each of the 7 NFFT choices (8 cases per
    # class, a per-class random rotation), the other coordinates are drawn independently; thorough: the full product 14 x 2 x 4 x 7,
    # then independent draws
    m = 112 if quick else 1700
    full = NC * 2 * 4 * 7
    off = nrng.integers(0, 7, size=NC)
    for i in range(m):
        if not quick and i < full:
            ci, r = i % NC, i // NC
            cplx, r = bool(r % 2), r // 2
            N, r = [32, 33, 47, 64][r % 4], r // 4
            w = NFFT7[r % 7]
        else:
            ci = i % NC
            cplx = bool(nrng.integers(0, 2))
            N = _pick(nrng, [32, 33, 47, 64])
            w = NFFT7[(i // NC + off[ci]) % 7] if quick else _pick(nrng, NFFT7)
        cls = C.CLASSES[ci]
        x = C.test_data(nrng, N, cplx)
        nfft = _nfft7(w, N)
        if isinstance(nfft, int) and nfft < N:
            nfft = N + (i % 2)
        yield ("glue", {"cls": cls, "x": x, "nfft": nfft, "fs": _pick(nrng, RATES)})
    # ---- random and boundary configurations (orders, lags, windows, taper counts) of every class; every coordinate but the class is an
    # independent draw (boundary configurations with probability 1/4 for every class)
    mc = 56 if quick else 800
    for i in range(mc):
        cls = C.CLASSES[i % NC]
        cplx = bool(nrng.integers(0, 2))
        N = _pick(nrng, [24, 25, 40])
        x = C.test_data(nrng, N, cplx)
        cfg = C.random_cfg(nrng, cls, N, boundary=bool(nrng.integers(0, 4) == 3))
        need = {"pcorrelogram": 2 * cfg.get("lag", 0) + 1, "pminvar": 2 * cfg.get("order", 0)}.get(cls, 0)
        w = _pick(nrng, [None, 64, 65, 97])
        nfft = max(w, need, N) if w else (None if need <= N else max(need, N))
        yield ("glue", {"cls": cls, "x": x, "nfft": nfft, "fs": _pick(nrng, [1.0, 250.0]), "cfg": cfg})
    # ---- correlogram lags at or above NFFT/2 (2*lag+1 > NFFT: the lag sequence wraps; lengths and axes are those of NFFT all the same)
    for i in range(12 if quick else 120):
        cplx = bool(i % 2)
        N = [32, 33, 24][i % 3]
        x = C.test_data(nrng, N, cplx)
        lag = [N // 2, N - 1, (3 * N) // 4, N // 2 + 1][(i // 2) % 4]
        nfft = [None, N + 1, 2 * lag, 2 * lag - 1][(i // 3) % 4]
        if isinstance(nfft, int) and nfft < N:
            nfft = None
        yield ("glue", {"cls": "pcorrelogram", "x": x, "nfft": nfft, "fs": _pick(nrng, [1.0, 250.0]),
                        "cfg": {"lag": lag, "window": ["hamming", "rectangular", "hann"][(i // 6) % 3]}})
    # ---- the axes for every NFFT up to 200 (and a few larger) at "round" and awkward sampling rates: n*df is computed in floating point
    rates = [1.0, 3.0, 100.0, 250.0, 1000.0, 8000.0, 44100.0, 0.1, 1e-2, 1e5]
    for n in list(range(1, 201)) + [255, 256, 257, 1000, 1024, 4096]:
        for fs in (rates if tier == "thorough" else [rates[(n + j) % len(rates)] for j in range(3)]):
            yield ("axis", {"n": n, "fs": fs})
    # ---- placement of the model-based estimates: entry j against the rational spectrum of the stored coefficients at frequencies()[j].
    # thorough: the full product 6 classes x real/complex x N in {32, 33} x 4 NFFT choices x 2 rates at the default orders, then the same
    # number at random / boundary orders; quick: 12 cases per class
    NA = len(C.AR_FAMILY)
    pfull = NA * 2 * 2 * 4 * 2
    offp = nrng.integers(0, 4, size=NA)
    for i in range(72 if quick else 2 * pfull):
        if not quick and i < pfull:
            ci, r = i % NA, i // NA
            cplx, r = bool(r % 2), r // 2
            N, r = [32, 33][r % 2], r // 2
            nf, r = [None, "nextpow2", 64, 65][r % 4], r // 4
            fs = [1.0, 250.0][r % 2]
            cfg = None
        else:
            ci = i % NA
            cplx = bool(nrng.integers(0, 2))
            N = _pick(nrng, [32, 33])
            nf = [None, "nextpow2", 64, 65][(i // NA + offp[ci]) % 4]
            fs = _pick(nrng, [1.0, 250.0])
            cfg = None if nrng.integers(0, 2) else C.random_cfg(nrng, C.AR_FAMILY[ci], N, boundary=bool(nrng.integers(0, 4) == 3))
        p = {"cls": C.AR_FAMILY[ci], "x": C.test_data(nrng, N, cplx), "nfft": nf, "fs": fs}
        if cfg is not None:
            p["cfg"] = cfg
        yield ("place", p)
    # ---- shape clause through the constructor defaults / other containers, dtypes and entry points
    for c in _entry_cases(nrng, 112 if quick else 700):
        yield c
    # ---- tone clause, default configurations.  quick: every class meets each of the 6 NFFT choices; thorough: the full product
    # 14 x 2 x 3 x 6 first; the rate and the tone bin are independent draws
    t = 112 if quick else 1700
    tfull = NC * 2 * 3 * 6
    offt = nrng.integers(0, 6, size=NC)
    for i in range(t):
        if not quick and i < tfull:
            ci, r = i % NC, i // NC
            cplx, r = bool(r % 2), r // 2
            N, r = [32, 33, 48][r % 3], r // 3
            nf = NFFT6[r % 6]
        else:
            ci = i % NC
            cplx = bool(nrng.integers(0, 2))
            N = _pick(nrng, [32, 33, 48])
            nf = NFFT6[(i // NC + offt[ci]) % 6] if quick else _pick(nrng, NFFT6)
        cls = C.CLASSES[ci]
        nfft = C.resolved_nfft(np.zeros(N), nf)
        if cplx:
            k = int(nrng.integers(-(nfft // 2) + 1, nfft // 2))
        else:
            k = _real_k(nrng, cls, N, nfft, C.default_cfg(cls, N, False))
        x = _tone_data(nrng, N, nfft, k, cplx)
        yield ("tone", {"cls": cls, "x": x, "nfft": nf, "fs": _pick(nrng, [1.0, 2.0, 250.0]), "k": k})
    # ---- tone clause at random configurations inside the clause's domain (see _tone_cfg)
    for i in range(112 if quick else 1400):
        cls = C.CLASSES[i % NC]
        cplx = bool(nrng.integers(0, 2))
        N = _pick(nrng, [32, 33, 48])
        nf = _pick(nrng, NFFT6)
        nfft = C.resolved_nfft(np.zeros(N), nf)
        cfg = _tone_cfg(nrng, cls, N, cplx)
        k = int(nrng.integers(-(nfft // 2) + 1, nfft // 2)) if cplx else _real_k(nrng, cls, N, nfft, cfg)
        x = _tone_data(nrng, N, nfft, k, cplx)
        yield ("tone", {"cls": cls, "x": x, "nfft": nf, "fs": _pick(nrng, [1.0, 2.0, 250.0]), "k": k, "cfg": cfg})
    # ---- complex exponentials on the boundary bins 0, +-1, +-NFFT/2 (one bin: Nyquist), +-(NFFT//2-1), +-(NFFT-1)/2 of every class under
    # the tone clause.  thorough: all of 13 classes x N in {32, 33, 48} x 6 NFFT choices x the bins; quick: 10 per class
    tone_cls = [c for c in C.CLASSES if c != "pma"]
    combos = [(c, N, nf, k) for c in tone_cls for N in (32, 33, 48) for nf in NFFT6
              for k in _boundary_ks(C.resolved_nfft(np.zeros(N), nf))]
    if quick:
        per = {}
        for cb in combos:
            per.setdefault(cb[0], []).append(cb)
        combos = [per[c][int(j)] for c in tone_cls for j in nrng.choice(len(per[c]), size=10, replace=False)]
    for cls, N, nf, k in combos:
        nfft = C.resolved_nfft(np.zeros(N), nf)
        x = _tone_data(nrng, N, nfft, k, True)
        yield ("tone", {"cls": cls, "x": x, "nfft": nf, "fs": _pick(nrng, [1.0, 2.0, 250.0]), "k": k})
    # ---- MUSIC / EV: every documented way of choosing the signal subspace (threshold at and above the boundary of its range, criteria,
    # explicit NSIG 0..P-1) x noisy / tone / noiseless / impulse records
    for c in _sub_cases(nrng, quick):
        yield c
    # ---- the other classes at the maxima of their option ranges (short records)
    for c in _max_cases(nrng, quick):
        yield c
    # ---- records of extreme amplitude: MUSIC / EV over (almost) the whole float range, the other classes inside theirs
    for c in _scale_cases(nrng, quick):
        yield c
