"""C02  Every estimator puts spectral values on the frequency axis it reports."""
import numpy as np

import proto
import classes as C
from common import rel

TRUSTED_BASE = [
    "class glue correspondence: the raw two-sided estimate comes from the implementation's functional API (tied to the model under "
    "C01/C08/C12-C17/C19), the model applies slice/double/reverse and scale(); axes: Range.* vs the model's rangeBins * df",
    "float mode rtol 1e-9",
]
PARTIAL = ["'a dominant tone in noise peaks within one bin / the main-lobe half-width' for Burg, Yule-Walker, ARMA, minimum variance, "
           "multitaper and real sinusoids is a perturbation statement about the spectrum function, not about indexing: evaluated by "
           "the oracle with the stated tolerances; the placement theorems (entry j = c_j * spectrum at the frequency reported at j) and "
           "the exact-bin theorems for the periodogram and MUSIC/EV are proved"]
ASSUMPTIONS = ["tone amplitude 1, noise 1e-3; real sinusoids at least 4 main-lobe widths from 0 and sampling/2",
               "main-lobe half-widths used by the oracle (in NFFT bins): periodogram 2*NFFT/N+1, correlogram NFFT/lag+1, multitaper "
               "NW*NFFT/N+1, parametric/subspace 1+NFFT/N"]
RULE = ("14 estimator class variants x real/complex x N in {32,33,47,64} x NFFT in {None, nextpow2, even>=N, odd>=N} x sampling x tone "
        "bin k (positive and negative frequencies); non-trivial = all")

SIDES = ["onesided", "twosided", "centerdc"]


def impl_glue(p):
    o = C.make(p["cls"], p["x"], p["nfft"], p["fs"], False, p.get("cfg"))
    return [np.asarray(o.psd)]


def model_glue(p):
    x = np.asarray(p["x"])
    nfft = C.resolved_nfft(x, p["nfft"])
    raw = C.raw_two_sided(p["cls"], x, nfft, p["fs"], p.get("cfg"))
    return C.glue_request(p["cls"], raw, np.isrealobj(x), nfft, False, p["fs"])


def oracle_shape(p):
    x = np.asarray(p["x"])
    cls = p["cls"]
    o = C.make(cls, x, p["nfft"], p["fs"], False, p.get("cfg"))
    psd = np.asarray(o.psd)
    f = np.asarray(o.frequencies())
    nfft = C.resolved_nfft(x, p["nfft"])
    out = []
    tag = "%s %s N=%d NFFT=%s" % (cls, "complex" if np.iscomplexobj(x) else "real", len(x), p["nfft"])
    if o.NFFT != nfft:
        out.append("%s: NFFT attribute is %r, expected %d" % (tag, o.NFFT, nfft))
    L = C.expected_len(np.isrealobj(x), nfft)
    if len(psd) != L:
        out.append("%s: psd has %d values, expected %d" % (tag, len(psd), L))
    if len(f) != len(psd):
        out.append("%s: %d psd values but frequencies() returns %d" % (tag, len(psd), len(f)))
    if np.iscomplexobj(psd) or not np.all(np.isfinite(psd)):
        out.append("%s: psd is not real and finite" % tag)
    for sd in ("onesided", "twosided", "centerdc"):
        if sd == "onesided" and np.iscomplexobj(x):
            continue
        fl = len(o.frequencies(sd))
        ex = nfft if sd != "onesided" else C.expected_len(True, nfft)
        if fl != ex:
            out.append("%s: frequencies('%s') has %d entries, expected %d (sampling=%g)" % (tag, sd, fl, ex, p["fs"]))
    if len(f) == L and rel(f, np.arange(L) * p["fs"] / nfft) > 1e-12:
        out.append("%s: frequencies() is not k*sampling/NFFT" % tag)
    return out


def impl_axis(p):
    from spectrum.psd import Range
    r = Range(p["n"], p["fs"])
    return [np.asarray(r.onesided()), np.asarray(r.twosided()), np.asarray(r.centerdc())]


def model_axis(p):
    # three requests folded into one line is not possible: use the convhist-free rangebins command three times via post
    return ("F", proto.request("rangebins", "F", ["onesided", p["n"]], []))


def post_axis(p, iv, mv):
    n, fs = p["n"], p["fs"]
    df = fs / n
    reps = proto.run_driver([proto.request("rangebins", "F", [s, n], []) for s in SIDES])
    M = [np.real(proto.parse_reply(r, "F")[1][0]) * df for r in reps]
    return iv, M


def _half_width(cls, N, nfft, cfg):
    if cls == "Periodogram":
        return 2.0 * nfft / N + 1
    if cls == "pcorrelogram":
        return float(nfft) / cfg["lag"] + 1
    if cls.startswith("MT"):
        return cfg.get("NW", 2.5) * nfft / N + 1
    return 1.0 + float(nfft) / N


EXACT = ("Periodogram", "pcorrelogram", "pcovar", "pmodcovar", "pmusic", "pev")
ONE_BIN = ("pburg", "pyule", "parma", "pminvar")


def oracle_tone(p):
    cls = p["cls"]
    if cls == "pma":
        return []
    x = np.asarray(p["x"])
    nfft = C.resolved_nfft(x, p["nfft"])
    fs = p["fs"]
    cfg = p.get("cfg") or C.default_cfg(cls, len(x), np.iscomplexobj(x))
    o = C.make(cls, x, p["nfft"], fs, False, cfg)
    psd = np.asarray(o.psd)
    f = np.asarray(o.frequencies())
    if len(psd) != len(f):
        return ["%s: %d psd values but %d frequencies" % (cls, len(psd), len(f))]
    am = int(np.argmax(psd))
    k = p["k"]
    df = fs / nfft
    if np.iscomplexobj(x):
        fexp = (k % nfft) * df
        d = abs(f[am] - fexp) / df
        d = min(d, nfft - d)
        if cls in EXACT:
            tol = 0.0
        elif cls in ONE_BIN:
            tol = 1.0
        else:
            tol = cfg.get("NW", 2.5) * nfft / len(x)
        if d > tol + 1e-9:
            return ["%s (complex, N=%d, NFFT=%s): tone at bin %d (frequency %.5g) but the maximum is reported at frequency %.5g "
                    "(%.2f bins away, allowed %.2f)" % (cls, len(x), p["nfft"], k, fexp, f[am], d, tol)]
    else:
        fexp = abs(k) * df
        d = abs(f[am] - fexp) / df
        tol = _half_width(cls, len(x), nfft, cfg)
        if d > tol + 1e-9:
            return ["%s (real, N=%d, NFFT=%s): sinusoid at |f| = %.5g but the maximum is reported at %.5g (%.2f bins away, "
                    "main-lobe half-width %.2f)" % (cls, len(x), p["nfft"], fexp, f[am], d, tol)]
    return []


def _key(p):
    if "cls" not in p:
        return "axis|%d|%g" % (p["n"], p["fs"])
    x = np.asarray(p["x"])
    return "%s|%d|%s|%s|%s|%s|%d" % (p["cls"], len(x), p["nfft"], p["fs"], p.get("k"), np.iscomplexobj(x), hash(x.tobytes()) & 0xFFFFF)


def _tags(p):
    if "cls" not in p:
        return ["axis:" + ("odd" if p["n"] % 2 else "even")]
    n = p["nfft"]
    return ["cls:" + p["cls"], "complex" if np.iscomplexobj(p["x"]) else "real",
            "nfft:%s" % (n if not isinstance(n, int) else ("odd" if n % 2 else "even")), "N:" + ("odd" if len(p["x"]) % 2 else "even")]


# kinds whose parameters describe the content of x: no derived degenerate records
NO_DEGEN = {"tone"}

KINDS = {
    "glue": {"impl": impl_glue, "model": model_glue, "oracle": oracle_shape, "rtol": 1e-9, "atol": 1e-300, "key": _key, "tags": _tags},
    "axis": {"impl": impl_axis, "model": model_axis, "post": post_axis, "rtol": 1e-13, "atol": 0.0, "key": _key, "tags": _tags},
    "tone": {"oracle": oracle_tone, "key": _key, "tags": _tags},
}


def _tone_data(nrng, N, nfft, k, cplx):
    n = np.arange(N)
    if cplx:
        return np.exp(2j * np.pi * k * n / nfft + 1j * nrng.uniform(0, 6)) + 1e-3 * (nrng.standard_normal(N) + 1j * nrng.standard_normal(N))
    return np.cos(2 * np.pi * k * n / nfft + nrng.uniform(0, 6)) + 1e-3 * nrng.standard_normal(N)


def gen(rng, nrng, tier):
    m = 112 if tier == "quick" else 1700
    for i in range(m):
        cls = C.CLASSES[i % len(C.CLASSES)]
        cplx = bool((i // len(C.CLASSES)) % 2)
        N = [32, 33, 47, 64][(i // 3) % 4]
        x = C.test_data(nrng, N, cplx)
        nfft = [None, "nextpow2", 64, 65, 2 * N, 2 * N + 1, 97][(i // 2) % 7]
        if isinstance(nfft, int) and nfft < N:
            nfft = N + (i % 2)
        yield ("glue", {"cls": cls, "x": x, "nfft": nfft, "fs": [1.0, 2.0, 1000.0, 250.0, 44100.0][i % 5]})
    # random and boundary configurations (orders, lags, windows, taper counts) of every class
    mc = 56 if tier == "quick" else 800
    for i in range(mc):
        cls = C.CLASSES[i % len(C.CLASSES)]
        cplx = bool((i // len(C.CLASSES)) % 2)
        N = [24, 25, 40][i % 3]
        x = C.test_data(nrng, N, cplx)
        cfg = C.random_cfg(nrng, cls, N, boundary=(i % 4 == 3))
        need = {"pcorrelogram": 2 * cfg.get("lag", 0) + 1, "pminvar": 2 * cfg.get("order", 0)}.get(cls, 0)
        nfft = max([None, 64, 65, 97][(i // 3) % 4] or N, need, N) if (i // 3) % 4 else (None if need <= N else max(need, N))
        yield ("glue", {"cls": cls, "x": x, "nfft": nfft, "fs": [1.0, 250.0][i % 2], "cfg": cfg})
    # correlogram lags at or above NFFT/2 (2*lag+1 > NFFT: the lag sequence wraps; lengths and axes are those of NFFT all the same)
    for i in range(12 if tier == "quick" else 120):
        cplx = bool(i % 2)
        N = [32, 33, 24][i % 3]
        x = C.test_data(nrng, N, cplx)
        lag = [N // 2, N - 1, (3 * N) // 4, N // 2 + 1][(i // 2) % 4]
        nfft = [None, N + 1, 2 * lag, 2 * lag - 1][(i // 3) % 4]
        if isinstance(nfft, int) and nfft < N:
            nfft = None
        yield ("glue", {"cls": "pcorrelogram", "x": x, "nfft": nfft, "fs": [1.0, 250.0][i % 2],
                        "cfg": {"lag": lag, "window": ["hamming", "rectangular", "hann"][i % 3]}})
    # the axes for every NFFT up to 200 (and a few larger) at "round" and awkward sampling rates: n*df is computed in floating point
    rates = [1.0, 3.0, 100.0, 250.0, 1000.0, 8000.0, 44100.0, 0.1, 1e-2, 1e5]
    for n in list(range(1, 201)) + [255, 256, 257, 1000, 1024, 4096]:
        for fs in (rates if tier == "thorough" else [rates[(n + j) % len(rates)] for j in range(3)]):
            yield ("axis", {"n": n, "fs": fs})
    t = 112 if tier == "quick" else 1700
    for i in range(t):
        cls = C.CLASSES[i % len(C.CLASSES)]
        cplx = bool((i // len(C.CLASSES)) % 2)
        N = [32, 33, 48][(i // 5) % 3]
        nf = [None, "nextpow2", 64, 65, 96, 97][(i // 2) % 6]
        nfft = C.resolved_nfft(np.zeros(N), nf)
        if cplx:
            k = int(nrng.integers(-(nfft // 2) + 1, nfft // 2))
        else:
            lo = int(np.ceil(4 * _half_width(cls, N, nfft, C.default_cfg(cls, N, False))))
            hi = nfft // 2 - lo
            if hi <= lo:
                k = nfft // 4
            else:
                k = int(nrng.integers(lo, hi))
        x = _tone_data(nrng, N, nfft, k, cplx)
        yield ("tone", {"cls": cls, "x": x, "nfft": nf, "fs": [1.0, 2.0][i % 2], "k": k})
