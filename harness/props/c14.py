"""C14  Covariance and modified-covariance AR fits are least-squares optimal."""
import numpy as np

import single

import proto
from common import gen_data, rel

TRUSTED_BASE = [
    "scipy.linalg.lstsq is a parameter (contract: returns a minimiser); the model solves the normal equations exactly by Gauss-Jordan "
    "elimination, which is verified in Lean for any field with a lawful zero test (C14.solveMat_solves, lsFit_normalEq, lsFit_succeeds_iff)",
    "arcovar_marple / modcovar_marple: modelled twice - at specification level (the least-squares solution and the minimum per "
    "sample) and as a step-by-step transliteration of the recursions (Model/Marple.lean); the correspondence compares the Python "
    "routines with both, and the two models with each other in exact rational arithmetic (kind recexact)",
    "exact mode: dyadic data, N <= 24, order <= 6; rtol 1e-6 (Marple recursions: 1e-5); boundary kinds (N = 2p) compare the error "
    "normalised by the signal energy (the covariance minimum is exactly 0 there)",
    "kind xmin: the Lean model in exact mode (driver commands arcovar / modcovar, Q) on full float64 records (every double is a "
    "dyadic rational), N <= 128, order <= 14, is THE reference minimiser / minimum; the energy of the coefficients returned by the "
    "library is evaluated in exact integer arithmetic in this file (_exact_energy); a harness failure is raised if that energy is "
    "below the model's minimum; sigma_min/sigma_max (predicate and tolerance scale) is numpy's SVD of a matrix built in this file; "
    "scipy.optimize.linear_sum_assignment pairs expected and estimated frequencies",
    "kind rdef: rank of the regressor matrix and THE minimum are computed in this file in exact integer arithmetic (_exact_ls: "
    "fraction-free elimination of the Gram matrix, dependent columns skipped), the energy of the returned coefficients and the inner "
    "products residual x regressor likewise (_exact_energy, _exact_grad); kind rdefx checks that reference against the Lean model in "
    "exact mode on every run (model rejects as singular <=> exact rank < order; equal rational minima on full-rank records); "
    "sigma_rank/sigma_max (domain predicate) is numpy's SVD of a matrix built in this file",
    "oracle references written in numpy inside this file: the data matrix (_dmat), numpy.linalg.lstsq for the backward and the "
    "lower-order modified-covariance minima, numpy.linalg.cond for the conditioning predicate (no library routine is used to "
    "select or to judge a case)",
]
PARTIAL = ["equality of Marple's fast recursions with the least-squares solution for EVERY input is not proved in Lean (the derivation is a "
           "chapter of Marple's book): proved are the order-0 case, lengths and domain of the transliteration and kernel-checked exact "
           "instances; the general statement is tested with exact rational equality between the two models on every run "
           "(including the boundary N = 2p)"]
ASSUMPTIONS = ["N - p >= p for all four functions (the boundary N = 2p included for the Marple recursions); data matrix of full "
               "column rank (random data); conditioning predicate cond(XcH Xc) <= 1e8 evaluated on a data matrix built with numpy "
               "(kind sanity fails the run when fewer than 60% of the generated candidates satisfy it); inside that domain a "
               "ValueError of modcovar_marple is a violation; backward outputs of arcovar_marple: the same predicate on the "
               "backward regressor matrix; at N = 2p the zero minimum is compared with max(1e-9, 1e-13 cond) x energy; "
               "exact recovery: frequencies on a grid of spacing 1/40, the same conditioning predicate on the noiseless data matrix",
               "kind xmin: full column rank to working precision (sigma_min/sigma_max >= 1e-13, numpy SVD; records below are counted under "
               "tag xmin:*:rank-deficient(excluded), kind overfit covers that regime); tolerances scale with eps/rho (coefficients, "
               "frequencies of clustered tones) and with the rounding floor eps^2 |x|^2 (1+|a*|_1)^2 (energy), constants = 30x..80x the worst "
               "observed on the unchanged tree (table in the module); the Marple routines are compared only where "
               "sigma_min/sigma_max >= 1e-4 (cond(XcH Xc) <= 1e8: tags xmin:*:marple-checked / marple-excluded(cond>1e8)), there a "
               "ValueError is a violation; the returned error / variance is compared with the exact minimum relative to eps |x|^2 |a|_1 "
               "(it is computed as e0 + Cz.a: cancellation makes it unreliable relative to a minimum below eps |x|^2, on the unchanged "
               "tree too, so it is not compared relative to the minimum)",
               "kind rdef (exactly rank-deficient regressors, minimum > 0): only the clauses that are meaningful without a unique minimiser - "
               "returned error = energy of the returned coefficients = THE minimum, residual orthogonal to every regressor; domain: the "
               "non-zero singular values are resolved in double precision, sigma_rank/sigma_max >= 1e-13 (tag rdef:*:unresolved(excluded) "
               "counts the others); rank deficiency from exact ZEROS only: records whose dependent columns are non-zero (constant / "
               "alternating / periodic integer data with a changed end sample, order > number of components) are excluded as a PENDING "
               "FINDING on the unchanged tree (/tmp/finding_C14.py: scipy's cut-off eps sigma_max keeps null directions computed as "
               "1e-16..6e-16 sigma_max; coefficients 1e14, error off by 1% of |x|^2, AssertionError on complex data); the Marple routines "
               "are not evaluated on rank-deficient records (measured: non-finite coefficients / ValueError on 40% / 80% of them; tag "
               "rdef:*:marple-excluded(rank<p)); tolerances relative to eps^2 |x|^2 (1+|a|_1)^2 (energy), eps |x|^2 max(1,|a|_1) (error) and "
               "eps |column| |x| (1+|a|_1) (orthogonality) with a = the returned coefficients, 38x..100x the worst of 22400 records on the "
               "unchanged tree; kind sanity fails the run when fewer than 60% of the generated records are rank deficient with a non-zero "
               "minimum (for each of the two methods)"]
RULE = ("real/complex data of length 6..128 (noise, exponentials in noise, noiseless exponentials, integer data, wide dynamic range, "
        "complex dtype with zero imaginary part; handed over as float64/complex128 arrays, int64/int32 arrays, lists of floats, "
        "complex numbers or Python ints) x orders 1..min(N/2, 20), N = 2p included for all four functions; order 0 of the Marple "
        "routines (trivial); exact-mode model cases N <= 24, order <= 6; exact recovery: p = 1..8 complex exponentials with "
        "N = 2p, 2p+1, ..40, K real sinusoids at order 2K, tones exactly at 0 and 0.5; "
        "kind xmin (exact minimum): records whose regressor matrix has full column rank and sigma_min/sigma_max anywhere in 1e-13..1 "
        "(stratified per decade) - (a) exactly representable records = exact low-order recurrence (constant, alternating, c(+-2)^n, "
        "Fibonacci-like, integer patterns of period 3 / 4, times i^n or (1+i) when complex) + 2^-s x small integers, s = 1..40, "
        "order > number of exact components, N = 8..24, order <= 6; (b) noiseless sums of p = 2..5 complex exponentials with clustered "
        "distinct frequencies (spacing 1e-3..1e-2) and 1..2 real sinusoids within 1e-3..1e-2 of DC / Nyquist, order p, N = 2p..128; "
        "(c) 1..3 complex exponentials / 1..2 real sinusoids in white noise at SNR 0..200 dB, order > number of exponentials, "
        "N = 8..96, order <= 14; for each: arcovar, modcovar, pcovar(...).ar/.rho, pmodcovar(...).ar/.rho and (where cond(XcH Xc) <= 1e8) "
        "arcovar_marple / modcovar_marple against the exact minimiser and minimum of the Lean model (rationals), the energy of the "
        "returned coefficients evaluated in exact integer arithmetic and compared relative to the MINIMUM + rounding floor, not to |x|^2; "
        "kind rdef (EXACTLY rank-deficient regressors, target outside their span: minimiser not unique, minimum > 0): records that are "
        "exactly zero except a burst (white noise / small integers / a single impulse / a step; real and complex) in the last m <= p samples, "
        "in the first m samples (impulse at n = 0 included) or at both ends, N = 6..128, orders 1..min(N/2, 20) incl. N = 2p and rank 0 "
        "(all regressors zero), handed over as float64/complex128 arrays, int64/int32 arrays, lists of floats / complex / Python ints: "
        "arcovar, modcovar, pcovar(...).ar/.rho, pmodcovar(...).ar/.rho - returned error (rho x rows) = THE minimum computed in exact "
        "integer arithmetic, exact energy of the returned coefficients = that minimum, residual orthogonal to every regressor; "
        "records of the family that turn out full rank or with a zero minimum are evaluated too and counted (tags rdef:cov:* / rdef:mod:*); "
        "kind rdefx: the exact reference against the Lean model (singular <=> rank < order, equal minima); "
        "non-trivial = order >= 2")


def _sp():
    import spectrum
    return spectrum


def c(v):
    return np.asarray(v).astype(complex).ravel()


def _fn(name):
    sp = _sp()
    return {"arcovar": sp.arcovar, "modcovar": sp.modcovar, "arcovarm": sp.arcovar_marple, "modcovarm": sp.modcovar_marple}[name]


def _present(p):
    """what is handed to the real API: p["x"] is always a float64/complex128 array (so that the runner's amplitude / strided /
    degenerate variants apply); p["inp"] names the class it is presented as.  Integer classes apply only while the samples
    are integers (an amplitude variant 2^-30 of integer data is presented as the float array)."""
    x = np.asarray(p["x"])
    inp = p.get("inp", "array")
    if inp == "list":
        return [complex(v) if np.iscomplexobj(x) else float(v) for v in x]
    if inp in ("int64", "int32", "pyint") and not np.iscomplexobj(x) and np.all(x == np.round(x)) and np.max(np.abs(x)) < 2 ** 31:
        if inp == "pyint":
            return [int(v) for v in x]
        return x.astype(np.int64 if inp == "int64" else np.int32)
    return x


def _inp_tag(p):
    xin = _present(p)
    if isinstance(xin, list):
        return "inp:list-" + type(xin[0]).__name__
    return "inp:" + str(xin.dtype)


def _dmat(x, order):
    """data matrix written independently of the library: row t (t = order..N-1) is [x[t], x[t-1], .., x[t-order]]"""
    x = np.asarray(x).astype(complex)
    idx = np.arange(order, len(x))[:, None] - np.arange(order + 1)[None, :]
    return x[idx]


def _cond(x, order, backward=False):
    """cond(XcH Xc) of the covariance regressor matrix (the conditioning predicate of the domain); backward=True: of the
    regressor matrix of the backward predictor, [x[t], .., x[t-order+1]]"""
    X = _dmat(x, order)
    X = X[:, :order] if backward else X[:, 1:]
    if X.shape[1] == 0:
        return 1.0
    with np.errstate(all="ignore"):
        v = np.linalg.cond(X.conj().T @ X)
    return float(v) if np.isfinite(v) else float("inf")


def _cond_ok(x, order):
    return _cond(x, order) <= 1e8


def _ls(M, y):
    """numpy least squares: minimiser of |y + M b|^2 and the minimum"""
    b = np.linalg.lstsq(-M, y, rcond=None)[0]
    return b, float(np.sum(np.abs(y + M @ b) ** 2))


def _ls_backward(x, order):
    """backward predictor: minimise sum_{t=p}^{N-1} |x[t-p] + sum_j b_j x[t-p+j+1]|^2"""
    X = _dmat(x, order)
    return _ls(X[:, order - 1::-1] if order else X[:, :0], X[:, order])


def _ls_modified_min(x, order):
    """minimum of the forward + backward energy at the given order"""
    X = _dmat(x, order)
    M = np.vstack([X[:, 1:], np.conj(X[:, order - 1::-1])])
    y = np.concatenate([X[:, 0], np.conj(X[:, order])])
    return _ls(M, y)[1]


def impl_fit(p):
    r = _fn(p["fn"])(_present(p), p["order"])
    if p["fn"] in ("arcovar", "modcovar"):
        return [c(r[0]), c([r[1]])]
    return [c(r[0])[: p["order"]], c([r[1]])]


def _post_energy(p, iv, mv):
    """boundary N = 2p: the covariance minimum is exactly 0, so the error is compared relative to the signal energy
    (atol of the kind), whatever the amplitude of the record"""
    en = float(np.sum(np.abs(np.asarray(p["x"])) ** 2))
    return [iv[0], np.asarray(iv[1]) / en], [mv[0], np.asarray(mv[1]) / en]


def model_fit(p):
    return ("Q", proto.request(p["fn"], "Q", [p["order"]], [np.asarray(p["x"])]))


def model_fit_rec(p):
    """the step-by-step transliteration of Marple's recursions (Model/Marple.lean), not the specification-level stand-in"""
    return ("Q", proto.request({"arcovarm": "arcovarmr", "modcovarm": "modcovarmr"}[p["fn"]], "Q", [p["order"]], [np.asarray(p["x"])]))


def oracle_rec_exact(p):
    """inside the model, in exact rational arithmetic: the transliterated recursion returns EXACTLY the least-squares
    specification (coefficients and per-sample minimum) on every record of the batch - the unproved half of
    'Marple's recursion = least squares' tested with equality, not a tolerance"""
    lines = []
    for x, order in p["batch"]:
        for cmd in ("arcovarm", "arcovarmr", "modcovarm", "modcovarmr"):
            lines.append(proto.request(cmd, "Q", [order], [np.asarray(x)]))
    rep = proto.run_driver(lines)
    out = []
    for i, (x, order) in enumerate(p["batch"]):
        r = [s.strip() for s in rep[4 * i: 4 * i + 4]]
        for a, b, name in ((r[0], r[1], "arcovar_marple"), (r[2], r[3], "modcovar_marple")):
            if a.startswith("err") and b.startswith("err"):
                continue          # singular normal equations: both sides reject
            if a != b:
                out.append("model: transliterated %s recursion differs from the exact least-squares solution (N=%d order=%d): %s vs %s" % (
                    name, len(x), order, b[:80], a[:80]))
    return out[:3]


def _resid(x, a, p):
    N = len(x)
    ef = np.array([x[t] + sum(a[j] * x[t - j - 1] for j in range(p)) for t in range(p, N)])
    eb = np.array([x[t - p] + sum(np.conj(a[j]) * x[t - p + j + 1] for j in range(p)) for t in range(p, N)])
    return ef, eb


def _coef_rel(u, v):
    """relative difference of two coefficient vectors; 0 when they agree to 1e-12 in absolute terms (the coefficients are
    dimensionless: when the exact solution is 0 - integer data with a vanishing lag product - both sides return rounding
    noise of size 1e-16 and a purely relative measure is meaningless)"""
    r = rel(u, v)
    if r > 0 and np.isfinite(r) and float(np.max(np.abs(np.asarray(u) - np.asarray(v)))) <= 1e-12:
        return 0.0
    return r


def oracle_fit(p):
    sp = _sp()
    xin = _present(p)
    x = np.asarray(p["x"]).astype(complex)
    N = len(x)
    order = p["order"]
    out = []
    en = float(np.sum(np.abs(x) ** 2))
    cls = "complex" if np.iscomplexobj(p["x"]) else "real"
    where = "(N=%d order=%d %s, input %s)" % (N, order, cls, _inp_tag(p)[4:])
    # covariance
    a, e = sp.arcovar(xin, order)
    a = c(a)
    if len(a) != order:
        return ["arcovar returned %d coefficients for order %d" % (len(a), order)]
    ef, _ = _resid(x, a, order)
    orth = max(abs(sum(ef[t - order] * np.conj(x[t - j - 1]) for t in range(order, N))) for j in range(order)) / en
    emin = float(np.sum(np.abs(ef) ** 2))
    if orth > 1e-7:
        out.append("arcovar residual is not orthogonal to the regressors: %.2e (N=%d order=%d %s)" % (
            orth, N, order, "complex" if np.iscomplexobj(p["x"]) else "real"))
    if abs(e - emin) > 1e-7 * en:
        out.append("arcovar error %r is not the minimum forward energy %r (N=%d order=%d)" % (e, emin, N, order))
    for d in (1e-3, -1e-3j):
        a2 = a.copy()
        a2[0] += d
        if np.sum(np.abs(_resid(x, a2, order)[0]) ** 2) < emin - 1e-9 * en:
            out.append("arcovar coefficients do not minimise the forward energy")
    # the new clauses (boundary N = 2p, other outputs of the Marple routines, ValueError) are stated on the domain of the
    # property: cond(XcH Xc) <= 1e8, evaluated on the numpy data matrix
    cf = _cond(x, order)
    dom = cf <= 1e8
    exact_fit = N == 2 * order       # square regressor matrix: the forward minimum is 0
    if exact_fit and dom and abs(e) > 1e-9 * en:
        out.append("arcovar error %r is not 0 at N = 2p (energy %r) %s" % (e, en, where))
    if N - order > order or dom:
        am = sp.arcovar_marple(xin, order)
        if _coef_rel(c(am[0])[:order], a) > 1e-5:
            out.append("arcovar_marple coefficients differ from the least-squares solution: %.2e (N=%d order=%d)" % (
                rel(c(am[0])[:order], a), N, order))
        if abs(am[1] * (N - order) - emin) > 1e-5 * en:
            out.append("arcovar_marple error*(N-p) = %r differs from the minimum %r" % (am[1] * (N - order), emin))
        if dom:
            # rounding of the recursion grows with the conditioning: 1e-9 up to cond 1e4, at most the general 1e-5 at cond 1e8
            if exact_fit and not abs(am[1] * (N - order)) <= max(1e-9, 1e-13 * cf) * en:
                out.append("arcovar_marple error*(N-p) = %r is not 0 at N = 2p (energy %r) %s" % (am[1] * (N - order), en, where))
            if len(am) != 5:
                out.append("arcovar_marple returns %d values instead of (af, pf, ab, pb, pbv)" % len(am))
            else:
                af, ab = c(am[0]), c(am[2])
                if np.any(af[order:] != 0) or np.any(ab[order:] != 0):
                    out.append("arcovar_marple: entries beyond the order are not 0 in af / ab %s" % where)
                # the backward predictor has its own regressor matrix: same conditioning predicate on that one
                if _cond(x, order, backward=True) <= 1e8:
                    b, ebmin = _ls_backward(x, order)
                    if _coef_rel(ab[:order], b) > 1e-5:
                        out.append("arcovar_marple backward coefficients differ from the backward least-squares solution: %.2e %s" % (
                            rel(ab[:order], b), where))
                    if not abs(am[3] * (N - order) - ebmin) <= 1e-5 * en:
                        out.append("arcovar_marple backward error*(N-p) = %r differs from the backward minimum %r %s" % (
                            am[3] * (N - order), ebmin, where))
    # modified covariance
    a, e = sp.modcovar(xin, order)
    a = c(a)
    if len(a) != order:
        return out + ["modcovar returned %d coefficients for order %d" % (len(a), order)]
    ef, eb = _resid(x, a, order)
    emin = float(np.sum(np.abs(ef) ** 2) + np.sum(np.abs(eb) ** 2))
    g = max(abs(sum(ef[t - order] * np.conj(x[t - j - 1]) for t in range(order, N))
                + sum(np.conj(eb[t - order]) * x[t - order + j + 1] for t in range(order, N))) for j in range(order)) / en
    if g > 1e-7:
        out.append("modcovar forward+backward residual is not orthogonal to the regressors: %.2e (N=%d order=%d %s)" % (
            g, N, order, "complex" if np.iscomplexobj(p["x"]) else "real"))
    if abs(e - emin) > 1e-7 * en:
        out.append("modcovar error %r is not the minimum forward+backward energy %r" % (e, emin))
    if N - order > order or dom:
        try:
            am = sp.modcovar_marple(xin, order)
        except ValueError as ex:
            # the recursion's own validity checks (ill-conditioned stage): a violation inside the domain
            am = None
            if dom:
                out.append("modcovar_marple raises ValueError (%s) on a well-conditioned record: cond %.1e %s" % (
                    str(ex)[:60], _cond(x, order), where))
        if am is not None:
            if _coef_rel(c(am[0])[:order], a) > 1e-5:
                out.append("modcovar_marple coefficients differ from the least-squares solution: %.2e (N=%d order=%d)" % (
                    rel(c(am[0])[:order], a), N, order))
            if abs(am[1] * 2 * (N - order) - emin) > 1e-5 * en:
                out.append("modcovar_marple error*2(N-p) = %r differs from the minimum %r" % (am[1] * 2 * (N - order), emin))
            if dom:
                if len(am) != 3:
                    out.append("modcovar_marple returns %d values instead of (A, P, Pv)" % len(am))
                else:
                    if np.any(c(am[0])[order:] != 0):
                        out.append("modcovar_marple: entries of A beyond the order are not 0 %s" % where)
                    Pv = np.asarray(am[2], dtype=float).ravel()
                    if len(Pv) != order:
                        out.append("modcovar_marple returns %d stage variances for order %d" % (len(Pv), order))
                    else:
                        for k in range(order):
                            mk = _ls_modified_min(x, k + 1)
                            if not abs(Pv[k] * 2 * (N - k - 1) - mk) <= 1e-5 * en:
                                out.append("modcovar_marple Pv[%d]*2(N-%d) = %r differs from the order-%d minimum %r %s" % (
                                    k, k + 1, Pv[k] * 2 * (N - k - 1), k + 1, mk, where))
                                break
    return out


def oracle_fit32(p):
    """single-precision data: the returned coefficients must still be the least-squares fit of THESE samples (to single
    precision): residual orthogonal to every regressor, returned error = the minimum"""
    x32 = np.asarray(p["x"])
    x = x32.astype(complex)
    N, order = len(x), p["order"]
    en = float(np.sum(np.abs(x) ** 2))
    out = []
    for name in ("arcovar", "modcovar"):
        a, e = _fn(name)(x32, order)
        a = c(a)
        ef, eb = _resid(x, a, order)
        g = [sum(ef[t - order] * np.conj(x[t - j - 1]) for t in range(order, N)) for j in range(order)]
        emin = float(np.sum(np.abs(ef) ** 2))
        if name == "modcovar":
            g = [g[j] + sum(np.conj(eb[t - order]) * x[t - order + j + 1] for t in range(order, N)) for j in range(order)]
            emin += float(np.sum(np.abs(eb) ** 2))
        if max(abs(v) for v in g) / en > 1e-3:
            out.append("%s on %s data: residual is not orthogonal to the regressors (%.2e): not the least-squares fit (N=%d order=%d)" % (
                name, x32.dtype, max(abs(v) for v in g) / en, N, order))
        if abs(e - emin) > 1e-3 * en:
            out.append("%s on %s data: returned error %r is not the minimum %r" % (name, x32.dtype, e, emin))
    return out


def oracle_recover(p):
    sp = _sp()
    x = np.asarray(p["x"])
    order = p["order"]
    f = np.sort(np.asarray(p["freqs"]))
    out = []
    for name in ("arcovar", "modcovar"):
        a, e = _fn(name)(x, order)
        rts = np.roots(np.concatenate(([1], c(a))))
        if np.max(np.abs(f)) < 0.5:
            fr = np.sort(np.angle(rts) / (2 * np.pi))
            bad = len(fr) != len(f) or np.max(np.abs(fr - f)) > 1e-7
        else:
            # a frequency exactly at 0.5 = -0.5: compare on the circle (every expected frequency has a root within 1e-7 and
            # every root an expected frequency; the expected frequencies are distinct)
            fr = np.angle(rts) / (2 * np.pi)
            d = np.abs(np.angle(np.exp(2j * np.pi * (fr[:, None] - f[None, :])))) / (2 * np.pi) if len(fr) else np.ones((1, len(f)))
            bad = len(fr) != len(f) or np.max(np.min(d, axis=0)) > 1e-7 or np.max(np.min(d, axis=1)) > 1e-7
        if bad or np.max(np.abs(np.abs(rts) - 1)) > 1e-7:
            out.append("%s does not recover the %d frequencies of a noiseless sum of exponentials: %s vs %s (N=%d, %s)" % (
                name, order, fr, f, len(x), x.dtype))
        if abs(e) > 1e-8 * float(np.sum(np.abs(x) ** 2)):
            out.append("%s error %r is not 0 on a noiseless sum of exponentials" % (name, e))
    return out


def oracle_sanity(p):
    """harness-level: the conditioning filter of the generator (numpy, independent of the library) must keep most of the
    candidates of every family; an empty family would otherwise pass silently"""
    out = []
    for fam, (ok, total) in sorted(p["counts"].items()):
        if total >= 8 and ok < 0.6 * total:
            out.append("harness: only %d of %d generated candidates of family '%s' satisfy the conditioning predicate: "
                       "the case families are (nearly) empty" % (ok, total, fam))
        if total == 0:
            out.append("harness: family '%s' generated no candidate" % fam)
    return out


def oracle_overfit(p):
    """noiseless sum of K exponentials fitted with order p > K: the minimum is 0 and must be returned as such (finite)"""
    x = np.asarray(p["x"])
    order = p["order"]
    out = []
    en = float(np.sum(np.abs(x) ** 2))
    for name in ("arcovar", "modcovar"):
        a, e = _fn(name)(x, order)
        a = c(a)
        if not np.isfinite(e) or abs(e) > 1e-7 * en:
            out.append("%s on a noiseless sum of %d exponentials with order %d returns error %r, not the minimum 0 (N=%d)" % (
                name, p["K"], order, e, len(x)))
        if not np.all(np.isfinite(a)):
            out.append("%s returns non-finite coefficients on rank-deficient noiseless data" % name)
        else:
            ef, eb = _resid(x.astype(complex), a, order)
            if np.sum(np.abs(ef) ** 2) > 1e-7 * en:
                out.append("%s coefficients do not reach the zero minimum on noiseless data (order %d > K=%d)" % (name, order, p["K"]))
    return out


# --------------------------------------------------------------------------------------------------
# Exact-minimum oracle (kind xmin): THE minimiser and THE minimum of the record, as exact rationals from the Lean model
# (driver commands arcovar / modcovar in Q mode: every double is a dyadic rational, so any float64 record is an exact-mode
# input), against the energy reached by the returned coefficients, evaluated here in exact integer arithmetic.  Every
# comparison is relative to the MINIMUM (plus the rounding floor of a backward-stable solver), not to |x|^2: a solution that
# is optimal only up to a fraction of the minimum (truncated SVD, a dropped weak direction, a regularised solve) satisfies
# "returned e = energy of returned a" and "residual orthogonal to the regressors relative to |X||x|" and is invisible to the
# kinds above whenever the minimum is a tiny fraction of the signal energy.
#
# Tolerances = what the UNCHANGED tree achieves: two sweeps of the generators below (thorough tier, 30 seeds = 5200 records each), plus
# 5500 records of an earlier sweep of families (a) and (c) and 19000 clustered-tone records for the frequency clause, over
# sigma_min/sigma_max = rho from 1e-13 to 1; worst observed -> bound used (margin):
#   lstsq functions   E(a) - e*          453 u      -> 3e4 u   (66x)    u = eps^2 |x|^2 (1 + |a*|_1)^2   (rounding floor)
#   and the classes   |a - a*|_inf       4.7 v      -> 300 v   (63x)    v = eps/rho max(1, |a*|_inf)
#                     |e - e*|           39.8 w     -> 3e3 w   (75x)    w = eps |x|^2 max(1, |a|_1)
#   noiseless tones   frequency error    46 eps/rho and 8.8 eps/rho (1+|a*|_1) -> min(1500, 300 (1+|a*|_1)) eps/rho  (32x, 34x)
#   Marple, rho>=1e-4 E(a_m) - e*        (453 + 41/rho^2) u -> (3e4 + 4000/rho^2) u   (97x; heavy tail: 12.9 in one sweep, 41 in the other)
#                     |a_m - a*|_inf     9.4 eps/rho^2 max(1, |a*|_inf) -> 1000   (106x; 2.6 in one sweep, 9.4 in the other)
#                     |P rows - e*|      36 w       -> 3e3 w   (83x)
# (eps = 2^-52; rho = sigma_min/sigma_max of the regressor matrix of the function concerned, numpy SVD of a matrix built here;
#  E(.) = energy evaluated exactly; a*, e* = exact minimiser / minimum.)  With a solver that drops the singular values below
# 1.5e-8 sigma_max the first line is exceeded by many orders of magnitude (1e8 .. 1e15 u observed) on records with rho < 1.5e-8.
EPS = 2.0 ** -52
XMIN_RHO_MIN = 1e-13        # below: rank deficient to working precision, any minimiser is acceptable (kind overfit covers it)
XMIN_MARPLE_RHO = 1e-4      # the fast recursions solve the normal equations: accurate while cond(XcH Xc) = rho^-2 <= 1e8


def _ints(v):
    """exact: complex doubles -> ([(re, im) as Python ints], k) with v = ints / 2^k"""
    v = np.asarray(v).astype(complex).ravel()
    rat = [(float(z.real).as_integer_ratio(), float(z.imag).as_integer_ratio()) for z in v]
    k = max([d.bit_length() - 1 for pair in rat for (_, d) in pair] + [0])
    return [((r[0] << k) // r[1], (i[0] << k) // i[1]) for r, i in rat], k


def _exact_energy(x, a, modified):
    """forward (+ backward when modified) prediction-error energy of the coefficient vector a on the record x: an exact
    Fraction (integer arithmetic on the binary expansions of the doubles; no rounding anywhere)"""
    from fractions import Fraction
    X, kx = _ints(x)
    A, ka = _ints(a)
    N, p = len(X), len(A)
    one = 1 << ka
    s = 0
    for t in range(p, N):
        re, im = X[t][0] * one, X[t][1] * one
        for j in range(p):
            ar, ai = A[j]
            xr, xi = X[t - j - 1]
            re += ar * xr - ai * xi
            im += ar * xi + ai * xr
        s += re * re + im * im
        if modified:
            re, im = X[t - p][0] * one, X[t - p][1] * one
            for j in range(p):
                ar, ai = A[j]
                xr, xi = X[t - p + j + 1]
                re += ar * xr + ai * xi          # conj(a[j]) * x[t-p+j+1]
                im += ar * xi - ai * xr
            s += re * re + im * im
    return Fraction(s, 1 << (2 * (kx + ka)))


def _rho(x, order, modified):
    """sigma_min / sigma_max of the regressor matrix (forward rows; forward + backward rows when modified), numpy SVD"""
    X = _dmat(x, order)
    M = X[:, 1:]
    if modified:
        M = np.vstack([M, np.conj(X[:, order - 1::-1])])
    with np.errstate(all="ignore"):
        sv = np.linalg.svd(M, compute_uv=False)
    if not np.all(np.isfinite(sv)) or sv[0] == 0:
        return 0.0
    return float(sv[-1] / sv[0])


def _exact_min(x, order):
    """[(a*, e*) of arcovar, (a*, e*) of modcovar] from the Lean model in exact rational arithmetic (None: singular)"""
    rep = proto.run_driver([proto.request(cmd, "Q", [order], [np.asarray(x)]) for cmd in ("arcovar", "modcovar")])
    out = []
    for r in rep:
        st, val = proto.parse_reply(r, "Q")
        out.append((proto.q2c(val[0]), val[1][0][0]) if st == "ok" else None)
    return out


def _freq_err(a, f):
    """largest circular distance in the best one-to-one pairing of the expected frequencies with the root angles"""
    from scipy.optimize import linear_sum_assignment
    z = np.roots(np.concatenate(([1], c(a))))
    if len(z) != len(f) or not np.all(np.isfinite(z)):
        return float("inf"), z
    fe = np.angle(z) / (2 * np.pi)
    d = np.abs(fe[None, :] - np.asarray(f)[:, None])
    d = np.minimum(d, 1 - d)
    rows, cols = linear_sum_assignment(d)
    return float(d[rows, cols].max()), z


def xmin_measure(p):
    """-> [(label, observed, bound, message)]: every comparison of the exact-minimum oracle with the value observed and the
    bound it is held against (the oracle reports the entries with observed > bound; the sweep that fixed the bounds printed
    max observed / bound per label)"""
    sp = _sp()
    xin = _present(p)
    x = np.asarray(p["x"]).astype(complex)
    N, order = len(x), p["order"]
    en = float(np.sum(np.abs(x) ** 2))
    cls = "complex" if np.iscomplexobj(p["x"]) else "real"
    ref = _exact_min(p["x"], order)
    out = []
    for modified, name, mname, cname in ((False, "arcovar", "arcovar_marple", "pcovar"), (True, "modcovar", "modcovar_marple", "pmodcovar")):
        rho = _rho(x, order, modified)
        if not rho >= XMIN_RHO_MIN or ref[modified] is None:
            continue                # not of full column rank to working precision: outside this oracle (tag xmin:rank-deficient)
        astar, estar = ref[modified]
        rows = (2 if modified else 1) * (N - order)
        what = "minimum forward+backward energy" if modified else "minimum forward energy"
        where = "(N=%d order=%d %s, family %s, sigma_min/sigma_max %.1e)" % (N, order, cls, p.get("fam", "-"), rho)
        ainf = max(1.0, float(np.max(np.abs(astar)))) if order else 1.0
        u = EPS ** 2 * en * (1.0 + float(np.sum(np.abs(astar)))) ** 2
        a, e = getattr(sp, name)(xin, order)
        a = c(a)
        if len(a) != order or not np.all(np.isfinite(a)) or not np.isfinite(e):
            out.append((name + ":finite", 1.0, 0.0, "%s returns %d coefficients / non-finite values for order %d %s" % (name, len(a), order, where)))
            continue
        w = EPS * en * max(1.0, float(np.sum(np.abs(a))))
        E = _exact_energy(x, a, modified)
        if E < estar:
            out.append(("harness", 1.0, 0.0, "harness: exact energy of the returned coefficients is below the model's minimum %s" % where))
            continue
        ex = float(E - estar)
        ratio = float(E / estar) if estar else float("inf")
        out.append((name + ":energy", ex, 3e4 * u,
                    "%s coefficients are not the minimiser: their energy exceeds the exact %s by %.3e = %.3g x the rounding floor "
                    "(energy / minimum = %.6g, minimum / signal energy = %.1e) %s" % (name, what, ex, ex / u if u else np.inf, ratio, float(estar) / en, where)))
        da = float(np.max(np.abs(a - astar))) if order else 0.0
        out.append((name + ":coef", da, 300 * EPS / rho * ainf,
                    "%s coefficients differ from the exact minimiser by %.2e (max-norm; conditioning allows %.1e) %s" % (
                        name, da, 300 * EPS / rho * ainf, where)))
        out.append((name + ":e", abs(e - float(estar)), 3e3 * w,
                    "%s returned error %r is not the exact %s %r (difference %.2e of the signal energy) %s" % (
                        name, e, what, float(estar), abs(e - float(estar)) / en, where)))
        if p.get("freqs") is not None:
            f = np.asarray(p["freqs"], dtype=float)
            fe, z = _freq_err(a, f)
            ftol = min(1500.0, 300.0 * (1.0 + float(np.sum(np.abs(astar))))) * EPS / rho
            out.append((name + ":freq", fe, ftol,
                        "%s does not recover the %d frequencies of a noiseless sum of exponentials: error %.2e (conditioning allows %.1e), "
                        "estimates %s vs %s %s" % (name, order, fe, ftol, np.sort(np.angle(z) / (2 * np.pi)), np.sort(f), where)))
        # the classes: same coefficients, variance = minimum per row
        q = getattr(sp, cname)(xin, order)
        q()
        ar = c(q.ar)
        if len(ar) != order or not np.all(np.isfinite(ar)):
            out.append((cname + ":finite", 1.0, 0.0, "%s(...).ar has %d entries / non-finite values for order %d %s" % (cname, len(ar), order, where)))
        else:
            exq = float(_exact_energy(x, ar, modified) - estar)
            out.append((cname + ":energy", exq, 3e4 * u,
                        "%s(...).ar is not the minimiser: its energy exceeds the exact %s by %.3e = %.3g x the rounding floor %s" % (
                            cname, what, exq, exq / u if u else np.inf, where)))
            out.append((cname + ":rho", abs(float(q.rho) * rows - float(estar)), 3e3 * w,
                        "%s(...).rho x rows = %r is not the exact %s %r %s" % (cname, float(q.rho) * rows, what, float(estar), where)))
        # the fast recursions, where the normal equations they solve are accurate: printed predicate, tag xmin:marple-*
        if rho >= XMIN_MARPLE_RHO:
            try:
                am = getattr(sp, mname)(xin, order)
            except ValueError as exn:
                out.append((mname + ":raises", 1.0, 0.0, "%s raises ValueError (%s) on a record with cond(XcH Xc) = %.1e %s" % (
                    mname, str(exn)[:60], rho ** -2, where)))
                continue
            ak = c(am[0])[:order]
            exm = float(_exact_energy(x, ak, modified) - estar)
            out.append((mname + ":energy", exm, (3e4 + 4000 / rho ** 2) * u,
                        "%s coefficients are not the minimiser: their energy exceeds the exact %s by %.3e = %.3g x the rounding floor "
                        "(allowed %.3g) %s" % (mname, what, exm, exm / u if u else np.inf, 3e4 + 4000 / rho ** 2, where)))
            dm = float(np.max(np.abs(ak - astar))) if order else 0.0
            out.append((mname + ":coef", dm, 1000 * EPS / rho ** 2 * ainf,
                        "%s coefficients differ from the exact minimiser by %.2e (conditioning allows %.1e) %s" % (
                            mname, dm, 1000 * EPS / rho ** 2 * ainf, where)))
            out.append((mname + ":P", abs(float(np.real(am[1])) * rows - float(estar)), 3e3 * w,
                        "%s error x rows = %r is not the exact %s %r (difference %.2e of the signal energy) %s" % (
                            mname, float(np.real(am[1])) * rows, what, float(estar), abs(float(np.real(am[1])) * rows - float(estar)) / en, where)))
    return out


def oracle_xmin(p):
    return [msg for _, obs, bound, msg in xmin_measure(p) if not obs <= bound]


def _xmin_tags(p):
    x = np.asarray(p["x"])
    t = ["complex" if np.iscomplexobj(x) else "real", "xmin:" + p.get("fam", "-")]
    for modified, nm in ((False, "cov"), (True, "mod")):
        rho = _rho(x.astype(complex), p["order"], modified)
        if not rho >= XMIN_RHO_MIN:
            t.append("xmin:%s:rank-deficient(excluded)" % nm)
            continue
        t.append("xmin:%s:rho=1e%+03d" % (nm, int(np.floor(np.log10(rho)))))
        if rho < 1e-8:
            t.append("xmin:%s:rho<1e-8" % nm)
        t.append("xmin:%s:marple-%s" % (nm, "checked" if rho >= XMIN_MARPLE_RHO else "excluded(cond>1e8)"))
    if len(x) == 2 * p["order"]:
        t.append("N=2p")
    return t


# --------------------------------------------------------------------------------------------------
# Exactly rank-deficient regressors with the target OUTSIDE their span (kind rdef): the minimiser is not unique, THE minimum
# is - and it is strictly positive.  The kinds above never reach this regime: laws / lawsdyn keep cond(XcH Xc) <= 1e8,
# xmin keeps sigma_min/sigma_max >= 1e-13, overfit (rank deficient) only has noiseless exponentials, where the minimum is 0,
# so "the returned error is that minimum" was never evaluated on a rank-deficient record with a non-zero minimum (an error
# taken from a solver's `residues` output, which is EMPTY whenever rank < order, is 0 there).
# Reference: rank and minimum in exact integer arithmetic in this file (_exact_ls: fraction-free elimination of the Gram matrix
# of the regressors, dependent columns skipped - the minimum over an independent column subset IS the minimum); cross-checked
# against the Lean model (kind rdefx: the model rejects the record as singular exactly when the exact rank is < order, and
# on full-rank records its minimum is the same rational).
# Domain (printed predicates, tags rdef:*): the `rank` non-zero singular values are resolved in double precision,
# sigma_rank/sigma_max >= 1e-13 (numpy SVD of a matrix built here; same threshold as xmin) - below that scipy's cut-off
# eps sigma_max truncates directions that carry energy and no floating-point solver reaches the exact minimum;
# the fast Marple routines are kept out of every rank-deficient record (tag rdef:*:marple-excluded(rank<p)): measured on the
# unchanged tree over 2400 such records, arcovar_marple returns non-finite coefficients on 40% and modcovar_marple raises
# ValueError on 80% of them (they solve the singular normal equations).
# Tolerances = what the UNCHANGED tree achieves (sweeps of gen_rdef: 160 seeds of the thorough tier + 200 seeds of the quick tier
# = 22400 records; worst observed -> bound used):
#   E(a) - e*                      2412 u  -> 1e5 u  (41x; heavy tail: 2412 once, 902 next)   u = eps^2 |x|^2 (1 + |a|_1)^2
#   |e - e*|, |rho rows - e*|      30 w    -> 3e3 w  (100x)  w = eps |x|^2 max(1, |a|_1)
#   |<residual, regressor j>|      10.4 v  -> 400 v  (38x)   v = eps |column j| |x| (1 + |a|_1), evaluated exactly
# (a = the RETURNED coefficients: the minimiser is not unique, the library returns the minimum-norm one; a solution whose energy
#  is off by 1e-20 of the signal energy exceeds the first line by six orders of magnitude; an error of 0 instead of a minimum of
#  1e-3 |x|^2 exceeds the second by nine.)
RDEF_RHO_MIN = 1e-13
RDEF_ORTH_TOL = 400.0
_RDEF_CACHE = {}


def _rdef_rows(x, order, modified):
    """regressor rows / targets of the forward (+ backward) problem as exact integers: ([(re, im)] per row, (re, im)), k with
    samples = ints / 2^k"""
    X, k = _ints(x)
    N, p = len(X), order
    rows = []
    for t in range(p, N):
        rows.append(([X[t - j - 1] for j in range(p)], X[t]))
        if modified:
            rows.append(([(X[t - p + j + 1][0], -X[t - p + j + 1][1]) for j in range(p)], (X[t - p][0], -X[t - p][1])))
    return rows, k


def _exact_ls(x, order, modified):
    """(rank of the regressor matrix, minimum of the forward (+ backward) energy) in exact arithmetic, whatever the rank.
    The complex problem is written as a real one of twice the size; fraction-free (Bareiss) elimination of the augmented Gram
    matrix [[G, h], [h^T, y^T y]]: a zero pivot of a positive semi-definite Schur complement means the whole row / column is
    zero (asserted) = a column that depends on the earlier ones, which is skipped; after the last pivot the corner entry
    divided by the last pivot is the minimum."""
    from fractions import Fraction
    rows, k = _rdef_rows(x, order, modified)
    cplx = any(v[1] for m, y in rows for v in m + [y])
    R = []
    for m, y in rows:
        if cplx:
            R.append([v[0] for v in m] + [-v[1] for v in m] + [y[0]])
            R.append([v[1] for v in m] + [v[0] for v in m] + [y[1]])
        else:
            R.append([v[0] for v in m] + [y[0]])
    R = [r for r in R if any(r)]
    q = (2 if cplx else 1) * order
    if not R:
        return 0, Fraction(0)
    A = np.array(R, dtype=object)
    S = [list(r) for r in A.T.dot(A)]
    prev, rank = 1, 0
    for kk in range(q):
        d = S[kk][kk]
        if d == 0:
            if any(S[kk][j] for j in range(kk, q + 1)):
                raise AssertionError("harness: Gram matrix is not positive semi-definite")
            continue
        rank += 1
        Sk = S[kk]
        for i in range(kk + 1, q + 1):
            Si = S[i]
            f = Si[kk]
            if f == 0 and prev == d:
                continue
            for j in range(kk + 1, q + 1):
                Si[j] = (d * Si[j] - f * Sk[j]) // prev       # exact division (Bareiss)
            Si[kk] = 0
        prev = d
    if cplx:
        if rank % 2:
            raise AssertionError("harness: odd rank of a real-ified complex matrix")
        rank //= 2
    return rank, Fraction(S[q][q], prev) / (1 << (2 * k))


def _exact_grad(x, a, modified):
    """<residual of the coefficient vector a, regressor j> for every j: exact integer arithmetic, rounded once at the end"""
    rows, kx = _rdef_rows(x, len(a), modified)
    A, ka = _ints(a)
    p = len(A)
    one = 1 << ka
    g = [[0, 0] for _ in range(p)]
    for m, y in rows:
        re, im = y[0] * one, y[1] * one
        for j in range(p):
            ar, ai = A[j]
            re += ar * m[j][0] - ai * m[j][1]
            im += ar * m[j][1] + ai * m[j][0]
        for j in range(p):
            g[j][0] += m[j][0] * re + m[j][1] * im         # conj(m_j) * r
            g[j][1] += m[j][0] * im - m[j][1] * re
    from fractions import Fraction
    sc = 1 << (2 * kx + ka)
    return np.array([complex(float(Fraction(u, sc)), float(Fraction(v, sc))) for u, v in g])


def _rdef_facts(x, order):
    """per function: (exact rank, exact minimum, sigma_rank/sigma_max of the regressor matrix (numpy SVD), column norms)"""
    xc = np.asarray(x).astype(complex)
    ck = (xc.tobytes(), order)
    if ck in _RDEF_CACHE:
        return _RDEF_CACHE[ck]
    if len(_RDEF_CACHE) > 64:
        _RDEF_CACHE.clear()
    out = _RDEF_CACHE[ck] = []
    for modified in (False, True):
        rank, emin = _exact_ls(x, order, modified)
        X = _dmat(xc, order)
        M = X[:, 1:]
        if modified:
            M = np.vstack([M, np.conj(X[:, order - 1::-1])])
        with np.errstate(all="ignore"):
            sv = np.linalg.svd(M, compute_uv=False)
        rho = float(sv[rank - 1] / sv[0]) if rank and np.all(np.isfinite(sv)) and sv[0] > 0 else (1.0 if rank == 0 else 0.0)
        out.append((rank, emin, rho, np.sqrt(np.sum(np.abs(M) ** 2, axis=0))))
    return out


def _rdef_class(rank, order, emin, rho):
    if not rho >= RDEF_RHO_MIN:
        return "unresolved(excluded)"       # some non-zero singular value is below 1e-13 sigma_max
    return ("rank<p" if rank < order else "full-rank") + ("&min>0" if emin > 0 else "&min=0")


def rdef_measure(p):
    """-> [(label, observed, bound, message)] for arcovar / pcovar and modcovar / pmodcovar on one record"""
    sp = _sp()
    xin = _present(p)
    x = np.asarray(p["x"]).astype(complex)
    N, order = len(x), p["order"]
    en = float(np.sum(np.abs(x) ** 2))
    cls = "complex" if np.iscomplexobj(p["x"]) else "real"
    out = []
    if en == 0:
        return out
    facts = _rdef_facts(p["x"], order)
    for modified, name, cname in ((False, "arcovar", "pcovar"), (True, "modcovar", "pmodcovar")):
        rank, estar, rho, cn = facts[modified]
        if not rho >= RDEF_RHO_MIN:
            continue                 # printed predicate (tag rdef:*:unresolved(excluded))
        rows = (2 if modified else 1) * (N - order)
        what = "minimum forward+backward energy" if modified else "minimum forward energy"
        where = "(N=%d order=%d %s, family %s, input %s, exact rank %d, minimum / signal energy = %.3g, sigma_rank/sigma_max %.1e)" % (
            N, order, cls, p.get("fam", "-"), _inp_tag(p)[4:], rank, float(estar) / en, rho)
        for fname, get in ((name, lambda: getattr(sp, name)(xin, order)), (cname, None)):
            try:
                if get is not None:
                    a, e = get()
                else:
                    q = getattr(sp, cname)(xin, order)
                    q()
                    a, e = q.ar, float(q.rho) * rows
            except Exception as exn:
                out.append((fname + ":raises", 1.0, 0.0, "%s raises %s (%s) %s" % (fname, type(exn).__name__, str(exn)[:60], where)))
                continue
            a = c(a)
            e = complex(e)
            if len(a) != order or not np.all(np.isfinite(a)) or not np.isfinite(e) or e.imag != 0:
                out.append((fname + ":finite", 1.0, 0.0, "%s returns %d coefficients / non-finite or complex values for order %d %s" % (
                    fname, len(a), order, where)))
                continue
            e = e.real
            a1 = float(np.sum(np.abs(a)))
            u = EPS ** 2 * en * (1.0 + a1) ** 2
            w = EPS * en * max(1.0, a1)
            E = _exact_energy(x, a, modified)
            if E < estar:
                out.append(("harness", 1.0, 0.0, "harness: exact energy of the returned coefficients is below the exact minimum %s" % where))
                continue
            ex = float(E - estar)
            out.append((fname + ":energy", ex, 1e5 * u,
                        "%s coefficients are not a minimiser: their energy %r exceeds the exact %s %r by %.3g x the rounding floor %s" % (
                            fname, float(E), what, float(estar), ex / u if u else np.inf, where)))
            lab = "returned error" if get is not None else "rho x rows"
            out.append((fname + ":e", abs(e - float(estar)), 3e3 * w,
                        "%s %s %r is not the exact %s %r (energy of the returned coefficients: %r; difference %.2e of the signal energy) %s" % (
                            fname, lab, e, what, float(estar), float(E), abs(e - float(estar)) / en, where)))
            if get is not None and order:
                g = np.abs(_exact_grad(x, a, modified))
                v = EPS * cn * np.sqrt(en) * (1.0 + a1)
                j = int(np.argmax(g - RDEF_ORTH_TOL * v))
                out.append((fname + ":orth", float(g[j]), RDEF_ORTH_TOL * float(v[j]),
                            "%s residual is not orthogonal to regressor %d: |<r, column>| = %.3e = %.3g x eps |column| |x| (1+|a|_1) %s" % (
                                fname, j + 1, g[j], g[j] / v[j] if v[j] else np.inf, where)))
    return out


def oracle_rdef(p):
    return [msg for _, obs, bound, msg in rdef_measure(p) if not obs <= bound]


def _rdef_tags(p):
    x = np.asarray(p["x"])
    t = ["complex" if np.iscomplexobj(x) else "real", "rdef:" + p.get("fam", "-"), _inp_tag(p)]
    if p.get("content"):
        t.append("rdef:content=" + p["content"])
    for (rank, emin, rho, _), nm in zip(_rdef_facts(x, p["order"]), ("cov", "mod")):
        k = _rdef_class(rank, p["order"], emin, rho)
        t.append("rdef:%s:%s" % (nm, k))
        if k.startswith("rank<p"):
            t.append("rdef:%s:marple-excluded(rank<p)" % nm)
            t.append("rdef:%s:rank=%s" % (nm, "0" if rank == 0 else ("p-1" if rank == p["order"] - 1 else "1..p-2")))
    if len(x) == 2 * p["order"]:
        t.append("N=2p")
    if p["order"] == 1:
        t.append("order1")
    return t


def oracle_rdefx(p):
    """harness-level cross-check of the exact reference of kind rdef against the Lean model (exact mode): the model rejects a
    record as singular exactly when _exact_ls finds rank < order, and on full-rank records both minima are the same rational"""
    lines = []
    for x, order in p["batch"]:
        for cmd in ("arcovar", "modcovar"):
            lines.append(proto.request(cmd, "Q", [order], [np.asarray(x)]))
    rep = proto.run_driver(lines)
    out = []
    for i, (x, order) in enumerate(p["batch"]):
        for modified in (False, True):
            st, val = proto.parse_reply(rep[2 * i + modified], "Q")
            rank, emin = _exact_ls(np.asarray(x), order, modified)
            nm = "modcovar" if modified else "arcovar"
            if st == "ok":
                if rank != order or val[1][0][0] != emin:
                    out.append("harness: exact reference (rank %d, minimum %s) disagrees with the Lean model's %s minimum %s (N=%d order=%d)" % (
                        rank, emin, nm, val[1][0][0], len(x), order))
            elif val == "singular":
                if rank == order:
                    out.append("harness: the Lean model rejects a record as singular for %s that has exact rank %d = order (N=%d)" % (nm, rank, len(x)))
            else:
                out.append("harness: Lean model reply %s/%s for %s (N=%d order=%d)" % (st, val, nm, len(x), order))
    return out[:3]


def _key(p):
    x = np.asarray(p["x"])
    return "%s|%d|%d|%s|%d" % (p.get("fn"), len(x), p["order"], np.iscomplexobj(x), hash(x.tobytes()) & 0xFFFFFF)


def _tags(p):
    t = ["complex" if np.iscomplexobj(p["x"]) else "real", "data:" + p.get("dkind", "exp"), "fn:" + p.get("fn", "-")]
    if "inp" in p:
        t.append(_inp_tag(p))
    if len(p["x"]) == 2 * p["order"]:
        t.append("N=2p")
    if p["order"] == 0:
        t.append("order0")
    return t


# kinds whose parameters describe the content of x: no derived degenerate records
# (lawsdyn: records of wide dynamic range pass the conditioning predicate as generated; a derived record - real part only,
# ends zeroed, a dominant constant added - is a different record that generally does not)
NO_DEGEN = {"overfit", "recover", "lawsdyn", "xmin", "rdef"}

KINDS = {
    "fit": {"impl": impl_fit, "model": model_fit, "rtol": 1e-6, "atol": 1e-9, "key": _key, "tags": _tags,
            "nontrivial": lambda p: p["order"] >= 2},
    "fitm": {"impl": impl_fit, "model": model_fit, "rtol": 1e-5, "atol": 1e-9, "key": _key, "tags": _tags,
             "nontrivial": lambda p: p["order"] >= 2},
    # single-precision input (float32 / complex64): the solvers then work in single precision
    "fit32": {"impl": impl_fit, "model": model_fit, "oracle": oracle_fit32, "rtol": 2e-3, "atol": 1e-4, "key": _key,
              "tags": lambda p: _tags(p) + ["dtype:%s" % np.asarray(p["x"]).dtype], "nontrivial": lambda p: p["order"] >= 2},
    "fitr": {"impl": impl_fit, "model": model_fit_rec, "rtol": 1e-5, "atol": 1e-9, "key": _key, "tags": _tags,
             "nontrivial": lambda p: p["order"] >= 2},
    # boundary N = 2p (square regressor matrix): same comparisons, the error relative to the signal energy
    "fit2p": {"impl": impl_fit, "model": model_fit, "post": _post_energy, "rtol": 1e-6, "atol": 1e-9, "key": _key, "tags": _tags,
              "nontrivial": lambda p: p["order"] >= 2},
    "fitm2p": {"impl": impl_fit, "model": model_fit, "post": _post_energy, "rtol": 1e-5, "atol": 1e-9, "key": _key, "tags": _tags,
               "nontrivial": lambda p: p["order"] >= 2},
    "fitr2p": {"impl": impl_fit, "model": model_fit_rec, "post": _post_energy, "rtol": 1e-5, "atol": 1e-9, "key": _key, "tags": _tags,
               "nontrivial": lambda p: p["order"] >= 2},
    "recexact": {"oracle": oracle_rec_exact, "key": lambda p: "recexact|%d|%d" % (len(p["batch"]), hash(np.asarray(p["batch"][0][0]).tobytes()) & 0xFFFFF),
                 "tags": lambda p: ["recexact:%d" % len(p["batch"])]},
    "laws": {"oracle": oracle_fit, "key": _key, "tags": _tags, "nontrivial": lambda p: p["order"] >= 2},
    "lawsdyn": {"oracle": oracle_fit, "key": _key, "tags": _tags, "nontrivial": lambda p: p["order"] >= 2},
    "overfit": {"oracle": oracle_overfit, "key": _key, "tags": lambda p: ["overfit:K=%d,p=%d" % (p["K"], p["order"])]},
    "recover": {"oracle": oracle_recover, "key": _key,
                "tags": lambda p: ["recover:%d" % p["order"], "recover:" + p.get("fam", "cexp")]},
    # exact minimum (Lean model, rationals) vs exact energy of the returned coefficients, every conditioning down to 1e-13
    "xmin": {"oracle": oracle_xmin, "key": _key, "tags": _xmin_tags, "nontrivial": lambda p: p["order"] >= 2},
    # exactly rank-deficient regressors, target outside their span: exact rank / minimum (integer arithmetic) vs the real code
    "rdef": {"oracle": oracle_rdef, "key": _key, "tags": _rdef_tags, "nontrivial": lambda p: p["order"] >= 2},
    "rdefx": {"oracle": oracle_rdefx, "key": lambda p: "rdefx|%d|%d" % (len(p["batch"]), hash(np.asarray(p["batch"][0][0]).tobytes()) & 0xFFFFF),
              "tags": lambda p: ["rdefx:%d" % len(p["batch"])]},
    "sanity": {"oracle": oracle_sanity, "key": lambda p: "sanity", "nontrivial": lambda p: False,
               "tags": lambda p: ["sanity:%s=%d/%d" % (k, v[0], v[1]) for k, v in sorted(p["counts"].items())]},
}


KINDS["single"] = single.kind("C14")


def _cexp(f, N):
    t = np.arange(N)
    return sum((1 + j) * np.exp(2j * np.pi * fj * t + 1j * j) for j, fj in enumerate(f))


# ---- generators of the exact-minimum kind -----------------------------------------------------------------------------
def _xmin_base(nrng, N, cplx):
    """an exact low-order recurrence with integer (Gaussian-integer) samples: (samples, number of components, name)"""
    n = np.arange(N)
    w = int(nrng.integers(0, 7))
    c1, c2 = float(nrng.integers(1, 6)), float(nrng.integers(1, 6))
    if w == 3 and N <= 12:
        r = [2.0, -2.0][int(nrng.integers(0, 2))]
        b, K, nm = c1 * r ** n, 1, "pow2"                       # integer-valued exponential c (+-2)^n
    elif w == 6 and N <= 16:
        b = np.zeros(N)
        b[0], b[1] = c1, c2
        for t in range(2, N):
            b[t] = b[t - 1] + b[t - 2]                          # Fibonacci-like: two real exponentials
        K, nm = 2, "fib"
    elif w == 4:
        pat = nrng.integers(-4, 5, 3).astype(float)
        pat[0] += float(not np.any(pat != pat[0]))
        b, K, nm = pat[n % 3], 3, "period3"
    elif w == 5:
        pat = nrng.integers(-4, 5, 4).astype(float)
        pat[0] += float(not np.any(pat != pat[0]))
        b, K, nm = pat[n % 4], 4, "period4"
    elif w == 0:
        b, K, nm = c1 * np.ones(N), 1, "const"
    elif w == 1:
        b, K, nm = c1 * (-1.0) ** n, 1, "alt"
    else:
        b, K, nm = c1 + c2 * (-1.0) ** n, 2, "const+alt"
    if cplx:
        if nrng.integers(0, 2):
            b = b * np.array([[1, 1j, -1, -1j][t % 4] for t in n])      # times i^n: as many components, all complex
            nm += "*i^n"
        else:
            b = b * (1 + 1j)
    return b, K, nm


def _xmin_illrec(nrng, i):
    """(a) exactly representable record = exact recurrence of K components + 2^-s x small integers, order > K: the regressor
    matrix has K singular values of order 1 and order-K of relative size ~2^-s (s stratified over 0..40: 1 .. 1e-12)"""
    cplx = bool(nrng.integers(0, 2))
    N = int(nrng.integers(8, 25))
    b, K, nm = _xmin_base(nrng, N, cplx)
    pmax = min(N // 2, 6)
    if K + 1 > pmax:
        return None
    s = 4 * (i % 10) + int(nrng.integers(1, 5))
    # keep the sum exactly representable (53 bits): |b| < 2^B, perturbation < 2^(4-s)
    s = min(s, 48 - int(np.ceil(np.log2(np.max(np.abs(b)) + 1))))
    d = nrng.integers(-8, 9, N).astype(float)
    if cplx:
        d = d + 1j * nrng.integers(-8, 9, N)
    x = b + d * 2.0 ** -s
    return {"x": np.asarray(x, dtype=complex if cplx else float), "order": int(nrng.integers(K + 1, pmax + 1)),
            "fam": "rec:" + nm.split("*")[0], "K": K, "shift": s}


def _xmin_weak(nrng, i, big):
    """(c) exponentials / real sinusoids in white noise at SNR 0..200 dB (stratified), order larger than the number of
    exponentials: sigma_min/sigma_max ~ noise/signal"""
    cplx = bool(nrng.integers(0, 2))
    N = int(nrng.integers(40, 97)) if big else int(nrng.integers(8, 41))
    snr = 20.0 * (i % 10) + float(nrng.uniform(0, 20))
    sig = 10 ** (-snr / 20)
    t = np.arange(N)
    if cplx:
        K = int(nrng.integers(1, 4))
        f = np.sort(nrng.choice(np.arange(-19, 20), size=K, replace=False) / 40.0) + nrng.uniform(-0.01, 0.01, K)
        amp = nrng.uniform(0.5, 2, K) * np.exp(1j * nrng.uniform(0, 6.28, K))
        x = sum(a * np.exp(2j * np.pi * fj * t) for fj, a in zip(f, amp)) + sig * (nrng.standard_normal(N) + 1j * nrng.standard_normal(N))
    else:
        Ks = int(nrng.integers(1, 3))
        f = nrng.choice(np.arange(2, 19), size=Ks, replace=False) / 40.0 + nrng.uniform(-0.01, 0.01, Ks)
        x = sum(nrng.uniform(0.5, 2) * np.cos(2 * np.pi * fj * t + nrng.uniform(0, 6.28)) for fj in f) + sig * nrng.standard_normal(N)
        K = 2 * Ks
    pmax = min(N // 2, 14 if big else 8)
    if K + 1 > pmax:
        return None
    return {"x": x, "order": int(nrng.integers(K + 1, pmax + 1)), "fam": "weaknoise-big" if big else "weaknoise", "K": K, "snr_db": snr}


def _xmin_cluster(nrng, i):
    """(b) noiseless sum of p exponentials with clustered, distinct frequencies (spacing 1e-3 .. 1e-2 cycles/sample), fitted at
    order p; real flavour: one or two real sinusoids within 1e-3 .. 1e-2 of DC or of Nyquist (roots +-f: a cluster of 2 or 4)"""
    sp = 10 ** float(nrng.uniform(-3, -2))
    if i % 3 == 2:
        Ks = 1 + (i // 3) % 2
        f1 = sp * float(nrng.uniform(0.5, 1.5))
        fr = f1 + np.concatenate(([0.0], np.cumsum(sp * nrng.uniform(0.8, 1.25, Ks - 1))))
        if (i // 6) % 2:
            fr = 0.5 - fr
        N = int(nrng.integers(4 * Ks + 2, 129))
        t = np.arange(N)
        x = sum(nrng.uniform(0.5, 2) * np.cos(2 * np.pi * fj * t + nrng.uniform(0.3, 2.8)) for fj in fr)
        return {"x": x, "order": 2 * Ks, "freqs": np.sort(np.concatenate((-fr, fr))), "fam": "cluster-real", "spacing": sp}
    p = 2 + (i // 3) % 4
    f = float(nrng.uniform(-0.45, 0.4)) + np.concatenate(([0.0], np.cumsum(sp * nrng.uniform(0.8, 1.25, p - 1))))
    N = int(nrng.integers(2 * p, 129))
    t = np.arange(N)
    amp = nrng.uniform(0.5, 2, p) * np.exp(1j * nrng.uniform(0, 6.28, p))
    x = sum(a * np.exp(2j * np.pi * fj * t) for fj, a in zip(f, amp))
    return {"x": x, "order": p, "freqs": f, "fam": "cluster", "spacing": sp}


def gen_xmin(nrng, tier, counts):
    quick = tier == "quick"
    fams = ((_xmin_illrec, 20 if quick else 30), (lambda r, i: _xmin_weak(r, i, False), 20 if quick else 30),
            (lambda r, i: _xmin_weak(r, 3 * i + 4, True), 3 if quick else 4), (_xmin_cluster, 18 if quick else 24))
    for g, n in fams:
        for i in range(n):
            q = g(nrng, i)
            if q is None:
                continue
            c0 = counts.setdefault("xmin-" + q["fam"].split(":")[0], [0, 0])
            c0[0] += int(_rho(np.asarray(q["x"]).astype(complex), q["order"], False) >= XMIN_RHO_MIN)
            c0[1] += 1
            yield ("xmin", q)


# ---- generators of the rank-deficient kind ---------------------------------------------------------------------------------
# PENDING-FINDING (/tmp/finding_C14.py): exactly rank-deficient records whose DEPENDENT COLUMNS ARE NON-ZERO - constant /
# alternating / period-3 / period-4 integer records with the last sample (both end samples) changed, order > number of exact
# components (_rdef_glitch below) - break the UNCHANGED arcovar / modcovar: the singular values of the null directions are
# computed as 1e-16..6e-16 sigma_max, above scipy.linalg.lstsq's default cut-off eps sigma_max on about 4% of such records,
# the coefficients then blow up to 1e9..1e14, they are not a minimiser (1e-4 of the signal energy above the minimum), the
# returned error is off by ~1% of the signal energy and complex records trip the assert 'wierd behaviour'
# (e.g. x = ones(12), x[-1] = 3, order 2).  That input class is excluded until ruled on; only records whose rank deficiency
# comes from exact ZEROS (zero columns / zero rows of the regressor matrix) are generated.
RDEF_GLITCH = True   # enabled: defect D33 (rank tolerance of the lstsq call) is fixed in the library


def _rdef_burst(nrng, m, cplx, content):
    if content == "noise":
        b = nrng.standard_normal(m) + (1j * nrng.standard_normal(m) if cplx else 0)
    elif content == "int":
        b = nrng.integers(-5, 6, m).astype(float) + (1j * nrng.integers(-5, 6, m) if cplx else 0)
        if not np.any(b):
            b[-1] = 1.0
    elif content == "step":
        b = np.ones(m) * float(nrng.integers(1, 4)) * ((1 + 1j) if cplx else 1)
    else:   # impulse: one non-zero sample somewhere in the burst
        b = np.zeros(m, dtype=complex if cplx else float)
        b[int(nrng.integers(0, m))] = [1.0, -2.0, 3.0, 0.5][int(nrng.integers(0, 4))] * ((1j if nrng.integers(0, 2) else 1) if cplx else 1)
    return np.asarray(b, dtype=complex if cplx else float)


def _rdef_NP(nrng, i, pmin=1):
    """lengths 6..128 (one record in five above 40), orders pmin..min(N/2, 20); one in seven at the largest order (N = 2p or 20)"""
    big = i % 5 == 4
    N = int(nrng.integers(40, 129)) if big else int(nrng.integers(max(6, 2 * pmin), 41))
    pmax = min(N // 2, 20)
    p = pmax if i % 7 == 3 else int(nrng.integers(pmin, pmax + 1))
    return N, p


def _rdef_onset(nrng, i):
    """exact zeros except a burst (white noise / small integers / one impulse / a step) in the last m <= p samples (tail), the
    first m samples (head) or both: the regressor matrix has zero columns / rows, rank <= m - 1 (covariance) or 2m - 1 (modified)"""
    cplx = bool(nrng.integers(0, 2))
    N, p = _rdef_NP(nrng, i)
    content = ["noise", "int", "impulse", "step"][i % 4]
    where = ["tail", "tail", "head", "both", "tail"][(i // 4) % 5]
    x = np.zeros(N, dtype=complex if cplx else float)
    m = int(nrng.integers(1, (max(1, p // 2) if nrng.integers(0, 3) else p) + 1))
    if where in ("tail", "both"):
        x[N - m:] = _rdef_burst(nrng, m, cplx, content)
    if where in ("head", "both"):
        m0 = int(nrng.integers(1, max(2, p // 2 - m + 1))) if where == "both" else m
        x[:m0] = _rdef_burst(nrng, m0, cplx, content)
    inp = "array"
    if content != "noise":
        inp = (["array", "list"] if cplx else ["array", "int64", "pyint", "list", "int32"])[(i // 4) % (2 if cplx else 5)]
    return {"x": x, "order": p, "fam": "onset-" + where, "content": content, "inp": inp}


def _rdef_glitch(nrng, i):
    """PENDING-FINDING (see above; not generated while RDEF_GLITCH is False): an exact integer recurrence of K components with
    the last / both end / the first sample changed, order > K"""
    cplx = bool(nrng.integers(0, 2))
    for _ in range(20):
        N, p = _rdef_NP(nrng, i, pmin=2)
        b, K, nm = _xmin_base(nrng, N, cplx)
        if p > K:
            break
    else:
        return None
    x = np.array(b, dtype=complex if cplx else float)
    where = ["last", "both", "last", "both", "first"][i % 5]

    def g():
        v = float(nrng.integers(1, 6)) * [1, -1][int(nrng.integers(0, 2))]
        return v * (1j if cplx and nrng.integers(0, 2) else 1)
    if where in ("last", "both"):
        x[-1] += g()
    if where in ("first", "both"):
        x[0] += g()
    return {"x": x, "order": p, "fam": "glitch-" + where, "content": nm.split("*")[0], "K": K, "inp": "array"}


def gen_rdef(nrng, tier, counts):
    quick = tier == "quick"
    fams = [(_rdef_onset, 48 if quick else 80)]
    if RDEF_GLITCH:
        fams.append((_rdef_glitch, 30 if quick else 50))
    batch = []
    for g, n in fams:
        for i in range(n):
            q = g(nrng, i)
            if q is None or not np.any(q["x"]):
                continue
            facts = _rdef_facts(q["x"], q["order"])
            for (rank, emin, rho, _), nm in zip(facts, ("cov", "mod")):
                c0 = counts.setdefault("rdef-%s(rank<p&min>0)" % nm, [0, 0])
                c0[0] += int(_rdef_class(rank, q["order"], emin, rho) == "rank<p&min>0")
                c0[1] += 1
            yield ("rdef", q)
            if len(q["x"]) <= 40 and q["order"] <= 8:
                batch.append((q["x"], q["order"]))
    for j in range(0, len(batch), 24):
        yield ("rdefx", {"batch": batch[j: j + 24]})


def gen(rng, nrng, tier):
    yield from single.gen("C14", nrng, tier)
    quick = tier == "quick"
    counts = {}

    def keep(fam, x, order):
        ok = _cond_ok(x, order)
        c0 = counts.setdefault(fam, [0, 0])
        c0[0] += int(ok)
        c0[1] += 1
        return ok

    n = 120 if quick else 2000
    kinds = ["noise", "tone", "int", "trend"]
    fns = ["arcovar", "modcovar", "arcovarm", "modcovarm"]
    batch = []
    for i in range(n):
        cplx = bool(nrng.integers(0, 2))
        N = int(nrng.integers(6, 25))
        x, dk = gen_data(nrng, N, cplx, kind=kinds[i % 4], exact=True)
        x = np.asarray(x, dtype=complex if cplx else float)
        order = int(nrng.integers(1, min(N // 2, 6) + 1))
        if N - order <= order:
            order = max(1, order - 1)
        if not keep("exact", x, order):
            continue
        fn = fns[i % 4]
        yield ("fitm" if fn.endswith("m") else "fit", {"x": x, "order": order, "fn": fn, "dkind": dk})
        if fn.endswith("m"):
            yield ("fitr", {"x": x, "order": order, "fn": fn, "dkind": dk})
            batch.append((x, order))
        if (i // 4) % 3 == 0:
            ok32 = np.linalg.cond(_dmat(x, order)) < 50
            c0 = counts.setdefault("fit32", [0, 0])
            c0[0] += int(ok32)
            c0[1] += 1
            if ok32:
                yield ("fit32", {"x": x.astype(np.complex64 if cplx else np.float32), "order": order, "fn": fn, "dkind": dk})
    # exact mode at the boundary N - p = p: all four functions, both models of the Marple routines
    b2 = [(6, 3), (8, 4), (10, 5), (12, 6)]
    for i in range(32 if quick else 256):
        N, order = b2[(i // 4) % 4]
        cplx = bool((i // 2) % 2)
        x, dk = gen_data(nrng, N, cplx, kind=kinds[(i // 16) % 4], exact=True)
        x = np.asarray(x, dtype=complex if cplx else float)
        if not keep("exact-N=2p", x, order):
            continue
        for fn in (fns[:2] if i % 2 == 0 else fns[2:]):
            q = {"x": x, "order": order, "fn": fn, "dkind": dk}
            yield ("fitm2p" if fn.endswith("m") else "fit2p", q)
            if fn.endswith("m"):
                yield ("fitr2p", dict(q))
        if i % 2:
            batch.append((x, order))
    # order 0 of the Marple routines (outside the quantifier, which starts at order 1: trivial cases)
    for i in range(4 if quick else 16):
        cplx = bool(i % 2)
        x, dk = gen_data(nrng, int(nrng.integers(6, 25)), cplx, kind=kinds[(i // 2) % 4], exact=True)
        x = np.asarray(x, dtype=complex if cplx else float)
        for fn in fns[2:]:
            yield ("fitr", {"x": x, "order": 0, "fn": fn, "dkind": dk})
            yield ("fitm", {"x": x, "order": 0, "fn": fn, "dkind": dk})
    for j in range(0, len(batch), 40):
        yield ("recexact", {"batch": batch[j: j + 40]})
    # property statement on the real code: every data class of gen_data (except the constant record, which is rank
    # deficient), handed over as array / list / integer dtypes
    lkinds = ["noise", "tone", "int", "trend", "dyn", "intdtype", "czero", "list"]
    n2 = 120 if quick else 1800
    for i in range(n2):
        cplx = bool(nrng.integers(0, 2))
        N = int(nrng.integers(6, 129))
        x, dk = gen_data(nrng, N, cplx, kind=lkinds[i % 8])
        inp = "array"
        if dk == "list":
            inp = "list"
        elif dk in ("int", "intdtype") and not np.iscomplexobj(x):
            inp = ["int64", "int32", "pyint", "array"][(i // 8) % 4] if dk == "intdtype" else ["array", "pyint"][(i // 8) % 2]
        x = np.asarray(x, dtype=complex if np.iscomplexobj(x) else float)
        order = int(nrng.integers(1, min(N // 2, 20) + 1))
        if not keep("laws", x, order):
            continue
        yield ("lawsdyn" if dk == "dyn" else "laws", {"x": x, "order": order, "dkind": dk, "inp": inp})
    # the boundary N - p = p, where the covariance minimum is 0 and the Marple recursions end on an exact fit
    l2 = [(6, 3), (8, 4), (12, 6), (24, 12), (40, 20), (10, 5), (16, 8), (32, 16)]
    for i in range(64 if quick else 512):
        N, order = l2[i % 8]
        cplx = bool(nrng.integers(0, 2))
        dkind = ["noise", "tone", "int", "trend", "noise", "intdtype", "list", "czero"][(i + i // 8) % 8]
        x, dk = gen_data(nrng, N, cplx, kind=dkind)
        inp = "list" if dk == "list" else (["int64", "int32", "pyint"][(i // 8) % 3] if dk == "intdtype" and not np.iscomplexobj(x) else "array")
        x = np.asarray(x, dtype=complex if np.iscomplexobj(x) else float)
        if not keep("laws-N=2p", x, order):
            continue
        yield ("laws", {"x": x, "order": order, "dkind": dk, "inp": inp})
    for i in range(12 if quick else 120):
        p = 1 + i % 4
        N = int(nrng.integers(2 * p + 2, 41))
        f = np.sort(nrng.choice(np.arange(-19, 20), size=p, replace=False) / 40.0)
        t = np.arange(N)
        x = sum((1 + j) * np.exp(2j * np.pi * fj * t + 1j * j) for j, fj in enumerate(f))
        yield ("recover", {"x": x, "order": p, "freqs": f})
        # the same signal fitted with a larger order (rank-deficient), N - order > order and N - order == order
        for extra in (1, 3):
            po = p + extra
            for NN in (2 * po, 2 * po + 5):
                tt = np.arange(NN)
                xx = sum((1 + j) * np.exp(2j * np.pi * fj * tt + 1j * j) for j, fj in enumerate(f))
                yield ("overfit", {"x": xx, "order": po, "K": p})
        if i % 3 == 0:
            tt = np.arange(24)
            yield ("overfit", {"x": np.cos(2 * np.pi * 0.2 * tt + 0.3), "order": 4, "K": 2})
    # exact recovery at the boundaries N = 2p, 2p+1 (lengths >= 6), orders up to 8; the same conditioning predicate as
    # everywhere (close frequencies on a short record make the data matrix ill-conditioned)
    for i in range(24 if quick else 192):
        p = 1 + i % 8
        N = max(6, [2 * p, 2 * p + 1, 2 * p + 2 + int(nrng.integers(0, 30))][(i // 8) % 3])
        f = np.sort(nrng.choice(np.arange(-19, 20), size=p, replace=False) / 40.0)
        x = _cexp(f, N)
        if not keep("recover-cexp", x, p):
            continue
        yield ("recover", {"x": x, "order": p, "freqs": f, "fam": "cexp-N=2p+%d" % min(N - 2 * p, 2)})
    # K real sinusoids: 2K complex exponentials at +-f_j, fitted at the exact order 2K
    for i in range(12 if quick else 120):
        K = 1 + i % 4
        N = max(6, [4 * K, 4 * K + 1, 64][(i // 4) % 3])
        f0 = np.sort(nrng.choice(np.arange(1, 20), size=K, replace=False) / 40.0)
        t = np.arange(N)
        x = sum((1 + j) * np.cos(2 * np.pi * fj * t + 0.3 + j) for j, fj in enumerate(f0))
        if not keep("recover-real", x, 2 * K):
            continue
        yield ("recover", {"x": x, "order": 2 * K, "freqs": np.concatenate((-f0, f0)), "fam": "real-sinusoids"})
    # tones exactly at frequency 0 and 0.5, real and complex dtype
    for i in range(3 if quick else 12):
        N = [6, 7, 12, 33][i % 4] + 4 * (i // 4)
        x = 1.0 + 2 * (-1.0) ** np.arange(N)
        for xx in (x, x.astype(complex)):
            yield ("recover", {"x": xx, "order": 2, "freqs": np.array([-0.5, 0.0]), "fam": "dc+nyquist"})
    # exact-minimum kind: ill-conditioned full-rank records (own random stream: the cases above keep their values)
    yield from gen_xmin(np.random.default_rng(int(nrng.integers(0, 2 ** 31))), tier, counts)
    # rank-deficient kind: exact zeros, target outside the span of the regressors (own random stream)
    yield from gen_rdef(np.random.default_rng(int(nrng.integers(0, 2 ** 31))), tier, counts)
    yield ("sanity", {"counts": {k: tuple(v) for k, v in counts.items()}})
