"""C14  Covariance and modified-covariance AR fits are least-squares optimal."""
import numpy as np

import single

import proto
from common import gen_data, rel

TRUSTED_BASE = [
    "scipy.linalg.lstsq is a parameter (contract: returns a minimiser); the model solves the normal equations exactly by Gauss-Jordan "
    "elimination, which is verified in Lean for any field with a lawful zero test (C14.solveMat_solves, lsFit_normalEq, lsFit_succeeds_iff)",
    "arcovar_marple / modcovar_marple: modelled twice - at specification level (the least-squares solution and the minimum per "
    "sample) and as a step-by-step transliteration of the recursions (Model/Marple.lean); the correspondence compares the Python "
    "routines with both, and the two models with each other in exact rational arithmetic (kind recexact)",
    "exact mode: dyadic data, N <= 24, order <= 6; rtol 1e-6 (Marple recursions: 1e-5)",
]
PARTIAL = ["equality of Marple's fast recursions with the least-squares solution for EVERY input is not proved in Lean (the derivation is a "
           "chapter of Marple's book): proved are the order-0 case, lengths and domain of the transliteration and kernel-checked exact "
           "instances; the general statement is tested with exact rational equality between the two models on every run"]
ASSUMPTIONS = ["N - p >= p (N - p > p for the Marple recursions, whose exact-fit case divides by zero); data matrix of full "
               "column rank (random data); conditioning predicate cond(XcH Xc) <= 1e8"]
RULE = ("real/complex data of length 6..128 (noise, exponentials in noise, noiseless exponentials, integer data) x orders "
        "1..min(N/2, 20); exact-mode model cases N <= 24, order <= 6; non-trivial = order >= 2")


def _sp():
    import spectrum
    return spectrum


def c(v):
    return np.asarray(v).astype(complex).ravel()


def _fn(name):
    sp = _sp()
    return {"arcovar": sp.arcovar, "modcovar": sp.modcovar, "arcovarm": sp.arcovar_marple, "modcovarm": sp.modcovar_marple}[name]


def impl_fit(p):
    x = np.asarray(p["x"])
    r = _fn(p["fn"])(x, p["order"])
    if p["fn"] in ("arcovar", "modcovar"):
        return [c(r[0]), c([r[1]])]
    return [c(r[0])[: p["order"]], c([r[1]])]


def model_fit(p):
    return ("Q", proto.request(p["fn"], "Q", [p["order"]], [np.asarray(p["x"])]))


def model_fit_rec(p):
    """the step-by-step transliteration of Marple's recursions (Model/Marple.lean), not the specification-level stand-in"""
    return ("Q", proto.request({"arcovarm": "arcovarmr", "modcovarm": "modcovarmr"}[p["fn"]], "Q", [p["order"]], [np.asarray(p["x"])]))


def oracle_rec_exact(p):
    """inside the model, in exact rational arithmetic: the transliterated recursion returns EXACTLY the least-squares
    specification (coefficients and per-sample minimum) on every record of the batch - the unproved half of
    'Marple's recursion = least squares' tested with equality, not a tolerance"""
    lines = []
    for x, order in p["batch"]:
        for cmd in ("arcovarm", "arcovarmr", "modcovarm", "modcovarmr"):
            lines.append(proto.request(cmd, "Q", [order], [np.asarray(x)]))
    rep = proto.run_driver(lines)
    out = []
    for i, (x, order) in enumerate(p["batch"]):
        r = [s.strip() for s in rep[4 * i: 4 * i + 4]]
        for a, b, name in ((r[0], r[1], "arcovar_marple"), (r[2], r[3], "modcovar_marple")):
            if a.startswith("err") and b.startswith("err"):
                continue          # singular normal equations: both sides reject
            if a != b:
                out.append("model: transliterated %s recursion differs from the exact least-squares solution (N=%d order=%d): %s vs %s" % (
                    name, len(x), order, b[:80], a[:80]))
    return out[:3]


def _resid(x, a, p):
    N = len(x)
    ef = np.array([x[t] + sum(a[j] * x[t - j - 1] for j in range(p)) for t in range(p, N)])
    eb = np.array([x[t - p] + sum(np.conj(a[j]) * x[t - p + j + 1] for j in range(p)) for t in range(p, N)])
    return ef, eb


def oracle_fit(p):
    sp = _sp()
    x = np.asarray(p["x"]).astype(complex)
    N = len(x)
    order = p["order"]
    out = []
    en = float(np.sum(np.abs(x) ** 2))
    # covariance
    a, e = sp.arcovar(np.asarray(p["x"]), order)
    a = c(a)
    if len(a) != order:
        return ["arcovar returned %d coefficients for order %d" % (len(a), order)]
    ef, _ = _resid(x, a, order)
    orth = max(abs(sum(ef[t - order] * np.conj(x[t - j - 1]) for t in range(order, N))) for j in range(order)) / en
    emin = float(np.sum(np.abs(ef) ** 2))
    if orth > 1e-7:
        out.append("arcovar residual is not orthogonal to the regressors: %.2e (N=%d order=%d %s)" % (
            orth, N, order, "complex" if np.iscomplexobj(p["x"]) else "real"))
    if abs(e - emin) > 1e-7 * en:
        out.append("arcovar error %r is not the minimum forward energy %r (N=%d order=%d)" % (e, emin, N, order))
    for d in (1e-3, -1e-3j):
        a2 = a.copy()
        a2[0] += d
        if np.sum(np.abs(_resid(x, a2, order)[0]) ** 2) < emin - 1e-9 * en:
            out.append("arcovar coefficients do not minimise the forward energy")
    if N - order > order:
        am = sp.arcovar_marple(np.asarray(p["x"]), order)
        if rel(c(am[0])[:order], a) > 1e-5:
            out.append("arcovar_marple coefficients differ from the least-squares solution: %.2e (N=%d order=%d)" % (
                rel(c(am[0])[:order], a), N, order))
        if abs(am[1] * (N - order) - emin) > 1e-5 * en:
            out.append("arcovar_marple error*(N-p) = %r differs from the minimum %r" % (am[1] * (N - order), emin))
    # modified covariance
    a, e = sp.modcovar(np.asarray(p["x"]), order)
    a = c(a)
    ef, eb = _resid(x, a, order)
    emin = float(np.sum(np.abs(ef) ** 2) + np.sum(np.abs(eb) ** 2))
    g = max(abs(sum(ef[t - order] * np.conj(x[t - j - 1]) for t in range(order, N))
                + sum(np.conj(eb[t - order]) * x[t - order + j + 1] for t in range(order, N))) for j in range(order)) / en
    if g > 1e-7:
        out.append("modcovar forward+backward residual is not orthogonal to the regressors: %.2e (N=%d order=%d %s)" % (
            g, N, order, "complex" if np.iscomplexobj(p["x"]) else "real"))
    if abs(e - emin) > 1e-7 * en:
        out.append("modcovar error %r is not the minimum forward+backward energy %r" % (e, emin))
    if N - order > order:
        try:
            am = sp.modcovar_marple(np.asarray(p["x"]), order)
            if rel(c(am[0])[:order], a) > 1e-5:
                out.append("modcovar_marple coefficients differ from the least-squares solution: %.2e (N=%d order=%d)" % (
                    rel(c(am[0])[:order], a), N, order))
            if abs(am[1] * 2 * (N - order) - emin) > 1e-5 * en:
                out.append("modcovar_marple error*2(N-p) = %r differs from the minimum %r" % (am[1] * 2 * (N - order), emin))
        except ValueError:
            pass  # the recursion's own validity checks (ill-conditioned stage): outside the domain
    return out


def oracle_fit32(p):
    """single-precision data: the returned coefficients must still be the least-squares fit of THESE samples (to single
    precision): residual orthogonal to every regressor, returned error = the minimum"""
    x32 = np.asarray(p["x"])
    x = x32.astype(complex)
    N, order = len(x), p["order"]
    en = float(np.sum(np.abs(x) ** 2))
    out = []
    for name in ("arcovar", "modcovar"):
        a, e = _fn(name)(x32, order)
        a = c(a)
        ef, eb = _resid(x, a, order)
        g = [sum(ef[t - order] * np.conj(x[t - j - 1]) for t in range(order, N)) for j in range(order)]
        emin = float(np.sum(np.abs(ef) ** 2))
        if name == "modcovar":
            g = [g[j] + sum(np.conj(eb[t - order]) * x[t - order + j + 1] for t in range(order, N)) for j in range(order)]
            emin += float(np.sum(np.abs(eb) ** 2))
        if max(abs(v) for v in g) / en > 1e-3:
            out.append("%s on %s data: residual is not orthogonal to the regressors (%.2e): not the least-squares fit (N=%d order=%d)" % (
                name, x32.dtype, max(abs(v) for v in g) / en, N, order))
        if abs(e - emin) > 1e-3 * en:
            out.append("%s on %s data: returned error %r is not the minimum %r" % (name, x32.dtype, e, emin))
    return out


def oracle_recover(p):
    sp = _sp()
    x = np.asarray(p["x"])
    order = p["order"]
    f = np.sort(np.asarray(p["freqs"]))
    out = []
    for name in ("arcovar", "modcovar"):
        a, e = _fn(name)(x, order)
        rts = np.roots(np.concatenate(([1], c(a))))
        fr = np.sort(np.angle(rts) / (2 * np.pi))
        if np.max(np.abs(fr - f)) > 1e-7 or np.max(np.abs(np.abs(rts) - 1)) > 1e-7:
            out.append("%s does not recover the %d frequencies of a noiseless sum of exponentials: %s vs %s" % (name, order, fr, f))
        if abs(e) > 1e-8 * float(np.sum(np.abs(x) ** 2)):
            out.append("%s error %r is not 0 on a noiseless sum of exponentials" % (name, e))
    return out


def oracle_overfit(p):
    """noiseless sum of K exponentials fitted with order p > K: the minimum is 0 and must be returned as such (finite)"""
    x = np.asarray(p["x"])
    order = p["order"]
    out = []
    en = float(np.sum(np.abs(x) ** 2))
    for name in ("arcovar", "modcovar"):
        a, e = _fn(name)(x, order)
        a = c(a)
        if not np.isfinite(e) or abs(e) > 1e-7 * en:
            out.append("%s on a noiseless sum of %d exponentials with order %d returns error %r, not the minimum 0 (N=%d)" % (
                name, p["K"], order, e, len(x)))
        if not np.all(np.isfinite(a)):
            out.append("%s returns non-finite coefficients on rank-deficient noiseless data" % name)
        else:
            ef, eb = _resid(x.astype(complex), a, order)
            if np.sum(np.abs(ef) ** 2) > 1e-7 * en:
                out.append("%s coefficients do not reach the zero minimum on noiseless data (order %d > K=%d)" % (name, order, p["K"]))
    return out


def _key(p):
    x = np.asarray(p["x"])
    return "%s|%d|%d|%s|%d" % (p.get("fn"), len(x), p["order"], np.iscomplexobj(x), hash(x.tobytes()) & 0xFFFFFF)


def _tags(p):
    return ["complex" if np.iscomplexobj(p["x"]) else "real", "data:" + p.get("dkind", "exp"), "fn:" + p.get("fn", "-")]


# kinds whose parameters describe the content of x: no derived degenerate records
NO_DEGEN = {"overfit", "recover"}

KINDS = {
    "fit": {"impl": impl_fit, "model": model_fit, "rtol": 1e-6, "atol": 1e-9, "key": _key, "tags": _tags,
            "nontrivial": lambda p: p["order"] >= 2},
    "fitm": {"impl": impl_fit, "model": model_fit, "rtol": 1e-5, "atol": 1e-9, "key": _key, "tags": _tags,
             "nontrivial": lambda p: p["order"] >= 2},
    # single-precision input (float32 / complex64): the solvers then work in single precision
    "fit32": {"impl": impl_fit, "model": model_fit, "oracle": oracle_fit32, "rtol": 2e-3, "atol": 1e-4, "key": _key,
              "tags": lambda p: _tags(p) + ["dtype:%s" % np.asarray(p["x"]).dtype], "nontrivial": lambda p: p["order"] >= 2},
    "fitr": {"impl": impl_fit, "model": model_fit_rec, "rtol": 1e-5, "atol": 1e-9, "key": _key, "tags": _tags,
             "nontrivial": lambda p: p["order"] >= 2},
    "recexact": {"oracle": oracle_rec_exact, "key": lambda p: "recexact|%d|%d" % (len(p["batch"]), hash(np.asarray(p["batch"][0][0]).tobytes()) & 0xFFFFF),
                 "tags": lambda p: ["recexact:%d" % len(p["batch"])]},
    "laws": {"oracle": oracle_fit, "key": _key, "tags": _tags, "nontrivial": lambda p: p["order"] >= 2},
    "overfit": {"oracle": oracle_overfit, "key": _key, "tags": lambda p: ["overfit:K=%d,p=%d" % (p["K"], p["order"])]},
    "recover": {"oracle": oracle_recover, "key": _key, "tags": lambda p: ["recover:%d" % p["order"]]},
}


def _cond_ok(x, order):
    from spectrum import corrmtx
    X = np.asarray(corrmtx(np.asarray(x), order, "covariance"))[:, 1:]
    return np.linalg.cond(X.conj().T @ X) <= 1e8


KINDS["single"] = single.kind("C14")

def gen(rng, nrng, tier):
    yield from single.gen("C14", nrng, tier)
    n = 120 if tier == "quick" else 2000
    kinds = ["noise", "tone", "int", "trend"]
    fns = ["arcovar", "modcovar", "arcovarm", "modcovarm"]
    batch = []
    for i in range(n):
        cplx = bool(nrng.integers(0, 2))
        N = int(nrng.integers(6, 25))
        x, dk = gen_data(nrng, N, cplx, kind=kinds[i % 4], exact=True)
        x = np.asarray(x, dtype=complex if cplx else float)
        order = int(nrng.integers(1, min(N // 2, 6) + 1))
        if N - order <= order:
            order = max(1, order - 1)
        if not _cond_ok(x, order):
            continue
        fn = fns[i % 4]
        yield ("fitm" if fn.endswith("m") else "fit", {"x": x, "order": order, "fn": fn, "dkind": dk})
        if fn.endswith("m"):
            yield ("fitr", {"x": x, "order": order, "fn": fn, "dkind": dk})
            batch.append((x, order))
        if (i // 4) % 3 == 0 and np.linalg.cond(np.asarray(__import__("spectrum").corrmtx(x, order, "covariance"))[:, 1:]) < 50:
            yield ("fit32", {"x": x.astype(np.complex64 if cplx else np.float32), "order": order, "fn": fn, "dkind": dk})
    for j in range(0, len(batch), 40):
        yield ("recexact", {"batch": batch[j: j + 40]})
    n2 = 60 if tier == "quick" else 900
    for i in range(n2):
        cplx = bool(nrng.integers(0, 2))
        N = int(nrng.integers(6, 129))
        x, dk = gen_data(nrng, N, cplx, kind=kinds[i % 4])
        x = np.asarray(x, dtype=complex if cplx else float)
        order = int(nrng.integers(1, min(N // 2, 20) + 1))
        if not _cond_ok(x, order):
            continue
        yield ("laws", {"x": x, "order": order, "dkind": dk})
    for i in range(12 if tier == "quick" else 120):
        p = 1 + i % 4
        N = int(nrng.integers(2 * p + 2, 41))
        f = np.sort(nrng.choice(np.arange(-19, 20), size=p, replace=False) / 40.0)
        t = np.arange(N)
        x = sum((1 + j) * np.exp(2j * np.pi * fj * t + 1j * j) for j, fj in enumerate(f))
        yield ("recover", {"x": x, "order": p, "freqs": f})
        # the same signal fitted with a larger order (rank-deficient), N - order > order and N - order == order
        for extra in (1, 3):
            po = p + extra
            for NN in (2 * po, 2 * po + 5):
                tt = np.arange(NN)
                xx = sum((1 + j) * np.exp(2j * np.pi * fj * tt + 1j * j) for j, fj in enumerate(f))
                yield ("overfit", {"x": xx, "order": po, "K": p})
        if i % 3 == 0:
            tt = np.arange(24)
            yield ("overfit", {"x": np.cos(2 * np.pi * 0.2 * tt + 0.3), "order": 4, "K": 2})
