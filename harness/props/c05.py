"""C05  NFFT only chooses the sampling grid of one underlying spectrum."""
import numpy as np

import proto
import classes as C
from common import rel

TRUSTED_BASE = [
    "the grid theorems (bin c*j of the cN-point DFT of a zero-padded sequence = bin j of its N-point DFT) are about the model; the tie "
    "to the code is the class-glue correspondence at both NFFT values of every pair plus the per-estimator correspondences",
]
PARTIAL = ["adaptive multitaper: per evaluation the value at a frequency is independent of NFFT, but the global stopping rule may stop "
           "one iteration apart on two grids: equality to the iteration tolerance only (oracle tolerance 2e-3 relative)"]
ASSUMPTIONS = ["admissible NFFT: >= N (periodogram, multitaper), >= 2*lag+1 (correlogram), >= 2*order (minimum variance), > model "
               "order (parametric and subspace classes)"]
RULE = ("random real/complex data x 14 class variants x pairs (NFFT, c*NFFT), c in {2, 3}, NFFT even and odd; model parameters "
        "(AR, MA, variance, reflection coefficients, singular values, tapers/eigenvalues) compared across NFFT")


def _params(o):
    out = {}
    for name in ("ar", "ma", "rho", "reflection", "eigenvalues", "weights"):
        if hasattr(o, name):
            v = getattr(o, name)
            if v is not None and name != "weights":
                out[name] = np.atleast_1d(np.asarray(v)).astype(complex).ravel()
    return out


def oracle_grid(p):
    cls, x, n1, c = p["cls"], np.asarray(p["x"]), p["n1"], p["c"]
    # "frequency scaling off": every value the attribute accepts for off (False, 0, 0.0, numpy.False_)
    off = [False, 0, 0.0, np.False_][p.get("off", 0)]
    o1 = C.make(cls, x, n1, 1.0, off, p.get("cfg"))
    o2 = C.make(cls, x, n1 * c, 1.0, off, p.get("cfg"))
    a1, a2 = np.asarray(o1.psd), np.asarray(o2.psd)
    out = []
    sub = a2[::c][: len(a1)]
    m = min(len(sub), len(a1))
    tol = 2e-3 if cls == "MT-adapt" else 1e-7
    if m < 1 or rel(sub[:m], a1[:m]) > tol:
        out.append("%s (%s, N=%d): PSD values at the common frequencies of NFFT=%d and NFFT=%d differ (rel err %.2e)" % (
            cls, "complex" if np.iscomplexobj(x) else "real", len(x), n1, n1 * c, rel(sub[:m], a1[:m]) if m else float("inf")))
    # every frequency of the coarse grid must be present in the fine grid
    exp_common = len(a1) if np.iscomplexobj(x) or True else 0
    if len(sub) < len(a1) - (0 if np.iscomplexobj(x) else 0):
        # real data: the coarse grid has n1//2+1 (or (n1+1)//2) points, all of which are multiples of c on the fine grid
        out.append("%s: the fine grid misses %d of the coarse-grid frequencies" % (cls, len(a1) - len(sub)))
    p1, p2 = _params(o1), _params(o2)
    for k in p1:
        if k in p2 and (p1[k].shape != p2[k].shape or rel(p1[k], p2[k]) > 1e-9):
            out.append("%s: model parameter '%s' depends on NFFT" % (cls, k))
    return out


def impl_glue(p):
    o = C.make(p["cls"], p["x"], p["nfft"], 1.0, False)
    return [np.asarray(o.psd)]


def model_glue(p):
    x = np.asarray(p["x"])
    raw = C.raw_two_sided(p["cls"], x, p["nfft"], 1.0)
    return C.glue_request(p["cls"], raw, np.isrealobj(x), p["nfft"], False, 1.0)


def impl_dft(p):
    return [np.fft.fft(np.asarray(p["x"]), p["nfft"])]


def model_dft(p):
    return ("F", proto.request("dft", "F", [p["nfft"]], [np.asarray(p["x"])]))


def _key(p):
    x = np.asarray(p["x"])
    return "%s|%s|%s|%s|%d" % (p.get("cls"), p.get("n1", p.get("nfft")), p.get("c"), np.iscomplexobj(x), hash(x.tobytes()) & 0xFFFFF)


def _tags(p):
    n = p.get("n1", p.get("nfft"))
    return ["cls:%s" % p.get("cls", "dft"), "complex" if np.iscomplexobj(p["x"]) else "real", "nfft:" + ("odd" if n % 2 else "even"),
            "c:%s" % p.get("c", "-")]


KINDS = {
    "grid": {"oracle": oracle_grid, "key": _key, "tags": _tags},
    "glue": {"impl": impl_glue, "model": model_glue, "rtol": 1e-9, "atol": 1e-300, "key": _key, "tags": _tags},
    "dft": {"impl": impl_dft, "model": model_dft, "rtol": 1e-10, "atol": 1e-12, "key": _key, "tags": _tags},
}


def gen(rng, nrng, tier):
    N = 24
    n = np.arange(N)
    reps = 2 if tier == "quick" else 25
    for r in range(reps):
        for cplx in (True, False):
            x = nrng.standard_normal(N) + np.cos(0.9 * n) + (1j * nrng.standard_normal(N) if cplx else 0)
            for cls in C.CLASSES:
                pairs = [(24, 2), (25, 2), (25, 3), (32, 3), (27, 2)]
                if tier == "quick":
                    pairs = [pairs[(r + C.CLASSES.index(cls)) % 5], pairs[(r + 2 + C.CLASSES.index(cls)) % 5]]
                for (n1, c) in pairs:
                    yield ("grid", {"cls": cls, "x": x, "n1": n1, "c": c})
                    if r == 0:
                        yield ("glue", {"cls": cls, "x": x, "nfft": n1 * c})
    # real-valued samples held in a complex array (exactly real model coefficients), odd and even grids
    xz = (nrng.standard_normal(N) + np.cos(0.9 * n)).astype(complex)
    for cls in C.CLASSES:
        for (n1, c) in ([(25, 2), (49, 2), (24, 3)] if tier == "quick" else [(25, 2), (25, 3), (49, 2), (24, 3), (27, 2), (32, 3)]):
            yield ("grid", {"cls": cls, "x": xz, "n1": n1, "c": c})
    # random and boundary configurations, at their own smallest admissible NFFT and at a larger one
    for i in range(42 if tier == "quick" else 600):
        cls = C.CLASSES[i % len(C.CLASSES)]
        cplx = bool((i // len(C.CLASSES)) % 2)
        xb = nrng.standard_normal(N) + (1j * nrng.standard_normal(N) if cplx else 0)
        cfg = C.random_cfg(nrng, cls, N, boundary=(i % 3 == 2))
        nmin = C.min_nfft(cls, N, cfg)
        yield ("grid", {"cls": cls, "x": xb, "n1": [nmin, nmin + 1, max(nmin, 33)][i % 3], "c": [2, 3][i % 2], "cfg": cfg,
                        "off": (i // len(C.CLASSES)) % 4})
    # the smallest admissible NFFT of each class against its multiples
    for cplx in (True, False):
        xb = nrng.standard_normal(N) + (1j * nrng.standard_normal(N) if cplx else 0)
        for cls in C.CLASSES:
            cfg = C.default_cfg(cls, N, cplx)
            if cls == "pcorrelogram":
                nmin = 2 * cfg["lag"] + 1
            elif cls == "pminvar":
                nmin = 2 * cfg["order"]
            elif cls in ("Periodogram",) or cls.startswith("MT"):
                nmin = N
            elif cls in ("pmusic", "pev"):
                nmin = cfg["order"] + 1
            elif cls == "pma":
                nmin = cfg["Q"] + 1
            elif cls == "parma":
                nmin = max(cfg["order"], cfg["Q"]) + 1
            else:
                nmin = cfg["order"] + 1
            for c in ((2, 3) if tier == "thorough" else (2,)):
                yield ("grid", {"cls": cls, "x": xb, "n1": nmin, "c": c})
                yield ("grid", {"cls": cls, "x": xb, "n1": nmin + 1, "c": c})
    for i in range(20 if tier == "quick" else 300):
        L = int(nrng.integers(1, 20))
        nfft = int(nrng.integers(max(1, L - 3), 40))
        x = nrng.standard_normal(L) + 1j * nrng.standard_normal(L)
        yield ("dft", {"x": x, "nfft": nfft})
