"""C05  NFFT only chooses the sampling grid of one underlying spectrum."""
from math import gcd

import numpy as np

import proto
import classes as C
from common import rel

TRUSTED_BASE = [
    "the grid theorems (bin c*j of the cN-point DFT of a zero-padded sequence = bin j of its N-point DFT) are about the model; the tie "
    "to the code is the class-glue correspondence at both NFFT values of every pair plus the per-estimator correspondences",
    "the NFFT-free ingredients of the numpy references written in the oracles are taken from the library: the Slepian tapers and their "
    "eigenvalues (spectrum.dpss has no NFFT argument), the lag estimates (spectrum.xcorr / CORRELATION) and the lag / data windows "
    "(spectrum.Window); everything indexed by NFFT (transforms, negative-lag placement, adaptive iteration, frequency axis) is "
    "recomputed in the oracle by direct evaluation of the discrete-time Fourier transform at the grid frequencies",
]
PARTIAL = ["adaptive multitaper: per evaluation the value at a frequency is independent of NFFT, but the global stopping rule (mean "
           "change below 0.0005*sigma^2/NFFT) stops after a number of iterations that depends on the grid: across two grids equality to "
           "the iteration tolerance only (oracle tolerance 2e-3 relative, max-norm; measured worst 5.7e-4 over 4500 random cases, so "
           "it is not tightened); on EACH grid the estimate, the weight table and the per-taper spectra are compared (1e-9 "
           "elementwise) with an independent per-frequency restatement of the iteration, and the two grids must agree to 1e-10 "
           "elementwise whenever their weight tables agree at the common bins",
           "line-spectrum cases: every class except the adaptive multitaper (its grid-wide stopping rule, above); a value whose "
           "conditioning-derived tolerance reaches 0.25 (the 1/round-off value at the line of an exactly noiseless record, the "
           "round-off floor of a periodogram between exactly periodic lines) is compared in order of magnitude only; records an "
           "estimator refuses on both grids alike (Burg residual <= 0 on a noiseless record) are not cases of this property"]
ASSUMPTIONS = ["admissible NFFT: >= N (periodogram, multitaper), >= 2*lag+1 (correlogram), >= 2*order (minimum variance), > model "
               "order (parametric and subspace classes)",
               "estimator parameters inside each estimator's documented domain for the data length (orders, lags, NW < N/2, k <= 2NW)",
               "float32 / complex64 / integer / list data are accepted forms of the same samples (results are computed in double "
               "precision by the library, so the same tolerances apply)"]
RULE = ("random real/complex data of length N in {7, 9, 13, 23, 24, 25, 64, 101, 300} x 14 class variants x pairs (NFFT, c*NFFT), "
        "c in {2, 3, 4, 5, 7, 32}, NFFT even / odd / power of two / up to 2048 (fine grid up to 4096), at the smallest admissible NFFT "
        "and one above, and non-multiple pairs compared at the gcd bins; sampling frequency in {1, 0.5, 1000, 44100}; values compared "
        "elementwise (|a-b| <= 1e-10*max(|a|,|b|) + 1e-13*peak) and in max-norm (1e-7); frequency axis read from frequencies() at both "
        "NFFT values; NFFT setter on a live object against fresh objects; get_converted_psd matched by frequency value; model "
        "parameters (AR, MA, variance, reflection coefficients, singular values, eigenvalues, multitaper weights, per-taper spectra) "
        "compared across NFFT with the exact expected attribute set per class; options (cross-correlogram, correlation method / norm, "
        "automatic subspace dimension, Yule-Walker norm, Burg order criteria, detrend, 2-D periodogram); input forms int / list / "
        "float32 / complex64; "
        "kind 'line' (13 class variants): 1-3 real sinusoids / complex exponentials, N in {24, 25, 32, 37, 40, 64}, white noise of "
        "relative level 1e-5, 1e-6, ..., 1e-12 and exactly 0, line frequencies exactly on bins common to both grids / on bins of the "
        "finer grid only / one of each / on DC or Nyquist, pairs (NFFT, c*NFFT) c in {2, 3, 4, 5} from the smallest admissible NFFT "
        "and non-multiple pairs at the gcd bins, fresh objects or the NFFT setter in either direction, fs in {1, 0.5, 1000, 44100}; "
        "every common bin compared relative to its own value, |a-b| <= 256*eps*cond*max(|a|,|b|), cond = the conditioning of that bin "
        "(sqrt(v/vmin) for pole-type estimates, v/vmin minimum variance, sqrt(vmax/v) for polynomial-type, vmax/|v| correlogram, the "
        "sum for ARMA): 1e-13 relative on the floor, about 4e-6 at a bin 156 dB above the floor; plus the model parameters; "
        "kind 'history' (14 class variants): ONE object constructed at exactly the smallest admissible NFFT of its class (2*lag+1, "
        "2*order, N, model order + 1; one case in four at one above), PSD read, then NFFT changed through the setter with data / lag / "
        "order / window untouched: one raise (c in {2, 3, 4, 5}), raise and back, two or three raises in a row, non-multiple steps "
        "(NFFT+1, NFFT + largest proper divisor, 2N -> 3N) compared at the gcd bins, up-up-down-up, a raise whose PSD is not read "
        "followed by another raise; correlogram lag windows with non-zero end weights (hamming, rectangular) and zero end weights "
        "(hann, bartlett, blackman) and any window name, lags from 1 to N-1; one case in three with a second live object of the same "
        "class and configuration (other data) evaluated in between; every step against a fresh object on the same grid (1e-12 "
        "elementwise, PSD and model parameters), every pair of steps at the common frequencies (1e-10 elementwise), the "
        "correlogram at every step against the direct summation over the lags (1e-9)")

ELEM_TOL = 1e-10        # elementwise: |a-b| <= ELEM_TOL * (max(|a|,|b|) + 1e-3 * peak)   (= 1e-10 relative + 1e-13 * peak absolute)
ADAPT_TOL = 2e-3        # adaptive multitaper across two grids (max-norm, see PARTIAL)
ADAPT_W_TOL = 0.5       # adaptive weight tables across two grids (max-norm; the weights react more strongly than the estimate to the
#                         iteration count: measured up to 3.5e-2 on dominant-tone records; the sharp test is the reference below)
REF_TOL = 1e-9          # library against the numpy references of this file (elementwise, same floor)

# attributes holding model parameters that must be present (not None) after the PSD has been read, per class
EXPECTED_KEYS = {
    "Periodogram": set(), "pcorrelogram": set(),
    "pburg": {"ar", "rho", "reflection"}, "pyule": {"ar", "reflection"},
    "pcovar": {"ar", "rho"}, "pmodcovar": {"ar", "rho"},
    "parma": {"ar", "ma", "rho"}, "pma": {"ma", "rho"}, "pminvar": {"ar", "reflection"},
    "pmusic": {"eigenvalues"}, "pev": {"eigenvalues"},
    "MT-unity": {"eigenvalues", "weights", "Sk"}, "MT-eigen": {"eigenvalues", "weights", "Sk"},
    "MT-adapt": {"eigenvalues", "weights", "Sk"},
}
PARAM_NAMES = ("ar", "ma", "rho", "reflection", "eigenvalues", "weights", "Sk")


def _params(o):
    out = {}
    for name in ("ar", "ma", "rho", "reflection", "eigenvalues", "weights"):
        if hasattr(o, name):
            v = getattr(o, name)
            if v is not None and name != "weights":
                out[name] = np.atleast_1d(np.asarray(v)).astype(complex).ravel()
    return out


def _present(o):
    """names of the model-parameter attributes that exist and are not None"""
    return {n for n in PARAM_NAMES if getattr(o, n, None) is not None}


def _elem(a, b):
    """elementwise error  max |a-b| / (max(|a|,|b|) + 1e-3*peak);  <= 1e-10 means |a-b| <= 1e-10*max(|a|,|b|) + 1e-13*peak"""
    a = np.asarray(a)
    b = np.asarray(b)
    if a.shape != b.shape:
        return float("inf")
    if a.size == 0:
        return 0.0
    if not (np.all(np.isfinite(a)) and np.all(np.isfinite(b))):
        return float("inf")
    m = np.maximum(np.abs(a), np.abs(b))
    pk = float(np.max(m))
    if pk == 0.0:
        return 0.0
    return float(np.max(np.abs(a - b) / (m + 1e-3 * pk)))


def _dtft(seqs, freqs):
    """direct evaluation of sum_n s[n] exp(-2 pi i f n) for every row s of seqs (K x N) and every f (cycles / sample): K x F.
    No zero padding and no NFFT-indexed buffer is involved."""
    seqs = np.atleast_2d(np.asarray(seqs)).astype(complex)
    n = np.arange(seqs.shape[1])
    return seqs @ np.exp(-2j * np.pi * np.outer(n, np.asarray(freqs, float)))


def _onesided_len(isreal, nfft):
    return C.expected_len(isreal, nfft)


def _adapt_ref(x, tapers, lam, nfft):
    """independent restatement of the adaptive (Percival & Walden) weighting on an nfft-point grid.  Every frequency is iterated
    on its own (w_k = b_k^2 lambda_k, b_k = S / (lambda_k S + sigma^2 (1 - lambda_k)), S <- sum w_k S_k / sum w_k, start
    (S_0 + S_1) / 2); only the number of iterations is decided on the whole grid (mean |S - S_prev| <= 0.0005 sigma^2 / nfft).
    Returns the per-taper spectra (nfft x K), the weight tables after 0, 1, ... iterations and the predicted iteration count."""
    x = np.asarray(x)
    if x.dtype.kind in "iub":
        x = x.astype(float)
    N = len(x)
    lam = np.asarray(lam, float)
    Sk = (np.abs(_dtft(np.asarray(tapers).T * x, np.arange(nfft) / float(nfft))) ** 2).T
    # the signal power in the precision of the samples (float32 / complex64 records: single precision, as the library computes it)
    sig2 = np.vdot(x, x).real / float(N)
    tol = 0.0005 * sig2 / float(nfft)
    a = sig2 * (1.0 - lam)
    S = (Sk[:, 0] + Sk[:, 1]) / 2.0
    Sold = np.zeros(nfft)
    hist = [np.ones((nfft, 1)) * lam]
    stop = None
    i = 0
    while i < 100:
        if stop is None and not (np.sum(np.abs(S - Sold)) / nfft > tol):
            stop = i
        if stop is not None and i >= stop + 1:
            break
        b = S[:, None] / (S[:, None] * lam + a)
        w = b ** 2 * lam
        Snew = np.sum(w * Sk, axis=1) / np.sum(w, axis=1)
        Sold, S = S, Snew
        i += 1
        hist.append(w)
    if stop is None:
        stop = 100
    return Sk, hist, stop


def _adapt_check(tag, x, tapers, lam, nfft, psd, weights):
    """the library's adaptive estimate on one grid against _adapt_ref (the predicted iteration count, or one next to it when the
    stopping comparison is decided by rounding)"""
    out = []
    Sk, hist, stop = _adapt_ref(x, tapers, lam, nfft)
    best = None
    for j in (stop, stop - 1, stop + 1):
        if 0 <= j < len(hist):
            ref = np.mean(Sk * hist[j], axis=1)
            if np.isrealobj(x):
                ref = 2 * ref[: _onesided_len(True, nfft)]
            e = _elem(psd, ref)
            ew = _elem(np.asarray(weights), hist[j]) if weights is not None else 0.0
            if best is None or max(e, ew) < max(best[0], best[1]):
                best = (e, ew, j)
            if max(e, ew) <= REF_TOL:
                break
    if best is None or max(best[0], best[1]) > REF_TOL:
        out.append("%s: adaptive multitaper at NFFT=%d differs from the per-frequency reference iteration (predicted %d iterations; "
                   "best match: psd err %.2e, weights err %.2e)" % (tag, nfft, stop, best[0] if best else float("inf"),
                                                                      best[1] if best else float("inf")))
    return out


def _mt_tapers(x, cfg):
    return C.sp().dpss(len(x), cfg.get("NW", 2.5), cfg.get("k"))


def _cfg_of(p):
    x = p["x"]
    return p.get("cfg") or C.default_cfg(p["cls"], len(x), np.iscomplexobj(x))


def _fs_of(p):
    return p.get("fs", 1.0)


def _axis_checks(tag, o, a, nfft, fs, isreal, out):
    """the frequency axis of the object: as long as the PSD, and bin j at j * fs / NFFT"""
    f = np.asarray(o.frequencies(), float)
    if len(f) != len(a):
        out.append("%s: NFFT=%d: frequencies() has %d points, the PSD %d" % (tag, nfft, len(f), len(a)))
        return None
    if len(a) != _onesided_len(isreal, nfft):
        out.append("%s: NFFT=%d: the PSD has %d points, expected %d" % (tag, nfft, len(a), _onesided_len(isreal, nfft)))
    ref = np.arange(len(f)) * (float(fs) / nfft)
    if len(f) and np.max(np.abs(f - ref)) > 1e-12 * abs(fs):
        out.append("%s: NFFT=%d: frequencies() is not j*fs/NFFT (max deviation %.2e)" % (tag, nfft, float(np.max(np.abs(f - ref)))))
    return f


def _compare_params(tag, cls, o1, o2, s1, s2, out, tol=1e-9):
    """model parameters of two objects of one class built on two grids (s1, s2: strides to the common bins)"""
    k1, k2 = _present(o1), _present(o2)
    exp = EXPECTED_KEYS.get(cls)
    if k1 != k2:
        out.append("%s: the two NFFT values expose different model parameters: %s vs %s" % (tag, sorted(k1), sorted(k2)))
    if exp is not None and (k1 != exp or k2 != exp):
        out.append("%s: model parameters present %s / %s, expected %s" % (tag, sorted(k1), sorted(k2), sorted(exp)))
    for k in sorted(k1 & k2):
        v1, v2 = np.asarray(getattr(o1, k)), np.asarray(getattr(o2, k))
        if k in ("weights", "Sk"):
            if cls == "MT-adapt" or k == "Sk":
                v1c, v2c = v1[::s1], v2[::s2]
                if v1c.shape != v2c.shape or len(v1c) == 0:
                    out.append("%s: '%s' has shapes %s / %s at the common bins" % (tag, k, v1c.shape, v2c.shape))
                    continue
                if cls == "MT-adapt":
                    if rel(v1c, v2c) > (ADAPT_W_TOL if k == "weights" else ADAPT_TOL):
                        out.append("%s: adaptive '%s' at the common frequencies depends on NFFT (rel err %.2e)" % (tag, k, rel(v1c, v2c)))
                elif _elem(v1c, v2c) > ELEM_TOL:
                    out.append("%s: '%s' at the common frequencies depends on NFFT (elementwise err %.2e)" % (tag, k, _elem(v1c, v2c)))
            else:
                nwin = len(np.atleast_1d(np.asarray(o1.eigenvalues)))
                if v1.shape != (nwin, 1) or v2.shape != (nwin, 1) or rel(v1, v2) > 1e-12:
                    out.append("%s: multitaper weights depend on NFFT or are not (k,1): shapes %s / %s" % (tag, v1.shape, v2.shape))
            continue
        a1 = np.atleast_1d(v1).astype(complex).ravel()
        a2 = np.atleast_1d(v2).astype(complex).ravel()
        if a1.shape != a2.shape or rel(a1, a2) > tol:
            out.append("%s: model parameter '%s' depends on NFFT" % (tag, k))


def oracle_grid(p):
    cls, x, n1 = p["cls"], p["x"], p["n1"]
    xa = np.asarray(x)
    isreal = not np.iscomplexobj(xa)
    n2 = p.get("n2", n1 * p.get("c", 1))
    g = gcd(n1, n2)
    s1, s2 = n1 // g, n2 // g          # strides to the common frequencies j/g
    c = s2 if s1 == 1 else None
    fs = _fs_of(p)
    # "frequency scaling off": every value the attribute accepts for off (False, 0, 0.0, numpy.False_)
    off = [False, 0, 0.0, np.False_][p.get("off", 0)]
    o1 = C.make(cls, x, n1, fs, off, p.get("cfg"))
    o2 = C.make(cls, x, n2, fs, off, p.get("cfg"))
    a1, a2 = np.asarray(o1.psd), np.asarray(o2.psd)
    out = []
    tag = "%s (%s, N=%d%s)" % (cls, "real" if isreal else "complex", len(xa), "" if fs == 1.0 else ", fs=%g" % fs)
    c1 = a1[::s1]
    sub = a2[::s2][: len(c1)]
    m = min(len(sub), len(c1))
    tol = ADAPT_TOL if cls == "MT-adapt" else 1e-7
    if m < 1 or rel(sub[:m], c1[:m]) > tol:
        out.append("%s: PSD values at the common frequencies of NFFT=%d and NFFT=%d differ (rel err %.2e)" % (
            tag, n1, n2, rel(sub[:m], c1[:m]) if m else float("inf")))
    # every frequency of the coarse grid must be present in the fine grid / every common frequency j/g in both grids
    if len(sub) < len(c1):
        # real data: the coarse grid has n1//2+1 (or (n1+1)//2) points, all of which are multiples of c on the fine grid
        out.append("%s: the fine grid misses %d of the coarse-grid frequencies" % (cls, len(c1) - len(sub)))
    ncommon = _onesided_len(isreal, g)
    if len(c1) != ncommon or len(a2[::s2]) < ncommon:
        out.append("%s: NFFT=%d / %d: %d and %d values at the %d common frequencies" % (tag, n1, n2, len(c1), len(a2[::s2]), ncommon))
    # elementwise agreement (spectra have a large dynamic range: the max-norm test above says nothing about the small values)
    if m >= 1 and cls != "MT-adapt" and _elem(sub[:m], c1[:m]) > ELEM_TOL:
        out.append("%s: PSD values at the common frequencies of NFFT=%d and NFFT=%d differ elementwise (err %.2e)" % (
            tag, n1, n2, _elem(sub[:m], c1[:m])))
    # frequency axis of both objects; the common frequencies carry the same frequency value
    f1 = _axis_checks(tag, o1, a1, n1, fs, isreal, out)
    f2 = _axis_checks(tag, o2, a2, n2, fs, isreal, out)
    if f1 is not None and f2 is not None and m >= 1:
        if np.max(np.abs(f2[::s2][:m] - f1[::s1][:m])) > 1e-12 * abs(fs):
            out.append("%s: frequencies() of NFFT=%d and NFFT=%d differ at the common bins" % (tag, n1, n2))
    if abs(o1.df - float(fs) / n1) > 1e-12 * abs(fs) or abs(o2.df - float(fs) / n2) > 1e-12 * abs(fs):
        out.append("%s: df is not fs/NFFT (%r, %r)" % (tag, o1.df, o2.df))
    # model parameters
    p1, p2 = _params(o1), _params(o2)
    for k in p1:
        if k in p2 and (p1[k].shape != p2[k].shape or rel(p1[k], p2[k]) > 1e-9):
            out.append("%s: model parameter '%s' depends on NFFT" % (cls, k))
    _compare_params(tag, cls, o1, o2, s1, s2, out)
    if cls == "MT-adapt":
        cfg = _cfg_of(p)
        tapers, lam = _mt_tapers(xa, cfg)
        out += _adapt_check(tag, xa, tapers, lam, n1, a1, o1.weights)
        out += _adapt_check(tag, xa, tapers, lam, n2, a2, o2.weights)
        w1, w2 = np.asarray(o1.weights)[::s1], np.asarray(o2.weights)[::s2]
        if w1.shape == w2.shape and w1.size and _elem(w1, w2) <= 1e-12 and m >= 1 and _elem(sub[:m], c1[:m]) > ELEM_TOL:
            out.append("%s: equal adaptive weights at the common bins of NFFT=%d and %d but different PSD values (err %.2e)" % (
                tag, n1, n2, _elem(sub[:m], c1[:m])))
    return out


# ---------------------------------------------------------------------------------------------------------------------------
# NFFT setter on a live object

def _snapshot(o):
    d = {}
    for n in _present(o):
        d[n] = np.array(getattr(o, n), copy=True)
    return d


def oracle_setter(p):
    cls, x, n1, c = p["cls"], p["x"], p["n1"], p["c"]
    xa = np.asarray(x)
    isreal = not np.iscomplexobj(xa)
    n2 = n1 * c
    fs = _fs_of(p)
    cfg = p.get("cfg")
    out = []
    tag = "%s setter (%s, N=%d)" % (cls, "real" if isreal else "complex", len(xa))
    tol_x = ADAPT_TOL if cls == "MT-adapt" else ELEM_TOL
    o = C.make(cls, x, n1, fs, False, cfg)
    a1 = np.array(o.psd, copy=True)
    snap1 = _snapshot(o)
    f1 = _axis_checks(tag, o, a1, n1, fs, isreal, out)
    new = [n2, np.int64(n2), np.int32(n2)][p.get("inttype", 0)]
    o.NFFT = new
    if o.NFFT != n2 or abs(o.df - float(fs) / n2) > 1e-12 * abs(fs):
        out.append("%s: after NFFT=%d the object reports NFFT=%r df=%r" % (tag, n2, o.NFFT, o.df))
    a2 = np.array(o.psd, copy=True)
    snap2 = _snapshot(o)
    f2 = _axis_checks(tag, o, a2, n2, fs, isreal, out)
    fresh = C.make(cls, x, n2, fs, False, cfg)
    af = np.asarray(fresh.psd)
    if _elem(a2, af) > 1e-12:
        out.append("%s: PSD after setting NFFT=%d on a live NFFT=%d object differs from a fresh NFFT=%d object (err %.2e)" % (
            tag, n2, n1, n2, _elem(a2, af)))
    sub = a2[::c][: len(a1)]
    if len(sub) != len(a1):
        out.append("%s: after NFFT=%d the PSD misses %d of the NFFT=%d frequencies" % (tag, n2, len(a1) - len(sub), n1))
    else:
        e = rel(sub, a1) if cls == "MT-adapt" else _elem(sub, a1)
        if e > tol_x:
            out.append("%s: PSD after NFFT=%d differs from the NFFT=%d values at the common frequencies (err %.2e)" % (tag, n2, n1, e))
        if f1 is not None and f2 is not None and np.max(np.abs(f2[::c][: len(f1)] - f1)) > 1e-12 * abs(fs):
            out.append("%s: frequencies() after NFFT=%d differs from the NFFT=%d axis at the common bins" % (tag, n2, n1))
    exp = EXPECTED_KEYS.get(cls)
    if set(snap1) != set(snap2) or (exp is not None and set(snap1) != exp):
        out.append("%s: model parameters before / after the NFFT change: %s / %s (expected %s)" % (
            tag, sorted(snap1), sorted(snap2), sorted(exp or [])))
    for k in sorted(set(snap1) & set(snap2)):
        if k in ("ar", "ma", "rho", "reflection", "eigenvalues") or (k == "weights" and cls != "MT-adapt"):
            v1 = np.atleast_1d(snap1[k]).astype(complex)
            v2 = np.atleast_1d(snap2[k]).astype(complex)
            if v1.shape != v2.shape or rel(v1, v2) > 1e-12:
                out.append("%s: model parameter '%s' changed when NFFT was changed" % (tag, k))
        fv = getattr(fresh, k, None)
        if fv is None or _elem(np.atleast_1d(snap2[k]).astype(complex), np.atleast_1d(np.asarray(fv)).astype(complex)) > 1e-12:
            out.append("%s: '%s' after the NFFT change differs from a fresh NFFT=%d object" % (tag, k, n2))
    # setting the same value again changes nothing; going back gives the first estimate again
    o.NFFT = n2
    if _elem(np.asarray(o.psd), a2) > 0.0:
        out.append("%s: re-assigning the same NFFT changed the PSD" % tag)
    o.NFFT = n1
    a3 = np.asarray(o.psd)
    if _elem(a3, a1) > 1e-12:
        out.append("%s: NFFT %d -> %d -> %d does not give the first estimate again (err %.2e)" % (tag, n1, n2, n1, _elem(a3, a1)))
    return out


# ---------------------------------------------------------------------------------------------------------------------------
# history of NFFT values on ONE object (data / lag / order / window untouched), starting at the smallest admissible NFFT

HIST_FRESH_TOL = 1e-12      # the object after a history against a fresh object on the same grid (elementwise)
# Measured on the unchanged tree over 2520 records of gen_history (14 class variants x 60 indices x 3 generator seeds):
#   against a fresh object on the same grid:                     worst 0.0 (the same computation repeated); 1e-12 as in oracle_setter
#   two steps of one history at their common (gcd) bins (_elem):  worst 1.93e-12; ELEM_TOL = 1e-10 leaves a margin of 52
#   correlogram against _corr_ref (direct summation over lags):   worst 1.21e-12; REF_TOL = 1e-9 leaves a margin of 829
#   adaptive multitaper across steps: ADAPT_TOL, max-norm, as for two fresh objects (see PARTIAL)


def _other_record(x):
    """a second record of the same length and real/complex class, derived from the case's own samples (replayable)"""
    xa = np.asarray(x)
    if xa.dtype.kind in "iub":
        xa = xa.astype(float)
    return np.conj(xa[::-1]) * 1.5 + 0.25 * np.abs(xa).max()


def history_stats(p):
    """(failures, worst error against fresh objects, worst error across steps (non-adaptive), worst error against _corr_ref)"""
    cls, x, steps = p["cls"], p["x"], [int(n) for n in p["steps"]]
    xa = np.asarray(x)
    isreal = not np.iscomplexobj(xa)
    fs = _fs_of(p)
    cfg = p.get("cfg")
    reads = p.get("reads") or [True] * len(steps)
    other = bool(p.get("other"))
    out = []
    tag = "%s history NFFT %s (%s, N=%d, %s)" % (cls, " -> ".join(
        "%d%s" % (n, "" if r else " (not read)") for n, r in zip(steps, reads)), "real" if isreal else "complex", len(xa), cfg)
    exp = EXPECTED_KEYS.get(cls)
    o = C.make(cls, x, steps[0], fs, False, cfg)
    o2 = C.make(cls, _other_record(x), steps[0], fs, False, cfg) if other else None
    seen = []
    wf = wx = wr = 0.0
    for i, n in enumerate(steps):
        if i:
            o.NFFT = [n, np.int64(n), np.int32(n)][(i + p.get("inttype", 0)) % 3]
            if o2 is not None:
                o2.NFFT = n
        if not reads[i]:
            continue
        # (a second live object of the same class and configuration, other data, is evaluated on the same grid before / after)
        if o2 is not None and i % 2 == 0:
            np.asarray(o2.psd)
        a = np.array(o.psd, copy=True)
        if o2 is not None and i % 2 == 1:
            np.asarray(o2.psd)
        snap = _snapshot(o)
        if o.NFFT != n or abs(o.df - float(fs) / n) > 1e-12 * abs(fs):
            out.append("%s: at step %d the object reports NFFT=%r df=%r" % (tag, i, o.NFFT, o.df))
        _axis_checks(tag, o, a, n, fs, isreal, out)
        fresh = C.make(cls, x, n, fs, False, cfg)
        af = np.asarray(fresh.psd)
        e = _elem(a, af)
        wf = max(wf, e)
        if e > HIST_FRESH_TOL:
            out.append("%s: the PSD at step %d (NFFT=%d) differs from a fresh NFFT=%d object (err %.2e)" % (tag, i, n, n, e))
        if set(snap) != (exp if exp is not None else set(snap)):
            out.append("%s: model parameters present at step %d: %s (expected %s)" % (tag, i, sorted(snap), sorted(exp or [])))
        for k in sorted(snap):
            fv = getattr(fresh, k, None)
            if fv is None or _elem(np.atleast_1d(snap[k]).astype(complex), np.atleast_1d(np.asarray(fv)).astype(complex)) > 1e-12:
                out.append("%s: '%s' at step %d differs from a fresh NFFT=%d object" % (tag, k, i, n))
        if cls == "pcorrelogram":
            c0 = cfg or C.default_cfg(cls, len(xa), not isreal)
            if c0.get("window", "hamming") in CORR_REF_WINDOWS:
                xr = xa.astype(float) if xa.dtype.kind in "iub" else xa
                ref = _corr_ref(xr, None, c0["lag"], c0.get("window", "hamming"), "unbiased", "xcorr", n)
                ref = 2 * ref[: _onesided_len(True, n)] if isreal else ref
                e = _elem(a, ref)          # (the class doubles every one-sided value, DC and Nyquist included)
                wr = max(wr, e)
                if e > REF_TOL:
                    out.append("%s: the PSD at step %d (NFFT=%d) differs from the direct summation over the lags at the grid "
                               "frequencies (err %.2e)" % (tag, i, n, e))
        seen.append((i, n, a, snap))
    for u in range(len(seen)):
        for v in range(u + 1, len(seen)):
            (iu, nu, au, su), (iv, nv, av, sv) = seen[u], seen[v]
            g = gcd(nu, nv)
            cu, cv = au[:: nu // g], av[:: nv // g]
            ncommon = _onesided_len(isreal, g)
            if len(cu) < ncommon or len(cv) < ncommon:
                out.append("%s: steps %d / %d: %d and %d values at the %d common frequencies" % (tag, iu, iv, len(cu), len(cv), ncommon))
                continue
            cu, cv = cu[:ncommon], cv[:ncommon]
            if cls == "MT-adapt":
                e, tol = rel(cu, cv), ADAPT_TOL
            else:
                e, tol = _elem(cu, cv), ELEM_TOL
                wx = max(wx, e)
            if e > tol:
                out.append("%s: the PSD values of steps %d (NFFT=%d) and %d (NFFT=%d) differ at the common frequencies (err %.2e)" % (
                    tag, iu, nu, iv, nv, e))
            if nu == nv and _elem(au, av) > HIST_FRESH_TOL:
                out.append("%s: steps %d and %d (both NFFT=%d) give different estimates (err %.2e)" % (tag, iu, iv, nu, _elem(au, av)))
            if set(su) != set(sv):
                out.append("%s: model parameters at steps %d / %d: %s / %s" % (tag, iu, iv, sorted(su), sorted(sv)))
            for k in sorted(set(su) & set(sv)):
                if k in ("ar", "ma", "rho", "reflection", "eigenvalues") or (k == "weights" and cls != "MT-adapt"):
                    v1 = np.atleast_1d(su[k]).astype(complex)
                    v2 = np.atleast_1d(sv[k]).astype(complex)
                    if v1.shape != v2.shape or rel(v1, v2) > 1e-12:
                        out.append("%s: model parameter '%s' changed between steps %d and %d" % (tag, k, iu, iv))
    if o2 is not None:
        a2 = np.asarray(o2.psd)
        f2 = np.asarray(C.make(cls, _other_record(x), steps[-1], fs, False, cfg).psd)
        wf = max(wf, _elem(a2, f2))
        if _elem(a2, f2) > HIST_FRESH_TOL:
            out.append("%s: a second live object (other data) taken through the same NFFT values differs from a fresh NFFT=%d object "
                       "(err %.2e)" % (tag, steps[-1], _elem(a2, f2)))
    return out, wf, wx, wr


CORR_REF_WINDOWS = ("hamming", "rectangular", "hann", "bartlett", "blackman")


def oracle_history(p):
    return history_stats(p)[0]


# ---------------------------------------------------------------------------------------------------------------------------
# other layouts of the same estimate (get_converted_psd), matched by frequency VALUE

def oracle_sides(p):
    cls, x, n1, c, side = p["cls"], p["x"], p["n1"], p["c"], p["side"]
    xa = np.asarray(x)
    isreal = not np.iscomplexobj(xa)
    n2 = n1 * c
    fs = _fs_of(p)
    out = []
    tag = "%s %s (%s, N=%d)" % (cls, side, "real" if isreal else "complex", len(xa))
    res = []
    for n in (n1, n2):
        o = C.make(cls, x, n, fs, False, p.get("cfg"))
        P = np.asarray(o.get_converted_psd(side))
        F = np.asarray(o.frequencies(side), float)
        if len(P) != len(F) or len(P) != n:
            out.append("%s: NFFT=%d: converted PSD has %d points, frequencies('%s') %d" % (tag, n, len(P), side, len(F)))
            return out
        lo = -(n // 2) if side == "centerdc" else 0
        if np.max(np.abs(F - (np.arange(n) + lo) * (float(fs) / n))) > 1e-12 * abs(fs):
            out.append("%s: NFFT=%d: frequencies('%s') is not (j%+d)*fs/NFFT" % (tag, n, side, lo))
        res.append((P, F))
    (P1, F1), (P2, F2) = res
    q1 = F1 * n2 / float(fs)
    q2 = F2 * n2 / float(fs)
    k1, k2 = np.rint(q1).astype(int), np.rint(q2).astype(int)
    if np.max(np.abs(q1 - k1)) > 1e-6 or np.max(np.abs(q2 - k2)) > 1e-6:
        out.append("%s: frequencies are not multiples of fs/%d" % (tag, n2))
        return out
    pos = {int(k): i for i, k in enumerate(k2)}
    missing = [int(k) for k in k1 if int(k) not in pos]
    if missing:
        out.append("%s: %d frequencies of the NFFT=%d axis are absent from the NFFT=%d axis" % (tag, len(missing), n1, n2))
    keep = np.array([int(k) in pos for k in k1])
    sub = P2[[pos[int(k)] for k in k1[keep]]]
    e = rel(sub, P1[keep]) if cls == "MT-adapt" else _elem(sub, P1[keep])
    if not keep.any() or e > (ADAPT_TOL if cls == "MT-adapt" else ELEM_TOL):
        out.append("%s: values at equal frequencies of NFFT=%d and NFFT=%d differ (err %.2e)" % (tag, n1, n2, e))
    return out


# ---------------------------------------------------------------------------------------------------------------------------
# multitaper: per-taper complex spectra, weights, eigenvalues; tapers handed in; default k

def oracle_mt(p):
    s = C.sp()
    x = np.asarray(p["x"])
    isreal = not np.iscomplexobj(x)
    N = len(x)
    NW, k, meth, n1, c = p["NW"], p.get("k"), p["method"], p["n1"], p["c"]
    n2 = n1 * c
    out = []
    tag = "pmtm %s NW=%s k=%s (%s, N=%d)" % (meth, NW, k, "real" if isreal else "complex", N)
    tapers, lam = s.dpss(N, NW, k)
    K = len(lam)
    res = []
    for n in (n1, n2):
        if p.get("ev"):
            r = s.pmtm(x, e=lam.copy(), v=tapers.copy(), NFFT=n, method=meth, show=False)
        else:
            r = s.pmtm(x, NW=NW, k=k, NFFT=n, method=meth, show=False)
        res.append((np.asarray(r[0]), np.asarray(r[1]), np.asarray(r[2])))
    (S1, w1, e1), (S2, w2, e2) = res
    if S1.shape != (K, n1) or S2.shape != (K, n2):
        out.append("%s: per-taper spectra have shapes %s / %s, expected (%d, %d) / (%d, %d)" % (tag, S1.shape, S2.shape, K, n1, K, n2))
        return out
    # independent reference: the transform of taper * data evaluated at the frequencies j/n1 directly
    ref = _dtft(tapers.T * x, np.arange(n1) / float(n1))
    for name, v in (("NFFT=%d" % n1, S1), ("NFFT=%d at the common bins" % n2, S2[:, ::c])):
        if _elem(v, ref) > REF_TOL:
            out.append("%s: complex per-taper spectra at %s differ from the transform of taper*data (err %.2e)" % (tag, name, _elem(v, ref)))
    if _elem(S2[:, ::c], S1) > ELEM_TOL:
        out.append("%s: complex per-taper spectra at the common frequencies depend on NFFT (err %.2e)" % (tag, _elem(S2[:, ::c], S1)))
    if e1.shape != lam.shape or rel(e1, lam) > 1e-12 or rel(e2, lam) > 1e-12:
        out.append("%s: eigenvalues depend on NFFT or differ from dpss(N, NW, k)" % tag)
    if meth in ("unity", "eigen"):
        wref = np.ones((K, 1)) if meth == "unity" else (lam / (np.arange(K) + 1.0)).reshape(K, 1)
        if w1.shape != (K, 1) or w2.shape != (K, 1) or rel(w1, wref) > 1e-12 or rel(w2, wref) > 1e-12:
            out.append("%s: weights %s / %s are not the (k,1) NFFT-independent table" % (tag, w1.shape, w2.shape))
    else:
        if w1.shape != (n1, K) or w2.shape != (n2, K):
            out.append("%s: adaptive weights have shapes %s / %s" % (tag, w1.shape, w2.shape))
            return out
        if rel(w2[::c], w1) > ADAPT_W_TOL:
            out.append("%s: adaptive weights at the common frequencies depend on NFFT (rel err %.2e)" % (tag, rel(w2[::c], w1)))
        for n, S, w in ((n1, S1, w1), (n2, S2, w2)):
            est = np.mean((np.abs(S) ** 2).T * w, axis=1)
            if isreal:
                est = 2 * est[: _onesided_len(True, n)]
            out += _adapt_check(tag, x, tapers, lam, n, est, w)
    # the class, with the tapers handed in or computed, on both grids
    objs = []
    for n in (n1, n2):
        if p.get("ev"):
            o = s.MultiTapering(x, e=lam.copy(), v=tapers.copy(), method=meth, NFFT=n, scale_by_freq=False)
        else:
            o = s.MultiTapering(x, NW=NW, k=k, method=meth, NFFT=n, scale_by_freq=False)
        a = np.asarray(o.psd)
        S, w = (S1, w1) if n == n1 else (S2, w2)
        est = np.mean((np.abs(S) ** 2).T * w, axis=1) if meth == "adapt" else np.mean(np.abs(S) ** 2 * w, axis=0)
        if isreal:
            est = 2 * est[: _onesided_len(True, n)]
        if _elem(a, est) > 1e-12:
            out.append("%s: class PSD at NFFT=%d is not mean(|Sk|^2 * weights) of pmtm on the same grid (err %.2e)" % (tag, n, _elem(a, est)))
        objs.append((o, a))
    (o1, a1), (o2, a2) = objs
    sub = a2[::c][: len(a1)]
    e = rel(sub, a1) if meth == "adapt" else _elem(sub, a1)
    if len(sub) != len(a1) or e > (ADAPT_TOL if meth == "adapt" else ELEM_TOL):
        out.append("%s: class PSD at the common frequencies of NFFT=%d and %d differ (err %.2e)" % (tag, n1, n2, e))
    _compare_params(tag, "MT-" + meth, o1, o2, 1, c, out)
    return out


# ---------------------------------------------------------------------------------------------------------------------------
# options of the estimators

def _corr_ref(x, y, lag, window, norm, method, nfft):
    """Blackman-Tukey (cross-)correlogram at the frequencies j/nfft, by direct summation over the lags:
    r[0] + sum_m w[m] (r_xy[m] e^{-i 2 pi f m} + conj(r_yx[m]) e^{+i 2 pi f m}), real part"""
    s = C.sp()
    x = np.asarray(x)
    yy = x if y is None else np.asarray(y)
    if method == "xcorr":
        rxy = np.asarray(s.xcorr(x, yy, maxlags=lag, norm=norm)[0])[lag:]
        ryx = np.asarray(s.xcorr(yy, x, maxlags=lag, norm=norm)[0])[lag:]
    else:
        rxy = np.asarray(s.CORRELATION(x, yy, maxlags=lag, norm=norm))
        ryx = np.asarray(s.CORRELATION(yy, x, maxlags=lag, norm=norm))
    if y is None:
        ryx = rxy
    w = np.asarray(s.Window(2 * lag + 1, window).data)[lag + 1:]
    f = np.arange(nfft) / float(nfft)
    mm = np.arange(1, lag + 1)
    E = np.exp(-2j * np.pi * np.outer(f, mm))
    return np.real(rxy[0] + E @ (w * rxy[1:]) + np.conj(E) @ (w * np.conj(ryx[1:])))


def _opt_eval(p, nfft):
    """(values with the frequency along axis 0, {parameter: value}, numpy reference or None) of one option case on one grid"""
    s = C.sp()
    x = p["x"]
    xa = np.asarray(x)
    isreal = not np.iscomplexobj(xa)
    opt = p["opt"]
    L = _onesided_len(isreal, nfft)
    if opt == "cross":
        o = s.pcorrelogram(x, lag=p["lag"], window=p["window"], NFFT=nfft, scale_by_freq=False)
        o.data_y = p["y"]
        ref = _corr_ref(xa, p["y"], p["lag"], p["window"], "unbiased", "xcorr", nfft)
        return np.asarray(o.psd), {}, (2 * ref[:L] if isreal else ref)
    if opt == "CORR":
        y = p.get("y")
        v = s.CORRELOGRAMPSD(x, y, lag=p["lag"], window=p["window"], norm=p["norm"], NFFT=nfft, correlation_method=p["method"])
        return np.asarray(v), {}, _corr_ref(xa, y, p["lag"], p["window"], p["norm"], p["method"], nfft)
    if opt == "subspace":
        f = s.pmusic if p["cls"] == "pmusic" else s.pev
        kw = {"threshold": p["threshold"]} if p.get("threshold") is not None else {"criteria": p["criteria"]}
        o = f(x, p["order"], NSIG=None, NFFT=nfft, **kw)
        return np.asarray(o.psd), {"eigenvalues": o.eigenvalues}, None
    if opt == "yule-norm":
        o = s.pyule(x, p["order"], norm=p["norm"], NFFT=nfft, scale_by_freq=False)
        return np.asarray(o.psd), {"ar": o.ar, "reflection": o.reflection}, None
    if opt == "burg-criteria":
        o = s.pburg(x, p["order"], criteria=p["criteria"], NFFT=nfft, scale_by_freq=False)
        return np.asarray(o.psd), {"ar": o.ar, "rho": o.rho, "reflection": o.reflection}, None
    if opt == "detrend":
        o = s.Periodogram(x, window=p["window"], detrend="mean", NFFT=nfft, scale_by_freq=False)
        return np.asarray(o.psd), {}, None
    if opt == "sper2d":
        v = np.asarray(s.speriodogram(x, NFFT=nfft, detrend=p["detrend"], scale_by_freq=False, window=p["window"]))
        r = xa.shape[0]
        w = np.asarray(s.Window(r, p["window"]).data)
        cols = []
        for j in range(xa.shape[1]):
            col = xa[:, j] * w - (np.mean(xa[:, j]) if p["detrend"] else 0)
            cols.append(np.abs(_dtft(col, np.arange(L) / float(nfft))[0]) ** 2 / r)
        return v, {}, np.array(cols).T
    raise ValueError(opt)


def oracle_opt(p):
    n1, c = p["n1"], p["c"]
    n2 = n1 * c
    xa = np.asarray(p["x"])
    isreal = not np.iscomplexobj(xa)
    tag = "%s %s (%s, N=%d)" % (p["opt"], {k: v for k, v in p.items() if k in (
        "cls", "lag", "window", "norm", "method", "criteria", "threshold", "order", "detrend")}, "real" if isreal else "complex", xa.shape[0])
    out = []
    v1, q1, r1 = _opt_eval(p, n1)
    v2, q2, r2 = _opt_eval(p, n2)
    twosided = p["opt"] == "CORR"
    for n, v, r in ((n1, v1, r1), (n2, v2, r2)):
        if v.shape[0] != (n if twosided else _onesided_len(isreal, n)):
            out.append("%s: NFFT=%d: %d values" % (tag, n, v.shape[0]))
        if r is not None and _elem(v, r) > REF_TOL:
            out.append("%s: NFFT=%d: values differ from the direct evaluation at the grid frequencies (err %.2e)" % (tag, n, _elem(v, r)))
    sub = v2[::c][: len(v1)]
    if sub.shape != v1.shape or _elem(sub, v1) > ELEM_TOL:
        out.append("%s: values at the common frequencies of NFFT=%d and NFFT=%d differ (shapes %s / %s, err %.2e)" % (
            tag, n1, n2, v1.shape, sub.shape, _elem(sub, v1)))
    if set(q1) != set(q2) or any(v is None for v in list(q1.values()) + list(q2.values())):
        out.append("%s: model parameters missing on one grid" % tag)
    else:
        for k in q1:
            a = np.atleast_1d(np.asarray(q1[k])).astype(complex).ravel()
            b = np.atleast_1d(np.asarray(q2[k])).astype(complex).ravel()
            if a.shape != b.shape or rel(a, b) > 1e-12:
                out.append("%s: model parameter '%s' depends on NFFT" % (tag, k))
    return out


# ---------------------------------------------------------------------------------------------------------------------------
# (almost) noiseless line spectra: per-bin comparison with a tolerance derived from the conditioning of each value

EPS = float(np.finfo(float).eps)
# Every estimate is a quotient / product of trigonometric polynomials evaluated by a zero-padded FFT: the absolute rounding error
# of a polynomial value is about eps * (largest value of that polynomial), whatever the grid.  Relative to the PSD value v itself:
#   pole   v = c / |A(f)|^2  (AR classes, subspace pseudo-spectra):   err / v  ~  eps * sqrt(v / vmin)
#   pole1  v = c / Re psi(f) (minimum variance: linear denominator):  err / v  ~  eps * v / vmin
#   zero   v = c * |B(f)|^2  (periodogram, multitaper, MA):           err / v  ~  eps * sqrt(vmax / v)
#   zero1  v = Re sum r e^.. (correlogram: linear):                   err / v  ~  eps * vmax / |v|
#   both   v = c |B|^2/|A|^2 (ARMA):                                  sum of pole and zero terms
# vmin / vmax: smallest / largest finite non-zero |value| over BOTH full grids (scale of the tolerance only).
# LINE_K: measured on the unchanged tree over 60000 records of gen_line (all 13 class variants, noise 1e-5 ... 1e-12 and exactly 0,
# lines on common bins / on the fine grid only / at DC and Nyquist, multiples and gcd pairs, fresh objects and the setter): worst
# observed |a-b| / (max(|a|,|b|) * eps * cond) per class: Periodogram 4.9, pcorrelogram 2.0, pburg 4.1, pyule 4.4, pcovar 3.9,
# pmodcovar 4.1, parma 6.7, pma 4.9, pminvar 1.8, pmusic 4.5, pev 5.6, MT-unity 4.7, MT-eigen 4.4; 256 leaves a margin of 38.
LINE_K = 256.0
LINE_COND = {"pburg": "pole", "pyule": "pole", "pcovar": "pole", "pmodcovar": "pole", "pmusic": "pole", "pev": "pole",
             "pminvar": "pole1", "Periodogram": "zero", "MT-unity": "zero", "MT-eigen": "zero", "pma": "zero",
             "pcorrelogram": "zero1", "parma": "both"}
LINE_CLASSES = [c for c in C.CLASSES if c in LINE_COND]      # adaptive multitaper: see PARTIAL
# a bin whose tolerance reaches LINE_OPEN carries no information (the value is rounding noise: 1/round-off at the line of a
# noiseless record); there only the order of magnitude is compared (pole classes: both values must be beyond resolution: the
# smaller one must itself have a tolerance >= LINE_OPEN / LINE_W; on the unchanged tree the smaller value was itself beyond
# LINE_OPEN in every one of the 60000 records, i.e. ratio <= 1.0; LINE_W = 100)
LINE_OPEN = 0.25
LINE_W = 100.0


def _line_cond(kind, m, vmin, vmax):
    with np.errstate(all="ignore"):
        if kind == "pole":
            return np.sqrt(m / vmin)
        if kind == "pole1":
            return m / vmin
        if kind == "zero":
            return np.sqrt(vmax / m)
        if kind == "zero1":
            return vmax / m
        return np.sqrt(m / vmin) + np.sqrt(vmax / m)


def _line_build(p, n1, n2):
    """the two estimates: two fresh objects, or one object whose NFFT is changed (either direction)"""
    cls, x, fs, cfg = p["cls"], p["x"], _fs_of(p), p.get("cfg")
    via = p.get("via", "fresh")
    if via == "fresh":
        o1 = C.make(cls, x, n1, fs, False, cfg)
        a1 = np.array(o1.psd, dtype=float)
        o2 = C.make(cls, x, n2, fs, False, cfg)
        a2 = np.array(o2.psd, dtype=float)
        return o1, a1, o2, a2
    first, second = (n1, n2) if via == "setter" else (n2, n1)
    o = C.make(cls, x, first, fs, False, cfg)
    af = np.array(o.psd, dtype=float)
    ref = C.make(cls, x, first, fs, False, cfg)
    ref.psd
    o.NFFT = second
    asec = np.array(o.psd, dtype=float)
    return (ref, af, o, asec) if via == "setter" else (o, asec, ref, af)


def line_stats(p):
    """(failures, worst normalised error, worst open-bin ratio) -- the last two are what the tolerances were measured with"""
    cls, n1 = p["cls"], p["n1"]
    xa = np.asarray(p["x"])
    isreal = not np.iscomplexobj(xa)
    n2 = p.get("n2", n1 * p.get("c", 1))
    g = gcd(n1, n2)
    s1, s2 = n1 // g, n2 // g
    fs = _fs_of(p)
    tag = "%s line spectrum (%s, N=%d, noise %g, lines %s %s%s)" % (
        cls, "real" if isreal else "complex", len(xa), p.get("sigma", -1), "+".join("%d/%d" % (j, d) for j, d in p.get("lines", [])),
        p.get("where", ""), "" if p.get("via", "fresh") == "fresh" else ", " + p["via"])
    out = []
    built, errs = None, []
    try:
        built = _line_build(p, n1, n2)
    except Exception as e:                      # noqa: BLE001
        errs.append(type(e).__name__)
    if built is None:
        # outside the estimator's domain (e.g. Burg order above the number of components of a noiseless record: "decrease the
        # order"): not a statement about NFFT as long as BOTH grids are refused alike
        for n in (n1, n2):
            try:
                np.asarray(C.make(cls, p["x"], n, fs, False, p.get("cfg")).psd)
                out.append("%s: NFFT=%d gives an estimate but the pair NFFT=%d / %d could not be evaluated (%s)" % (tag, n, n1, n2, errs[0]))
            except Exception:                   # noqa: BLE001
                pass
        return out, 0.0, 0.0
    o1, a1, o2, a2 = built
    if len(a1) != _onesided_len(isreal, n1) or len(a2) != _onesided_len(isreal, n2):
        out.append("%s: NFFT=%d / %d: %d / %d values" % (tag, n1, n2, len(a1), len(a2)))
        return out, 0.0, 0.0
    a = a1[::s1]
    b = a2[::s2][: len(a)]
    if len(a) != len(b) or len(a) != _onesided_len(isreal, g):
        out.append("%s: NFFT=%d / %d: %d and %d values at the %d common frequencies" % (tag, n1, n2, len(a), len(b), _onesided_len(isreal, g)))
        return out, 0.0, 0.0
    f1, f2 = np.asarray(o1.frequencies(), float), np.asarray(o2.frequencies(), float)
    if len(f1) != len(a1) or len(f2) != len(a2) or np.max(np.abs(f1[::s1] - f2[::s2][: len(a)])) > 1e-12 * abs(fs):
        out.append("%s: frequencies() of NFFT=%d and NFFT=%d differ at the common bins" % (tag, n1, n2))
    allv = np.abs(np.concatenate([a1, a2]))
    allv = allv[np.isfinite(allv) & (allv > 0)]
    if allv.size == 0:
        # an identically zero estimate on BOTH grids (covariance methods: the residual variance of an exactly noiseless record
        # rounds to exactly 0; the value at the line is then 0/0 = NaN or 0/round-off = 0 depending on whether |A(f)|^2 is exactly
        # 0 on that grid): the unchanged code does not support such a record, there is no value to compare
        if np.any(np.isinf(a) != np.isinf(b)):
            out.append("%s: infinite at a common frequency on one of NFFT=%d / %d only, every other value zero" % (tag, n1, n2))
        return out, 0.0, 0.0
    nan = np.isnan(a) | np.isnan(b)
    if np.any(np.isnan(a) != np.isnan(b)):
        out.append("%s: NaN at a common frequency on one of NFFT=%d / %d only" % (tag, n1, n2))
    vmin, vmax = float(allv.min()), float(allv.max())
    kind = LINE_COND[cls]
    A, B = np.abs(a), np.abs(b)
    m = np.maximum(A, B)
    with np.errstate(all="ignore"):
        d = np.abs(a - b)
        d = np.where(np.isfinite(d), d, np.where(a == b, 0.0, np.inf))        # inf against inf of the same sign: equal
        tol = LINE_K * EPS * _line_cond(kind, m, vmin, vmax)
        tol = np.where(np.isnan(tol), np.inf, tol)
        live = (~nan) & (m > 0) & (tol < LINE_OPEN)
        ratio = np.where(live, d / (m * tol), 0.0)
    worst = float(np.max(ratio)) if ratio.size else 0.0
    # exact zeros: a value that is exactly 0 on one grid must be within the absolute rounding level on the other (covered by
    # `live` when the other is non-zero: m > 0 and d = m)
    if worst > 1.0:
        j = int(np.argmax(ratio))
        fj = j * float(fs) / g
        near = ""
        for (ln, ld) in p.get("lines", []):
            fl = (ln / float(ld)) % 1.0
            if isreal:
                fl = min(fl, 1.0 - fl)
            dist = abs(j / float(g) - fl) * g
            if dist < 1e-9:
                near = " (a line bin)"
            elif dist <= 1.0 + 1e-9 and not near:
                near = " (next to a line bin)"
        out.append("%s: values at the common frequency %g%s of NFFT=%d and NFFT=%d differ: %.17g vs %.17g, relative %.2e, "
                   "tolerance from the conditioning of this bin %.2e (%d of %d common bins differ)" % (
                       tag, fj, near, n1, n2, a[j], b[j], d[j] / m[j], tol[j], int(np.sum(ratio > 1.0)), len(a)))
    wopen = 0.0
    if kind in ("pole", "pole1"):
        opn = (~nan) & (m > 0) & ~(tol < LINE_OPEN)
        if np.any(opn):
            lo = np.minimum(A, B)
            with np.errstate(all="ignore"):
                tlo = LINE_K * EPS * _line_cond(kind, lo, vmin, vmax)
                r = np.where(opn, LINE_OPEN / tlo, 0.0)
            wopen = float(np.max(r))
            if wopen > LINE_W:                 # (the sign of such a value is rounding noise as well: not compared)
                j = int(np.argmax(r))
                out.append("%s: the value at the common frequency %g is beyond double-precision resolution on one of NFFT=%d / %d "
                           "and ordinary on the other: %.6g vs %.6g" % (tag, j * float(fs) / g, n1, n2, a[j], b[j]))
    _compare_params(tag, cls, o1, o2, s1, s2, out)
    return out, worst * LINE_K, wopen


def oracle_line(p):
    return line_stats(p)[0]


# ---------------------------------------------------------------------------------------------------------------------------

def impl_glue(p):
    o = C.make(p["cls"], p["x"], p["nfft"], _fs_of(p), False, p.get("cfg"))
    return [np.asarray(o.psd)]


def model_glue(p):
    x = np.asarray(p["x"])
    raw = C.raw_two_sided(p["cls"], x, p["nfft"], _fs_of(p), p.get("cfg"))
    return C.glue_request(p["cls"], raw, np.isrealobj(x), p["nfft"], False, _fs_of(p))


def impl_dft(p):
    return [np.fft.fft(np.asarray(p["x"]), p["nfft"])]


def model_dft(p):
    return ("F", proto.request("dft", "F", [p["nfft"]], [np.asarray(p["x"])]))


def _key(p):
    x = np.asarray(p["x"])
    base = "%s|%s|%s|%s|%d" % (p.get("cls"), p.get("n1", p.get("nfft")), p.get("c"), np.iscomplexobj(x), hash(x.tobytes()) & 0xFFFFF)
    extra = [(k, p[k]) for k in sorted(p) if k not in ("cls", "n1", "nfft", "c", "x", "y", "variant") and p[k] is not None]
    if not extra:
        return base
    return base + "|" + repr([(k, sorted(v.items()) if isinstance(v, dict) else v) for k, v in extra])


def _tags(p):
    n = p.get("n1", p.get("nfft"))
    x = np.asarray(p["x"])
    t = ["cls:%s" % p.get("cls", p.get("opt", "dft")), "complex" if np.iscomplexobj(x) else "real", "nfft:" + ("odd" if n % 2 else "even"),
         "c:%s" % p.get("c", "-"), "N:%d" % x.shape[0]]
    if "fs" in p:
        t.append("fs:%g" % p["fs"])
    if "n2" in p:
        t.append("pair:gcd")
    if "form" in p:
        t.append("form:%s" % p["form"])
    if "opt" in p:
        t.append("opt:%s" % p["opt"])
    if "side" in p:
        t.append("side:%s" % p["side"])
    if n * (p.get("c") or 1) >= 1024:
        t.append("fine-grid>=1024")
    if "steps" in p:
        t.append("hist:%s" % p.get("shape"))
        t.append("hist-start:%s" % p.get("start"))
        if p.get("other"):
            t.append("hist:second-live-object")
        w = (p.get("cfg") or {}).get("window")
        if w is not None:
            t.append("hist-window:%s" % (w if w in ("hamming", "rectangular", "hann", "bartlett", "blackman") else "other"))
    if "where" in p:
        t.append("line:%s" % p["where"])
        t.append("line-noise:%g" % p.get("sigma", -1))
        if p.get("via", "fresh") != "fresh":
            t.append("line-via:%s" % p["via"])
        if any(j == 0 or 2 * j == d for j, d in p.get("lines", [])):
            t.append("line:dc-or-nyquist")
    return t


KINDS = {
    "grid": {"oracle": oracle_grid, "key": _key, "tags": _tags},
    "setter": {"oracle": oracle_setter, "key": _key, "tags": _tags},
    "sides": {"oracle": oracle_sides, "key": _key, "tags": _tags},
    "mt": {"oracle": oracle_mt, "key": _key, "tags": _tags},
    "opt": {"oracle": oracle_opt, "key": _key, "tags": _tags},
    "line": {"oracle": oracle_line, "key": _key, "tags": _tags},
    "history": {"oracle": oracle_history, "key": _key, "tags": _tags},
    "glue": {"impl": impl_glue, "model": model_glue, "rtol": 1e-9, "atol": 1e-300, "key": _key, "tags": _tags},
    "dft": {"impl": impl_dft, "model": model_dft, "rtol": 1e-10, "atol": 1e-12, "key": _key, "tags": _tags},
}

# line-spectrum cases carry the description of their content (line positions, noise level): no derived degenerate records
NO_DEGEN = {"line"}

SIZES = [7, 9, 13, 23, 25, 64, 101, 300]
BIG_PAIRS = [(24, 4), (24, 5), (25, 7), (32, 32), (127, 2), (1024, 2), (1024, 4), (1025, 2), (2048, 2)]
GCD_PAIRS = [(24, 36), (25, 35), (30, 42), (27, 45)]
BASE_PAIRS = [(24, 2), (25, 2), (25, 3), (32, 3), (27, 2)]
FS_VALUES = [0.5, 1000, 44100.0]
SIDE_PAIRS = [(24, 2), (25, 2), (25, 3), (24, 3)]
OPT_PAIRS = [(24, 2), (25, 3), (11, 2), (12, 2)]
BURG_CRITERIA = ["AIC", "AICc", "KIC", "AKICc", "FPE", "MDL"]


def cfg_for(cls, N, j=0):
    """estimator parameters inside the documented domain for data of length N (small N: small orders / lags / NW)"""
    big = N >= 64
    if cls == "Periodogram":
        return {"window": ["hann", "hamming", "rectangular", "blackman"][j % 4]}
    if cls == "pcorrelogram":
        lag = [5, 20, N // 4, 31][j % 4] if big else min(N - 1, [5, 3, N // 2, N - 1][j % 4])
        return {"lag": lag, "window": ["hamming", "hann"][(j // 4) % 2]}
    if cls == "pburg":
        return {"order": min(N - 2, 8 if big else 4)}
    if cls == "pyule":
        return {"order": min(N - 1, 8 if big else 4)}
    if cls == "pminvar":
        return {"order": min(N // 2, 8 if big else 4)}
    if cls in ("pcovar", "pmodcovar"):
        return {"order": min(N // 2 - 1, 8 if big else 4)}
    if cls == "parma":
        if N < 12:
            return {"order": 1, "Q": 1, "lag": 4}
        if N < 20:
            return {"order": 2, "Q": 2, "lag": 7}
        return {"order": 4, "Q": 4, "lag": 16} if big else {"order": 3, "Q": 3, "lag": 8}
    if cls == "pma":
        if N < 12:
            return {"Q": 1, "M": 3}
        return {"Q": 5, "M": 15} if big else {"Q": 3, "M": 7}
    if cls in ("pmusic", "pev"):
        P = min(10 if big else 6, (2 * N) // 3 - 1)
        return {"order": P, "nsig": min(2, P - 1)}
    if cls.startswith("MT"):
        NW = [2.5, 4.0][j % 2] if big else (2.5 if N / 2.0 > 2.5 else 1.5)
        return {"NW": NW, "k": [int(2 * NW) - 1, int(2 * NW), 2][(j // 2) % 3]}
    raise ValueError(cls)


def _data(nrng, N, cplx, tone=True):
    x = nrng.standard_normal(N) + (np.cos(0.9 * np.arange(N)) if tone else 0)
    if cplx:
        x = x + 1j * nrng.standard_normal(N)
    return x


def _as_form(nrng, N, form):
    """the same kind of record in another accepted input form"""
    if form in ("int", "int32", "list"):
        v = nrng.integers(-9, 10, N)
        if not np.any(v):
            v[0] = 1
        if form == "list":
            return [float(t) for t in v]
        return v.astype(np.int32 if form == "int32" else np.int64)
    if form == "clist":
        return [complex(float(a), float(b)) for a, b in zip(nrng.integers(-9, 10, N), nrng.integers(1, 10, N))]
    if form == "float32":
        return (nrng.standard_normal(N) + np.cos(0.9 * np.arange(N))).astype(np.float32)
    if form == "complex64":
        return (nrng.standard_normal(N) + 1j * nrng.standard_normal(N)).astype(np.complex64)
    raise ValueError(form)


# ---- (almost) noiseless line spectra ---------------------------------------------------------------------------------------
LINE_SIGMAS = [1e-8, 1e-5, 1e-10, 0.0, 1e-6, 1e-9, 1e-12, 1e-7, 1e-11]
LINE_N = [24, 32, 40, 64, 25, 37]
LINE_GCD = [(2, 3), (3, 4), (3, 5), (2, 5), (4, 5)]


def line_cfg(nrng, cls, N, ns):
    """estimator parameters for a record of length N made of ns complex exponentials (a real sinusoid counts twice)"""
    r = lambda lo, hi: int(nrng.integers(lo, hi + 1))     # noqa: E731
    if cls in ("pmusic", "pev"):
        P = ns + r(2, 5)
        return {"order": P, "nsig": [ns, ns, ns, ns, None, min(ns + 1, P - 1)][r(0, 5)]}
    if cls == "pburg":
        return {"order": max(1, ns - r(0, 1))}          # above ns the residual of a noiseless record is <= 0: "decrease the order"
    if cls == "pminvar":
        return {"order": max(2, ns + r(-1, 1))}
    if cls == "pyule":
        return {"order": max(1, ns + r(-1, 2))}
    if cls in ("pcovar", "pmodcovar"):
        return {"order": min(N // 2 - 1, max(1, ns + r(-1, 2)))}
    if cls == "parma":
        return {"order": ns, "Q": r(1, 3), "lag": 2 * ns + r(4, 6)}
    if cls == "pma":
        Q = r(2, 4)
        return {"Q": Q, "M": 3 * Q}
    if cls == "pcorrelogram":
        return {"lag": r(4, N // 2), "window": ["hamming", "hann", "bartlett", "rectangular"][r(0, 3)]}
    if cls == "Periodogram":
        return {"window": ["hann", "rectangular", "hamming", "blackman"][r(0, 3)]}
    NW = [2.5, 2.0, 4.0][r(0, 2)]
    return {"NW": NW, "k": [int(2 * NW) - 1, int(2 * NW), 2][r(0, 2)]}


def line_record(nrng, N, cplx, lines, sigma):
    """sum of lines a * cos / exp(2 pi i (j/d) n + phase), amplitudes in [0.3, 1.5] with the largest equal to 1, plus white noise
    of standard deviation sigma (relative to the largest line); sigma = 0: no noise term at all"""
    n = np.arange(N)
    amps = nrng.uniform(0.3, 1.5, len(lines))
    amps = amps / amps.max()
    x = np.zeros(N, complex if cplx else float)
    for (j, d), a in zip(lines, amps):
        ph = nrng.uniform(0, 2 * np.pi)
        if 2 * j == d or j == 0:
            ph = nrng.uniform(-1.0, 1.0)                  # DC / Nyquist: keep the (real) line away from cos(phase) = 0
        arg = 2 * np.pi * ((j * n) % d) / float(d) + ph   # (j*n) mod d: the samples are periodic to the last bit
        x = x + (a * np.exp(1j * arg) if cplx else a * np.cos(arg))
    if sigma:
        x = x + sigma * (nrng.standard_normal(N) + (1j * nrng.standard_normal(N) if cplx else 0))
    return x


def gen_line(nrng, cls, i):
    """one line-spectrum case for class cls; i selects noise level / placement / pair shape deterministically"""
    cplx = bool(nrng.integers(0, 2))
    N = LINE_N[int(nrng.integers(0, len(LINE_N)))]
    nl = 1 + int(nrng.integers(0, 3)) % 2 + (1 if i % 11 == 10 else 0)
    sigma = LINE_SIGMAS[i % len(LINE_SIGMAS)]
    where = ["common", "fine-only", "common", "mixed"][(i // len(LINE_SIGMAS) + i) % 4]
    edge = (i % 7 == 3)                                   # put one line on DC or (even common grid) the Nyquist bin
    # number of complex exponentials of the record decides the orders; DC / Nyquist lines of real data count once
    ns_guess = nl if cplx else 2 * nl
    cfg = line_cfg(nrng, cls, N, ns_guess)
    nmin = max(C.min_nfft(cls, N, cfg), 2 * nl + 4)
    if i % 5 == 4:
        s1, s2 = LINE_GCD[int(nrng.integers(0, len(LINE_GCD)))]
        if nrng.integers(0, 2):
            s1, s2 = s2, s1
        g = -(-nmin // min(s1, s2)) + int(nrng.integers(0, 6))
        n1, n2, c = g * s1, g * s2, None
    else:
        n1 = nmin + int(nrng.integers(0, 13))
        c = [2, 3, 2, 4, 5, 3][int(nrng.integers(0, 6))]
        n2, g = n1 * c, n1
    nfine = max(n1, n2)
    sf = nfine // g
    hi_g = g - 1 if cplx else (g - 1) // 2                # bins 1 .. hi_g of the common grid are interior bins
    hi_f = nfine - 1 if cplx else (nfine - 1) // 2
    lines = []
    used = set()
    for t in range(nl):
        on_common = where == "common" or (where == "mixed" and t == 0)
        for _ in range(50):
            if on_common:
                j = int(nrng.integers(1, max(2, hi_g + 1)))
                if edge and t == 0:
                    j = 0 if (g % 2 or nrng.integers(0, 2)) else g // 2
                ln = (j, g)
            else:
                j = int(nrng.integers(1, hi_f + 1))
                if j % sf == 0:
                    continue
                ln = (j, nfine)
            key = round(ln[0] / float(ln[1]), 9)
            if key not in used:
                used.add(key)
                lines.append([int(ln[0]), int(ln[1])])
                break
    q = {"cls": cls, "x": line_record(nrng, N, cplx, lines, sigma), "n1": n1, "cfg": cfg, "lines": lines, "sigma": sigma,
         "where": where}
    if c is None:
        q["n2"] = n2
    else:
        q["c"] = c
    v = i % 6
    if v == 2:
        q["via"] = "setter"
    elif v == 5:
        q["via"] = "setter-down"
    if i % 9 == 7:
        q["fs"] = FS_VALUES[(i // 9) % 3]
    return q


# ---- histories of NFFT values on one object ------------------------------------------------------------------------------
HIST_WINDOWS = ["hamming", "rectangular", "hann", "bartlett", "hamming", "blackman", "rectangular", None]   # None: any window name


def gen_history(nrng, cls, i):
    """one history case for class cls; i selects start (smallest admissible NFFT three times out of four, one above otherwise),
    shape of the history and the side conditions deterministically"""
    cplx = bool((i // 2) % 2)
    N = [24, 25, 40, 24][(i // 3) % 4]
    if cls == "pcorrelogram":
        from spectrum.window import window_names
        wn = sorted(window_names)
        w = HIST_WINDOWS[i % len(HIST_WINDOWS)] or wn[int(nrng.integers(0, len(wn)))]
        lag = [int(nrng.integers(1, N // 2)), int(nrng.integers(N // 2, N - 1)), N - 1, int(nrng.integers(2, 9))][(i // 2) % 4]
        cfg = {"lag": lag, "window": w}
    elif cls == "Periodogram":
        cfg = {"window": ["hamming", "rectangular", "hann", "blackman"][i % 4]}
    else:
        cfg = C.random_cfg(nrng, cls, N, boundary=(i % 4 == 3))
    nmin = C.min_nfft(cls, N, cfg)
    s = nmin + (1 if i % 4 == 2 else 0)
    g = max(d for d in range(1, s) if s % d == 0) if s > 1 else 1     # largest proper divisor: gcd(s, s + g) = g
    c = [2, 3, 2, 5, 4][(i // 6) % 5]
    shape = i % 6
    reads = None
    if shape == 0:
        steps = [s, c * s]
    elif shape == 1:
        steps = [s, c * s, s]
    elif shape == 2:
        steps = [[s, 2 * s, 4 * s], [s, 2 * s, 6 * s], [s, 3 * s, 6 * s, 12 * s]][(i // 6) % 3]
    elif shape == 3:
        steps = [s, s + g, 2 * s] if (i // 6) % 2 else [s, s + 1, c * s]
    elif shape == 4:
        steps = [s, 2 * s, 3 * s, s, 2 * s]
    else:
        steps = [s, c * s, 2 * c * s]
        reads = [True, False, True]
    q = {"cls": cls, "x": _data(nrng, N, cplx, tone=bool(i % 5)), "n1": s, "steps": steps, "cfg": cfg, "inttype": i % 3,
         "start": "nmin" if s == nmin else "nmin+1", "shape": ["raise", "raise-lower", "raises", "non-multiple", "up-up-down-up",
                                                               "raise-unread-raise"][shape]}
    if reads:
        q["reads"] = reads
    if i % 3 == 1:
        q["other"] = True
    if i % 7 == 5:
        q["fs"] = FS_VALUES[(i // 7) % 3]
    return q


def gen(rng, nrng, tier):
    N = 24
    n = np.arange(N)
    quick = tier == "quick"
    ncls = len(C.CLASSES)
    reps = 2 if tier == "quick" else 25
    for r in range(reps):
        for cplx in (True, False):
            x = nrng.standard_normal(N) + np.cos(0.9 * n) + (1j * nrng.standard_normal(N) if cplx else 0)
            for cls in C.CLASSES:
                pairs = [(24, 2), (25, 2), (25, 3), (32, 3), (27, 2)]
                if tier == "quick":
                    pairs = [pairs[(r + C.CLASSES.index(cls)) % 5], pairs[(r + 2 + C.CLASSES.index(cls)) % 5]]
                for (n1, c) in pairs:
                    yield ("grid", {"cls": cls, "x": x, "n1": n1, "c": c})
                    if r == 0:
                        yield ("glue", {"cls": cls, "x": x, "nfft": n1 * c})
    # real-valued samples held in a complex array (exactly real model coefficients), odd and even grids
    xz = (nrng.standard_normal(N) + np.cos(0.9 * n)).astype(complex)
    for cls in C.CLASSES:
        for (n1, c) in ([(25, 2), (49, 2), (24, 3)] if tier == "quick" else [(25, 2), (25, 3), (49, 2), (24, 3), (27, 2), (32, 3)]):
            yield ("grid", {"cls": cls, "x": xz, "n1": n1, "c": c})
    # random and boundary configurations, at their own smallest admissible NFFT and at a larger one
    for i in range(42 if tier == "quick" else 600):
        cls = C.CLASSES[i % len(C.CLASSES)]
        cplx = bool((i // len(C.CLASSES)) % 2)
        xb = nrng.standard_normal(N) + (1j * nrng.standard_normal(N) if cplx else 0)
        cfg = C.random_cfg(nrng, cls, N, boundary=(i % 3 == 2))
        nmin = C.min_nfft(cls, N, cfg)
        yield ("grid", {"cls": cls, "x": xb, "n1": [nmin, nmin + 1, max(nmin, 33)][i % 3], "c": [2, 3][i % 2], "cfg": cfg,
                        "off": (i // len(C.CLASSES)) % 4})
    # the smallest admissible NFFT of each class against its multiples
    for cplx in (True, False):
        xb = nrng.standard_normal(N) + (1j * nrng.standard_normal(N) if cplx else 0)
        for cls in C.CLASSES:
            cfg = C.default_cfg(cls, N, cplx)
            if cls == "pcorrelogram":
                nmin = 2 * cfg["lag"] + 1
            elif cls == "pminvar":
                nmin = 2 * cfg["order"]
            elif cls in ("Periodogram",) or cls.startswith("MT"):
                nmin = N
            elif cls in ("pmusic", "pev"):
                nmin = cfg["order"] + 1
            elif cls == "pma":
                nmin = cfg["Q"] + 1
            elif cls == "parma":
                nmin = max(cfg["order"], cfg["Q"]) + 1
            else:
                nmin = cfg["order"] + 1
            for c in ((2, 3) if tier == "thorough" else (2,)):
                yield ("grid", {"cls": cls, "x": xb, "n1": nmin, "c": c})
                yield ("grid", {"cls": cls, "x": xb, "n1": nmin + 1, "c": c})
    for i in range(20 if tier == "quick" else 300):
        L = int(nrng.integers(1, 20))
        nfft = int(nrng.integers(max(1, L - 3), 40))
        x = nrng.standard_normal(L) + 1j * nrng.standard_normal(L)
        yield ("dft", {"x": x, "nfft": nfft})

    # ---- data lengths other than 24 (odd, tiny, long) at n1 in {nmin, nmin+1, N, N+1}, c in {2, 3}
    r0 = int(nrng.integers(0, 1 << 16))
    for iN, Nn in enumerate(SIZES):
        xs = {True: _data(nrng, Nn, True), False: _data(nrng, Nn, False)}
        for ic, cls in enumerate(C.CLASSES):
            v = iN + ic + r0
            cfg = cfg_for(cls, Nn, v)
            nmin = C.min_nfft(cls, Nn, cfg)
            lo = Nn if (cls == "Periodogram" or cls.startswith("MT")) else nmin
            cand = [(a, c) for a in sorted({nmin, nmin + 1, Nn, Nn + 1}) if a >= lo for c in (2, 3)]
            if quick:
                cand = [cand[v % len(cand)], cand[(v + 3) % len(cand)]]
            for t, (n1, c) in enumerate(cand):
                cplx = bool(((v // 8) + t) % 2) if quick else bool(nrng.integers(0, 2))
                q = {"cls": cls, "x": xs[cplx], "n1": n1, "c": c, "cfg": cfg, "off": (v // 2 + t) % 4}
                yield ("grid", q)
                if (quick and t == 0 and (iN + ic) % 4 == 0) or (not quick and t == (v % len(cand)) and Nn <= 101):
                    yield ("glue", {"cls": cls, "x": xs[cplx], "nfft": n1, "cfg": cfg})
                    yield ("glue", {"cls": cls, "x": xs[cplx], "nfft": n1 * c, "cfg": cfg})
    # ---- larger factors, powers of two, long grids (N = 24), and non-multiple pairs compared at the gcd bins
    xs = {True: _data(nrng, N, True), False: _data(nrng, N, False)}
    x300 = {True: _data(nrng, 300, True), False: _data(nrng, 300, False)}
    for ic, cls in enumerate(C.CLASSES):
        v = ic + r0
        big = BIG_PAIRS if not quick else [BIG_PAIRS[(v + 3 * t) % len(BIG_PAIRS)] for t in (0, 1, 2)]
        for t, (n1, c) in enumerate(big):
            cplx = bool((v // 3 + t) % 2)
            yield ("grid", {"cls": cls, "x": xs[cplx], "n1": n1, "c": c, "off": (v + t) % 4})
            if (not quick and n1 * c <= 2050 and t % 3 == v % 3) or (quick and t == 0 and n1 * c <= 1024):
                yield ("glue", {"cls": cls, "x": xs[cplx], "nfft": n1 * c})
        for t, (n1, n2) in enumerate(GCD_PAIRS if not quick else [GCD_PAIRS[v % 4], GCD_PAIRS[(v + 1 + (v // 4) % 3) % 4]]):
            cplx = bool((v // 2 + t) % 2)
            yield ("grid", {"cls": cls, "x": xs[cplx], "n1": n1, "n2": n2})
            yield ("grid", {"cls": cls, "x": xs[not cplx], "n1": n2, "n2": n1, "fs": FS_VALUES[(v + t) % 3]})
        if not quick:
            cfg = cfg_for(cls, 300, v)
            for t, (n1, c) in enumerate([(1024, 2), (512, 4), (300, 7)]):
                yield ("grid", {"cls": cls, "x": x300[bool((v + t) % 2)], "n1": n1, "c": c, "cfg": cfg})
    # ---- sampling frequency other than 1 (minimum variance: sampling / real(psi); arma2psd: rho / T; df = sampling / NFFT)
    for ic, cls in enumerate(C.CLASSES):
        v = ic + r0
        for jf, fs in enumerate(FS_VALUES):
            prs = BASE_PAIRS + [BIG_PAIRS[(v + jf) % len(BIG_PAIRS)]] if not quick else [BASE_PAIRS[(v + 2 * jf) % 5], BASE_PAIRS[(v + 2 * jf + 1 + (v // 5) % 4) % 5]]
            for t, (n1, c) in enumerate(prs):
                cplx = bool((v // 5 + jf + t) % 2)
                yield ("grid", {"cls": cls, "x": xs[cplx], "n1": n1, "c": c, "fs": fs, "off": (v // 3 + t) % 4})
                if t == 0 and (not quick or jf == v % 3):
                    yield ("glue", {"cls": cls, "x": xs[cplx], "nfft": n1 * c, "fs": fs})
    # ---- accepted input forms of the samples
    forms = ["int", "list", "float32", "complex64", "clist", "int32"]
    for ic, cls in enumerate(C.CLASSES):
        v = ic + r0
        for jf, form in enumerate(forms):
            xf = _as_form(nrng, N, form)
            n1, c = BASE_PAIRS[(v // 2 + jf) % 5]
            yield ("grid", {"cls": cls, "x": xf, "n1": n1, "c": c, "form": form})
    # ---- NFFT setter on a live object
    for ic, cls in enumerate(C.CLASSES):
        v = ic + r0
        prs = (BASE_PAIRS + [(24, 4), (127, 2)]) if not quick else [(24, 2), (25, 3)]
        for t, (n1, c) in enumerate(prs):
            cplx = bool((v // 2 + t) % 2)
            yield ("setter", {"cls": cls, "x": _data(nrng, N, cplx), "n1": n1, "c": c, "inttype": (v // 4 + t) % 3})
        Nn = SIZES[v % len(SIZES)]
        cfg = cfg_for(cls, Nn, v)
        n1 = max(C.min_nfft(cls, Nn, cfg), Nn if (cls == "Periodogram" or cls.startswith("MT")) else 0) + (v // 8) % 2
        yield ("setter", {"cls": cls, "x": _data(nrng, Nn, bool((v // 3) % 2)), "n1": n1, "c": 2 + (v // 5) % 2, "cfg": cfg,
                          "fs": ([1.0] + FS_VALUES)[(v // 2) % 4]})
    # ---- the other layouts of the estimate, matched by frequency value
    for ic, cls in enumerate(C.CLASSES):
        v = ic + r0
        combos = [(pr, cplx, side) for pr in SIDE_PAIRS for (cplx, side) in ((False, "twosided"), (False, "centerdc"), (True, "centerdc"))]
        if quick:
            combos = [combos[(v * 5 + 7 * t) % len(combos)] for t in range(5)]
        for t, ((n1, c), cplx, side) in enumerate(combos):
            yield ("sides", {"cls": cls, "x": _data(nrng, N, cplx), "n1": n1, "c": c, "side": side})
    # ---- multitaper: complex per-taper spectra, weights, eigenvalues; tapers handed in; default k
    mt = []
    for jm, meth in enumerate(("unity", "eigen", "adapt")):
        mt.append({"method": meth, "NW": 2.5, "k": 4, "n1": 24, "c": 3, "ev": True})
        mt.append({"method": meth, "NW": 2.5, "k": None, "n1": 24, "c": 3})
        mt.append({"method": meth, "NW": [2.0, 3.0, 4.0][(jm + r0) % 3], "k": None, "n1": 25, "c": 2})
        for t, (n1, c) in enumerate(BASE_PAIRS if not quick else [BASE_PAIRS[(jm + r0) % 5]]):
            mt.append({"method": meth, "NW": [1.5, 2.0, 2.5, 3.0, 4.0][(t + jm + r0) % 5], "k": 2 + (t + r0) % 2, "n1": n1, "c": c,
                       "ev": bool((t + jm) % 2)})
        if not quick:
            mt.append({"method": meth, "NW": 2.5, "k": 4, "n1": 1024, "c": 2})
            mt.append({"method": meth, "NW": 4.0, "k": None, "n1": 32, "c": 32, "ev": True})
    for t, q in enumerate(mt):
        q = dict(q)
        q["cls"] = "MT-" + q["method"]
        q["x"] = _data(nrng, N, bool((t + r0) % 2))
        yield ("mt", q)
    for t, Nn in enumerate(SIZES if not quick else [SIZES[r0 % 8], SIZES[(r0 + 3) % 8]]):
        NW = 1.5 if Nn < 12 else [2.0, 2.5, 3.0][(t + r0) % 3]
        meth = ("adapt", "eigen", "unity")[(t + r0 // 3) % 3]
        yield ("mt", {"cls": "MT-" + meth, "method": meth, "NW": NW, "k": None if t % 2 else int(2 * NW) - 1, "n1": Nn + t % 2,
                      "c": 2 + (t // 2) % 2, "x": _data(nrng, Nn, bool((t // 2 + r0) % 2)), "ev": bool((t // 4) % 2)})
    # ---- options of the estimators
    opts = []
    for cplx in (False, True):
        opts.append({"opt": "cross", "lag": 5, "window": "hamming", "cplx": cplx, "y": True})
        for jm, method in enumerate(("xcorr", "CORRELATION")):
            for jn, norm in enumerate(("unbiased", "biased")):
                opts.append({"opt": "CORR", "lag": 5, "window": ["hamming", "hann", "rectangular", "bartlett"][(2 * jm + jn + cplx) % 4],
                             "method": method, "norm": norm, "cplx": cplx, "y": bool((jm + jn + cplx + r0) % 2)})
        for cls in ("pmusic", "pev"):
            for crit in ("aic", "mdl"):
                opts.append({"opt": "subspace", "cls": cls, "order": 6, "criteria": crit, "cplx": cplx})
            for th in (1, 1.5, 3.0):
                opts.append({"opt": "subspace", "cls": cls, "order": 6, "threshold": th, "cplx": cplx})
        opts.append({"opt": "yule-norm", "cls": "pyule", "order": 4, "norm": "unbiased", "cplx": cplx})
        for crit in BURG_CRITERIA:
            opts.append({"opt": "burg-criteria", "cls": "pburg", "order": 8, "criteria": crit, "cplx": cplx})
        opts.append({"opt": "detrend", "cls": "Periodogram", "window": "hann", "cplx": cplx, "fullgrid": True})
        for det in (True, False):
            opts.append({"opt": "sper2d", "window": ["hamming", "hann"][int(det)], "detrend": det, "cplx": cplx, "fullgrid": True, "twod": True})
    for t, q0 in enumerate(opts):
        q0 = dict(q0)
        cplx = q0.pop("cplx")
        full = q0.pop("fullgrid", False)
        twod = q0.pop("twod", False)
        wants_y = q0.pop("y", False)
        prs = OPT_PAIRS[:2] if full else OPT_PAIRS
        if quick:
            prs = [prs[(t + r0) % len(prs)], prs[(t + r0 + 1 + (t // 4) % (len(prs) - 1)) % len(prs)]] if len(prs) > 2 else prs[(t + r0) % 2:][:1]
        for (n1, c) in prs:
            q = dict(q0)
            if twod:
                cols = 2 + (t + n1) % 3
                q["x"] = nrng.standard_normal((N, cols)) + (1j * nrng.standard_normal((N, cols)) if cplx else 0)
            else:
                q["x"] = _data(nrng, N, cplx)
            if wants_y:
                q["y"] = _data(nrng, N, cplx, tone=False) + 0.5 * np.asarray(q["x"])
            q["n1"], q["c"] = n1, c
            yield ("opt", q)
    # ---- (almost) noiseless line spectra, every class: per-bin comparison (peak bins, their neighbours, the floor)
    for ic, cls in enumerate(LINE_CLASSES):
        per = (24 if cls in ("pmusic", "pev") else 12) if quick else (48 if cls in ("pmusic", "pev") else 30)
        for t in range(per):
            yield ("line", gen_line(nrng, cls, t + ic + r0))
    # ---- histories of NFFT values on ONE object, from the smallest admissible NFFT of its class
    for ic, cls in enumerate(C.CLASSES):
        per = {"pcorrelogram": 12, "Periodogram": 6}.get(cls, 4) * (1 if quick else 5)
        for t in range(per):
            yield ("history", gen_history(nrng, cls, t + (ic + r0) % 24 * (0 if cls == "pcorrelogram" and quick else 1)))
