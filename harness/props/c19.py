"""C19  Multitaper estimates are weighted means of tapered periodograms."""
import numpy as np

import single

import proto
from common import gen_data, rel

TRUSTED_BASE = [
    "the Slepian tapers/eigenvalues are taken from the implementation's dpss (their shape is C18's business; the C eigen-solver "
    "is a parameter); numpy.fft is the DFT parameter",
    "float mode, rtol 1e-8 on eigenspectra and the class PSD; adaptive weights rtol 1e-6 (the iteration stops on a tolerance)",
]
PARTIAL = ["'the spectrum the iteration converged to': the theorem is about the weights being Thomson's formula at the spectrum "
           "the loop last evaluated (fuel 100 as in the code); convergence itself is not proved"]
ASSUMPTIONS = ["k >= 2 tapers for method='adapt' (the code's initial estimate averages the first two eigenspectra)"]
RULE = ("real/complex data (noise, tones, integer dtype, lists) of length 16..256 (1024 in thorough) x NW in {1.5..4} x k x "
        "NFFT >= N (even/odd) x method in {unity, eigen, adapt} x tapers computed vs supplied")


def _sp():
    import spectrum
    return spectrum


def _tapers(N, NW, k):
    from spectrum.mtm import dpss
    v, e = dpss(N, NW, k)
    return np.asarray(v), np.asarray(e)


def impl_pmtm(p):
    sp = _sp()
    x = np.asarray(p["x"])
    if p["supplied"]:
        v, e = _tapers(len(x), p["NW"], p["k"])
        Sk, w, ev = sp.pmtm(p["x"], e=e, v=v, NFFT=p["nfft"], method=p["method"], show=False)
    else:
        Sk, w, ev = sp.pmtm(p["x"], NW=p["NW"], k=p["k"], NFFT=p["nfft"], method=p["method"], show=False)
    Sk = np.asarray(Sk)
    P = sp.MultiTapering(p["x"], NW=p["NW"], k=p["k"], NFFT=p["nfft"], method=p["method"], scale_by_freq=False)
    psd = np.asarray(P.psd)
    mean = psd
    return [Sk[i, :] for i in range(Sk.shape[0])] + [np.asarray(w).ravel(), mean]


def model_pmtm(p):
    x = np.asarray(p["x"])
    v, e = _tapers(len(x), p["NW"], p["k"])
    k = v.shape[1]
    return ("F", proto.request("mtm", "F", [p["method"], p["nfft"]],
                               [x, e, [0.0005]] + [v[:, i] for i in range(k)]))


def post_pmtm(p, iv, mv):
    # the class folds real data (first half doubled); apply the same public rule to the model's two-sided mean
    x = np.asarray(p["x"])
    mean = mv[-1]
    if np.isrealobj(x):
        n = p["nfft"]
        L = n // 2 + 1 if n % 2 == 0 else (n + 1) // 2
        mean = 2 * mean[:L]
    return iv, list(mv[:-1]) + [mean]


def oracle_pmtm(p):
    sp = _sp()
    x = np.asarray(p["x"])
    N = len(x)
    nfft = p["nfft"]
    out = []
    v, e = _tapers(N, p["NW"], p["k"])
    k = v.shape[1]
    Sk, w, ev = sp.pmtm(p["x"], NW=p["NW"], k=p["k"], NFFT=nfft, method=p["method"], show=False)
    Sk, w, ev = np.asarray(Sk), np.asarray(w), np.asarray(ev)
    if Sk.shape != (k, nfft):
        return ["pmtm eigenspectra have shape %s, expected (%d, %d)" % (Sk.shape, k, nfft)]
    for i in range(k):
        ref = np.fft.fft(v[:, i] * x, nfft)
        if rel(Sk[i], ref) > 1e-9:
            out.append("eigenspectrum %d is not the NFFT-point DFT of taper*data (N=%d NFFT=%d %s): %.2e" % (
                i, N, nfft, "complex" if np.iscomplexobj(x) else "real", rel(Sk[i], ref)))
            break
    if rel(ev, e) > 1e-12:
        out.append("returned eigenvalues differ from the taper eigenvalues")
    if p["method"] == "unity":
        if w.shape != (k, 1) or np.any(w != 1):
            out.append("unity weights are not all 1")
    elif p["method"] == "eigen":
        exp = np.array([e[i] / (i + 1) for i in range(k)]).reshape(k, 1)
        if w.shape != exp.shape or rel(w, exp) > 1e-12:
            out.append("eigen weights are not eigenvalue/(index+1)")
    else:
        if w.shape != (nfft, k):
            out.append("adaptive weights have shape %s, expected (%d, %d)" % (w.shape, nfft, k))
        elif np.iscomplexobj(w) or not np.all(np.isfinite(w)):
            out.append("adaptive weights are not real and finite (%s data)" % ("complex" if np.iscomplexobj(x) else "real"))
        else:
            if np.any(w < -1e-12) or np.any(w > 1.0 / e[None, :] * (1 + 1e-9)):
                out.append("adaptive weights leave [0, 1/eigenvalue]")
            # Thomson's formula evaluated at ONE spectrum per frequency: w_k = lam_k b_k^2 with b_k = S/(lam_k S + sig2 (1-lam_k)).
            # Recover S from taper 0 and require that the same S reproduces every other taper's weight (no convergence assumed;
            # the iteration stops on a tolerance, so "the spectrum it converged to" is whatever it last evaluated).
            sig2 = float(np.sum(np.abs(x) ** 2) / N)
            a = sig2 * (1 - e)
            b0 = np.sqrt(np.clip(w[:, 0] / e[0], 0, None))
            den = 1 - b0 * e[0]
            ok = den > 1e-9
            Srec = np.where(ok, b0 * a[0] / np.where(ok, den, 1), np.nan)
            wf = (Srec[:, None] / (Srec[:, None] * e[None, :] + a[None, :])) ** 2 * e[None, :]
            dev = np.abs(wf - w)[ok]
            if dev.size and np.max(dev) > 1e-6 * max(1.0, float(np.max(np.abs(w)))):
                out.append("adaptive weights are not Thomson's formula at a single spectrum per frequency: max dev %.3e" % np.max(dev))
    # class: mean over tapers of weight*|eigenspectrum|^2, folded for real data, real and non-negative
    P = sp.MultiTapering(p["x"], NW=p["NW"], k=p["k"], NFFT=nfft, method=p["method"], scale_by_freq=False)
    psd = np.asarray(P.psd)
    SkA = np.abs(Sk) ** 2
    if np.iscomplexobj(psd) or not np.all(np.isfinite(psd)) or np.any(psd < 0):
        out.append("MultiTapering PSD is not real, finite and non-negative (%s data, method %s)" % (
            "complex" if np.iscomplexobj(x) else "real", p["method"]))
    else:
        if p["method"] == "adapt" and not np.iscomplexobj(w):
            mean = np.mean(SkA.T * w, axis=1)
        elif p["method"] != "adapt":
            mean = np.mean(SkA * w, axis=0)
        else:
            mean = None
        if mean is not None:
            if np.isrealobj(x):
                L = nfft // 2 + 1 if nfft % 2 == 0 else (nfft + 1) // 2
                mean = 2 * mean[:L]
            if psd.shape != mean.shape or rel(psd, mean) > 1e-9:
                out.append("MultiTapering PSD is not the mean over tapers of weight*|eigenspectrum|^2 (folded for real data)")
    # supplying precomputed tapers gives the same result
    Sk2, w2, ev2 = sp.pmtm(p["x"], e=e, v=v, NFFT=nfft, method=p["method"], show=False)
    if rel(np.asarray(Sk2), Sk) > 1e-12 or rel(np.asarray(w2, dtype=complex), w.astype(complex)) > 1e-12:
        out.append("pmtm with supplied tapers differs from pmtm computing them")
    return out


def oracle_reuse(p):
    """the class returns the mean over the tapers of ITS CURRENT configuration: re-using an instance after reassigning NW, k or
    method must give what a fresh instance with those values gives"""
    sp = _sp()
    x = p["x"]
    out = []
    o = sp.MultiTapering(x, NW=p["NW"], k=p["k"], NFFT=p["nfft"], method=p["method"], scale_by_freq=False)
    o()
    for (attr, val) in p["changes"]:
        setattr(o, attr, val)
        o()
        cur = {a: getattr(o, a) for a in ("NW", "k", "method")}
        f = sp.MultiTapering(x, NW=cur["NW"], k=cur["k"], NFFT=p["nfft"], method=cur["method"], scale_by_freq=False)
        a1, a2 = np.asarray(o.psd), np.asarray(f.psd)
        if a1.shape != a2.shape or rel(a1, a2) > 1e-9:
            out.append("MultiTapering instance re-used after %s = %r differs from a fresh instance with the same configuration" % (attr, val))
            break
    return out


def _key(p):
    x = np.asarray(p["x"])
    return "%d|%s|%s|%s|%s|%s|%d" % (len(x), p["NW"], p["k"], p["nfft"], p["method"], np.iscomplexobj(x), hash(x.tobytes()) & 0xFFFFFF)


KINDS = {
    "reuse": {"oracle": oracle_reuse, "key": lambda p: "reuse|%s|%s" % (p["changes"], _key(p)), "tags": lambda p: ["reuse"]},
    "pmtm": {"impl": impl_pmtm, "model": model_pmtm, "oracle": oracle_pmtm, "post": post_pmtm, "rtol": 1e-6, "atol": 1e-12,
             "key": _key,
             "tags": lambda p: ["complex" if np.iscomplexobj(p["x"]) else "real", "method:" + p["method"],
                                "nfft:" + ("odd" if p["nfft"] % 2 else "even"), "supplied" if p["supplied"] else "computed",
                                "data:" + p["dkind"]]},
}


KINDS["single"] = single.kind("C19")

def gen(rng, nrng, tier):
    yield from single.gen("C19", nrng, tier)
    for i in range(6 if tier == "quick" else 60):
        cplx = bool(i % 2)
        N = int(nrng.integers(32, 100))
        x, dk = gen_data(nrng, N, cplx, kind="noise")
        changes = [[("NW", 4.0), ("k", 3)], [("k", 3), ("NW", 3.0), ("method", "eigen")], [("method", "unity"), ("k", 2)]][i % 3]
        yield ("reuse", {"x": np.asarray(x), "NW": 2.5, "k": 4, "nfft": 2 * N, "method": ["adapt", "unity", "eigen"][i % 3], "changes": changes})
    # wide bands: the leading concentration ratios are 1 to rounding (tied / not monotone as floats); tapers supplied by the
    # caller must be used in the caller's order
    for i in range(9 if tier == "quick" else 90):
        cplx = bool(i % 2)
        N = [16, 24, 40, 64][i % 4]
        NW = [6.0, 7.5, 8.0, 7.0][i % 4] if N > 16 else 6.0
        x, dk = gen_data(nrng, N, cplx, kind="noise")
        yield ("pmtm", {"x": x, "NW": NW, "k": [int(2 * NW) - 1, 6, None][i % 3], "nfft": [N, 2 * N, N + 3][i % 3],
                        "method": ["unity", "eigen", "adapt"][i % 3], "supplied": True, "dkind": dk})
    n = 60 if tier == "quick" else 800
    methods = ["unity", "eigen", "adapt"]
    kinds = ["noise", "tone", "intdtype", "list", "dyn"]
    for i in range(n):
        cplx = bool(nrng.integers(0, 2))
        N = int(nrng.integers(16, 129 if tier == "quick" else 513))
        kind = kinds[i % len(kinds)]
        x, dk = gen_data(nrng, N, cplx, kind=kind)
        if dk == "dyn":
            x = np.asarray(x) * 2.0 ** int(nrng.integers(-10, 11))
        NW = [1.5, 2.0, 2.5, 3.0, 4.0][i % 5] if i % 4 else [1.25, 2.25, 3.25, 2.75, 3.5, 1.75][(i // 4) % 6]
        kmax = int(2 * NW)
        k = [None, kmax, max(2, kmax - 1), 2][i % 4]
        if i % 9 == 4 and methods[i % 3] != "adapt":
            k = 1            # a single taper
        nfft = [N, N + 1, 2 * N, 2 * N + 1, N + 7][i % 5]
        yield ("pmtm", {"x": x if dk != "list" else [complex(t) if cplx else float(t) for t in x], "NW": NW, "k": k,
                        "nfft": nfft, "method": methods[i % 3], "supplied": bool(i % 2), "dkind": dk})
