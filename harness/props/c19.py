"""C19  Multitaper estimates are weighted means of tapered periodograms."""
import numpy as np

import single

import proto
from common import gen_data, rel

TRUSTED_BASE = [
    "the Slepian tapers/eigenvalues are taken from the implementation's dpss (their shape is C18's business; the C eigen-solver "
    "is a parameter); numpy.fft is the DFT parameter",
    "float mode, model rtol 1e-6 / oracle 1e-9 (max-norm) on eigenspectra and the class PSD, plus a per-bin relative 1e-9 check of "
    "the class PSD on bins above 1e-12*max; adaptive weights: 1e-9 against Thomson's formula at the spectrum recovered from the "
    "least concentrated taper, 1e-6 against the oracle's own numpy iteration (the iteration stops on a tolerance)",
    "records of 1000 and 1024 samples are checked by the oracle only (numpy reference of the iteration); the Lean model is "
    "executed up to 777 samples",
]
PARTIAL = ["'the spectrum the iteration converged to': the theorem is about the weights being Thomson's formula at the spectrum "
           "the loop last evaluated (fuel 100 as in the code); convergence itself is not proved.  The oracle checks the "
           "acceptance rule sum_f |T(S) - S| <= 0.0005 * mean power at the recovered spectrum whenever its own iteration needs "
           "fewer than 100 passes, and the cap of exactly 100 passes on a pure tone of 1024 samples",
           "wide bands (NW >= 6, leading eigenvalue 1 to rounding, possibly 1 + 4e-16) are run on data whose spectrum stays above "
           "1e-6 of the mean power at every frequency (noise, noisy tone, trend, integers); on a constant record the bound "
           "[0, 1/eigenvalue] is exceeded (see the PENDING-FINDING in gen)"]
ASSUMPTIONS = ["k >= 2 tapers for method='adapt' (the code's initial estimate averages the first two eigenspectra)",
               "MultiTapering.NW/k/method/e/v are plain attributes: assigning them does not invalidate a cached psd; the "
               "'reuse' oracle re-runs the instance explicitly and nothing is asserted on the lazy read"]
RULE = ("real/complex data (noise, tones, constant, trend, integer-valued, integer dtype, complex with zero imaginary part, "
        "lists, wide dynamic range) of length 16..128 (512 in thorough; 600 in the defaults family; 777, 1000, 1024 in thorough) "
        "x NW in {0.5, 0.75, 1 .. 4, 6 .. 8} (float and int) x k in 1..2NW and above 2NW x NFFT >= N (even/odd) and the default "
        "NFFT x method in {unity, eigen, adapt} and the default method x tapers computed vs supplied (function and class)")


def _sp():
    import spectrum
    return spectrum


def _tapers(N, NW, k):
    from spectrum.mtm import dpss
    v, e = dpss(N, NW, k)
    return np.asarray(v), np.asarray(e)


def impl_pmtm(p):
    sp = _sp()
    x = np.asarray(p["x"])
    if p["supplied"]:
        v, e = _tapers(len(x), p["NW"], p["k"])
        Sk, w, ev = sp.pmtm(p["x"], e=e, v=v, NFFT=p["nfft"], method=p["method"], show=False)
        P = sp.MultiTapering(p["x"], e=e, v=v, NFFT=p["nfft"], method=p["method"], scale_by_freq=False)
    else:
        Sk, w, ev = sp.pmtm(p["x"], NW=p["NW"], k=p["k"], NFFT=p["nfft"], method=p["method"], show=False)
        P = sp.MultiTapering(p["x"], NW=p["NW"], k=p["k"], NFFT=p["nfft"], method=p["method"], scale_by_freq=False)
    Sk = np.asarray(Sk)
    psd = np.asarray(P.psd)
    mean = psd
    return [Sk[i, :] for i in range(Sk.shape[0])] + [np.asarray(w).ravel(), mean]


def model_pmtm(p):
    x = np.asarray(p["x"])
    v, e = _tapers(len(x), p["NW"], p["k"])
    k = v.shape[1]
    return ("F", proto.request("mtm", "F", [p["method"], p["nfft"]],
                               [x, e, [0.0005]] + [v[:, i] for i in range(k)]))


def post_pmtm(p, iv, mv):
    # the class folds real data (first half doubled); apply the same public rule to the model's two-sided mean
    x = np.asarray(p["x"])
    mean = mv[-1]
    if np.isrealobj(x):
        n = p["nfft"]
        L = n // 2 + 1 if n % 2 == 0 else (n + 1) // 2
        mean = 2 * mean[:L]
    return iv, list(mv[:-1]) + [mean]


def _snapshot(a):
    """a bit-exact record of a caller-owned argument (array: dtype, shape, bytes; list: the Python values and their types)"""
    if isinstance(a, np.ndarray):
        return ("a", a.dtype.str, a.shape, a.tobytes())
    return ("l", [(type(t).__name__, repr(t)) for t in a])


def _thomson_ref(SkA, e, sig2, nfft, cap=100):
    """Thomson's adaptive weighting written out in numpy (Percival & Walden 368-370): start from the mean of the first two
    eigenspectra; weights w_k = lam_k (S / (lam_k S + sig2 (1 - lam_k)))^2; new S = sum_k w_k S_k / sum_k w_k; stop when the
    summed change of S is at most 0.0005 * sig2 or after `cap` passes.  SkA is (k, nfft).  Returns (passes, weights (nfft, k))."""
    S = (SkA[0] + SkA[1]) / 2
    Sold = np.zeros(nfft)
    a = sig2 * (1 - np.minimum(e, 1.0))     # a concentration ratio of 1 + a few ulp counts as 1 (the noise term is never negative)
    w = np.ones((1, nfft)) * e[:, None]
    n = 0
    while np.sum(np.abs(S - Sold)) / nfft > 0.0005 * sig2 / float(nfft) and n < cap:
        n += 1
        b = S[None, :] / (e[:, None] * S[None, :] + a[:, None])
        w = e[:, None] * b ** 2
        Sold, S = S, np.sum(w * SkA, axis=0) / np.sum(w, axis=0)
    return n, w.T


def oracle_pmtm(p):
    sp = _sp()
    x = np.asarray(p["x"])
    N = len(x)
    nfft = p["nfft"]
    out = []
    v, e = _tapers(N, p["NW"], p["k"])
    k = v.shape[1]
    snap = (_snapshot(p["x"]), _snapshot(v), _snapshot(e))
    Sk, w, ev = sp.pmtm(p["x"], NW=p["NW"], k=p["k"], NFFT=nfft, method=p["method"], show=False)
    Sk, w, ev = np.asarray(Sk), np.asarray(w), np.asarray(ev)
    if Sk.shape != (k, nfft):
        return ["pmtm eigenspectra have shape %s, expected (%d, %d)" % (Sk.shape, k, nfft)]
    for i in range(k):
        ref = np.fft.fft(v[:, i] * x, nfft)
        if rel(Sk[i], ref) > 1e-9:
            out.append("eigenspectrum %d is not the NFFT-point DFT of taper*data (N=%d NFFT=%d %s): %.2e" % (
                i, N, nfft, "complex" if np.iscomplexobj(x) else "real", rel(Sk[i], ref)))
            break
    if rel(ev, e) > 1e-12:
        out.append("returned eigenvalues differ from the taper eigenvalues")
    if p["method"] == "unity":
        if w.shape != (k, 1) or np.any(w != 1):
            out.append("unity weights are not all 1")
    elif p["method"] == "eigen":
        exp = np.array([e[i] / (i + 1) for i in range(k)]).reshape(k, 1)
        if w.shape != exp.shape or rel(w, exp) > 1e-12:
            out.append("eigen weights are not eigenvalue/(index+1)")
    else:
        if w.shape != (nfft, k):
            out.append("adaptive weights have shape %s, expected (%d, %d)" % (w.shape, nfft, k))
        elif np.iscomplexobj(w) or not np.all(np.isfinite(w)):
            out.append("adaptive weights are not real and finite (%s data)" % ("complex" if np.iscomplexobj(x) else "real"))
        else:
            if np.any(w < -1e-12) or np.any(w > 1.0 / e[None, :] * (1 + 1e-9)):
                out.append("adaptive weights leave [0, 1/eigenvalue]")
            # Thomson's formula evaluated at ONE spectrum per frequency: w_k = lam_k b_k^2 with b_k = S/(lam_k S + sig2 (1-lam_k)).
            # Recover S from taper 0 and require that the same S reproduces every other taper's weight (no convergence assumed;
            # the iteration stops on a tolerance, so "the spectrum it converged to" is whatever it last evaluated).
            sig2 = float(np.sum(np.abs(x) ** 2) / N)
            a = sig2 * (1 - np.minimum(e, 1.0))
            b0 = np.sqrt(np.clip(w[:, 0] / e[0], 0, None))
            den = 1 - b0 * e[0]
            ok = den > 1e-9
            Srec = np.where(ok, b0 * a[0] / np.where(ok, den, 1), np.nan)
            wf = (Srec[:, None] / (Srec[:, None] * e[None, :] + a[None, :])) ** 2 * e[None, :]
            dev = np.abs(wf - w)[ok]
            if dev.size and np.max(dev) > 1e-6 * max(1.0, float(np.max(np.abs(w)))):
                out.append("adaptive weights are not Thomson's formula at a single spectrum per frequency: max dev %.3e" % np.max(dev))
            # the same, with S recovered from the LEAST concentrated taper (largest 1 - lambda): b_j = S/(lam_j S + a_j) gives
            # S = b_j a_j / (1 - b_j lam_j) and 1 - b_j lam_j = a_j/(lam_j S + a_j) >= (1 - lam_j)/(lam_j N + 1 - lam_j), because
            # every eigenspectrum (hence S) is at most N * sig2 (Cauchy-Schwarz, unit-energy tapers): the recovery is active at
            # EVERY frequency as soon as lam_j <= 0.999, however close to 1 the leading eigenvalues are
            j = int(np.argmin(e))
            bj = np.sqrt(np.clip(w[:, j] / e[j], 0, None))
            denj = 1 - bj * e[j]
            okj = denj > 1e-9
            if e[j] <= 0.999 and not np.all(okj):
                out.append("the weight of the least concentrated taper (eigenvalue %.6f) reaches 1/eigenvalue: no finite "
                           "spectrum gives it" % e[j])
            Sj = np.where(okj, bj * a[j] / np.where(okj, denj, 1), np.nan)
            wfj = (Sj[:, None] / (Sj[:, None] * e[None, :] + a[None, :])) ** 2 * e[None, :]
            devj = np.abs(wfj - w)[okj]
            if devj.size and np.max(devj) > 1e-9 * max(1.0, float(np.max(np.abs(w)))):
                out.append("adaptive weights are not Thomson's formula at a single spectrum per frequency (spectrum recovered "
                           "from taper %d of %d, N=%d NW=%s): max dev %.3e" % (j, k, N, p["NW"], np.max(devj)))
            # "the spectrum the iteration converged to": the numpy iteration above, from the eigenspectra as numpy computes them
            SkR = np.abs(np.array([np.fft.fft(v[:, i] * x, nfft) for i in range(k)])) ** 2
            npass, wref = _thomson_ref(SkR, e, sig2, nfft)
            if np.all(np.isfinite(wref)) and np.max(np.abs(wref - w)) > 1e-6 * max(1.0, float(np.max(np.abs(wref)))):
                out.append("adaptive weights differ from Thomson's iteration (numpy reference, %d passes, N=%d NFFT=%d): %.3e" % (
                    npass, N, nfft, np.max(np.abs(wref - w))))
            if "expect_passes" in p and not str(p.get("variant", "")).startswith("degen") and npass != p["expect_passes"]:
                out.append("harness: the reference iteration takes %d passes on this record, expected %d" % (npass, p["expect_passes"]))
            if npass < 100 and np.all(okj):
                # accepted before the cap: the returned weights sit at a spectrum S with sum_f |T(S) - S| <= 0.0005 sig2, T(S) the
                # weighted mean of the eigenspectra under the weights at S.  S comes from the weights with relative error about
                # eps * (1 + lam_j S / a_j); that error is added to the allowance.
                Snew = np.sum(w * (np.abs(Sk) ** 2).T, axis=1) / np.sum(w, axis=1)
                slack = float(np.sum(Sj * 64 * np.finfo(float).eps * (1 + e[j] * Sj / a[j])))
                if np.sum(np.abs(Snew - Sj)) > 0.0005 * sig2 * (1 + 1e-9) + slack:
                    out.append("the spectrum behind the adaptive weights is not a fixed point to the acceptance tolerance: "
                               "sum|T(S)-S| = %.3e > 0.0005*sig2 = %.3e (reference iteration stops after %d passes)" % (
                                   np.sum(np.abs(Snew - Sj)), 0.0005 * sig2, npass))
    # class: mean over tapers of weight*|eigenspectrum|^2, folded for real data, real and non-negative
    P = sp.MultiTapering(p["x"], NW=p["NW"], k=p["k"], NFFT=nfft, method=p["method"], scale_by_freq=False)
    psd = np.asarray(P.psd)
    SkA = np.abs(Sk) ** 2
    if np.iscomplexobj(psd) or not np.all(np.isfinite(psd)) or np.any(psd < 0):
        out.append("MultiTapering PSD is not real, finite and non-negative (%s data, method %s)" % (
            "complex" if np.iscomplexobj(x) else "real", p["method"]))
    else:
        if p["method"] == "adapt" and not np.iscomplexobj(w):
            mean = np.mean(SkA.T * w, axis=1)
        elif p["method"] != "adapt":
            mean = np.mean(SkA * w, axis=0)
        else:
            mean = None
        if mean is not None:
            if np.isrealobj(x):
                L = nfft // 2 + 1 if nfft % 2 == 0 else (nfft + 1) // 2
                mean = 2 * mean[:L]
            if psd.shape != mean.shape or rel(psd, mean) > 1e-9:
                out.append("MultiTapering PSD is not the mean over tapers of weight*|eigenspectrum|^2 (folded for real data)")
            else:
                # bin by bin (the max-norm check above says nothing about bins far below the peak)
                big = mean > 1e-12 * np.max(mean)
                if np.any(big) and np.max(np.abs(psd[big] - mean[big]) / mean[big]) > 1e-9:
                    out.append("MultiTapering PSD differs bin-by-bin from the mean over tapers of weight*|eigenspectrum|^2: "
                               "max relative deviation %.2e" % np.max(np.abs(psd[big] - mean[big]) / mean[big]))
    # supplying precomputed tapers gives the same result
    Sk2, w2, ev2 = sp.pmtm(p["x"], e=e, v=v, NFFT=nfft, method=p["method"], show=False)
    if rel(np.asarray(Sk2), Sk) > 1e-12 or rel(np.asarray(w2, dtype=complex), w.astype(complex)) > 1e-12:
        out.append("pmtm with supplied tapers differs from pmtm computing them")
    if np.asarray(ev2).shape != e.shape or rel(ev2, e) > 1e-12:
        out.append("pmtm with supplied tapers does not return the supplied eigenvalues")
    if not np.iscomplexobj(psd) and np.all(np.isfinite(psd)):
        for label, kw in (("e, v", {}), ("NW, k, e, v", {"NW": p["NW"], "k": p["k"]})):
            P2 = sp.MultiTapering(p["x"], e=e, v=v, NFFT=nfft, method=p["method"], scale_by_freq=False, **kw)
            psd2 = np.asarray(P2.psd)
            if psd2.shape != psd.shape or rel(psd2, psd) > 1e-12:
                out.append("MultiTapering(%s) with supplied tapers differs from the instance computing them (method %s)" % (
                    label, p["method"]))
                break
    if (_snapshot(p["x"]), _snapshot(v), _snapshot(e)) != snap:
        out.append("pmtm / MultiTapering modified the caller's data, tapers or eigenvalues")
    return out


def oracle_defaults(p):
    """NFFT and method left to their defaults: pmtm pads to max(256, next power of two >= N) and weights adaptively; the class
    keeps NFFT = N and weights adaptively"""
    sp = _sp()
    x = np.asarray(p["x"])
    N = len(x)
    NW, k = p["NW"], p["k"]
    out = []
    v, e = _tapers(N, NW, k)
    nfft = max(256, 2 ** int(np.ceil(np.log2(N))))
    Sk, w, ev = sp.pmtm(p["x"], NW=NW, k=k)
    Sk, w = np.asarray(Sk), np.asarray(w)
    if Sk.shape != (k, nfft):
        return ["pmtm without NFFT returns eigenspectra of shape %s, expected (%d, %d) for N=%d" % (Sk.shape, k, nfft, N)]
    for i in range(k):
        if rel(Sk[i], np.fft.fft(v[:, i] * x, nfft)) > 1e-9:
            out.append("pmtm without NFFT: eigenspectrum %d is not the %d-point DFT of taper*data (N=%d)" % (i, nfft, N))
            break
    if w.shape != (nfft, k):
        out.append("pmtm without method: weights of shape %s, expected the adaptive (%d, %d)" % (w.shape, nfft, k))
    else:
        Ska, wa, eva = sp.pmtm(p["x"], NW=NW, k=k, NFFT=nfft, method="adapt")
        if rel(Sk, np.asarray(Ska)) > 1e-12 or rel(w, np.asarray(wa)) > 1e-12:
            out.append("pmtm without NFFT/method differs from NFFT=%d, method='adapt' (N=%d)" % (nfft, N))
        sig2 = float(np.sum(np.abs(x) ** 2) / N)
        npass, wref = _thomson_ref(np.abs(np.array([np.fft.fft(v[:, i] * x, nfft) for i in range(k)])) ** 2, e, sig2, nfft)
        if np.max(np.abs(wref - w)) > 1e-6 * max(1.0, float(np.max(np.abs(wref)))):
            out.append("pmtm without method: weights are not Thomson's adaptive weights (N=%d): %.3e" % (N, np.max(np.abs(wref - w))))
    if rel(ev, e) > 1e-12:
        out.append("pmtm without NFFT/method: returned eigenvalues differ from the taper eigenvalues")
    # the class: positional NW, k; NFFT defaults to the data length, method to 'adapt'
    P = sp.MultiTapering(p["x"], NW, k)
    Q = sp.MultiTapering(p["x"], NW=NW, k=k, NFFT=N, method="adapt")
    a1, a2 = np.asarray(P.psd), np.asarray(Q.psd)
    if P.NFFT != N:
        out.append("MultiTapering without NFFT uses NFFT=%r, expected the data length %d" % (P.NFFT, N))
    if a1.shape != a2.shape or rel(a1, a2) > 1e-12:
        out.append("MultiTapering(x, NW, k) differs from NFFT=N, method='adapt' (N=%d)" % N)
    # and against the formula, unscaled
    P = sp.MultiTapering(p["x"], NW, k, scale_by_freq=False)
    psd = np.asarray(P.psd)
    SkN, wN, _ = sp.pmtm(p["x"], NW=NW, k=k, NFFT=N, method="adapt")
    mean = np.mean((np.abs(np.asarray(SkN)) ** 2).T * np.asarray(wN), axis=1)
    if np.isrealobj(x):
        mean = 2 * mean[:(N // 2 + 1 if N % 2 == 0 else (N + 1) // 2)]
    if psd.shape != mean.shape or rel(psd, mean) > 1e-9:
        out.append("MultiTapering(x, NW, k, scale_by_freq=False) is not the adaptive weighted mean at NFFT=N (N=%d)" % N)
    return out


def oracle_reuse(p):
    """the class returns the mean over the tapers of ITS CURRENT configuration: re-using an instance after reassigning NW, k or
    method must give what a fresh instance with those values gives"""
    sp = _sp()
    x = p["x"]
    out = []
    o = sp.MultiTapering(x, NW=p["NW"], k=p["k"], NFFT=p["nfft"], method=p["method"], scale_by_freq=False)
    o()
    for (attr, val) in p["changes"]:
        setattr(o, attr, val)
        o()
        cur = {a: getattr(o, a) for a in ("NW", "k", "method")}
        f = sp.MultiTapering(x, NW=cur["NW"], k=cur["k"], NFFT=p["nfft"], method=cur["method"], scale_by_freq=False)
        a1, a2 = np.asarray(o.psd), np.asarray(f.psd)
        if a1.shape != a2.shape or rel(a1, a2) > 1e-9:
            out.append("MultiTapering instance re-used after %s = %r differs from a fresh instance with the same configuration" % (attr, val))
            break
    return out


def _key(p):
    x = np.asarray(p["x"])
    return "%d|%s|%s|%s|%s|%s|%d" % (len(x), p["NW"], p["k"], p.get("nfft"), p.get("method"), np.iscomplexobj(x),
                                     hash(x.tobytes()) & 0xFFFFFF)


def _tags(p):
    x = np.asarray(p["x"])
    t = ["complex" if np.iscomplexobj(x) else "real", "method:" + p["method"],
         "nfft:" + ("odd" if p["nfft"] % 2 else "even"), "supplied" if p["supplied"] else "computed", "data:" + p["dkind"],
         "len:" + ("16" if len(x) == 16 else "<=128" if len(x) <= 128 else "<=512" if len(x) <= 512 else ">512")]
    NW, k = p["NW"], p["k"]
    if NW <= 1:
        t.append("NW<=1")
    if NW >= 6:
        t.append("NW>=6")
    if isinstance(NW, int):
        t.append("NW:int")
    if k is not None and k > 2 * NW:
        t.append("k>2NW")
    if k == 1:
        t.append("k=1")
    if "expect_passes" in p:
        t.append("cap:100 passes")
    return t


KINDS = {
    "reuse": {"oracle": oracle_reuse, "key": lambda p: "reuse|%s|%s" % (p["changes"], _key(p)), "tags": lambda p: ["reuse"]},
    "pmtm": {"impl": impl_pmtm, "model": model_pmtm, "oracle": oracle_pmtm, "post": post_pmtm, "rtol": 1e-6, "atol": 1e-12,
             "key": _key, "tags": _tags},
    # long records: the statement evaluated by the oracle (numpy reference of the iteration included); no model run
    "pmtm_long": {"oracle": oracle_pmtm, "key": lambda p: "long|" + _key(p), "tags": _tags},
    "defaults": {"oracle": oracle_defaults, "key": lambda p: "defaults|" + _key(p),
                 "tags": lambda p: ["defaults", "complex" if np.iscomplexobj(p["x"]) else "real"]},
}


KINDS["single"] = single.kind("C19")

# (N, NW, k, NFFT): more tapers than 2NW (small eigenvalues, large 1/eigenvalue), NW <= 1, integer-typed NW, 16 samples with 8 tapers
GRID = [(64, 2.5, 7, 64), (64, 2.0, 6, 65), (48, 3, 9, 97), (32, 1.0, None, 32), (32, 1, 2, 33), (32, 0.75, None, 64),
        (33, 0.5, 1, 40), (16, 4.0, 8, 16)]
DEFAULT_N = [16, 100, 256, 257, 300, 600]


def _inp(x, dk, cplx):
    return x if dk != "list" else [complex(t) if cplx else float(t) for t in x]


def gen(rng, nrng, tier):
    yield from single.gen("C19", nrng, tier)
    thorough = tier != "quick"
    for i in range(6 if tier == "quick" else 60):
        cplx = bool(i % 2)
        N = int(nrng.integers(32, 100))
        x, dk = gen_data(nrng, N, cplx, kind="noise")
        changes = [[("NW", 4.0), ("k", 3)], [("k", 3), ("NW", 3.0), ("method", "eigen")], [("method", "unity"), ("k", 2)]][i % 3]
        yield ("reuse", {"x": np.asarray(x), "NW": 2.5, "k": 4, "nfft": 2 * N, "method": ["adapt", "unity", "eigen"][i % 3], "changes": changes})
    # wide bands: the leading concentration ratios are 1 to rounding (tied / not monotone as floats, up to 1 + 4e-16); tapers
    # supplied by the caller must be used in the caller's order.  Data whose spectrum stays well above 1e-6 of the mean power
    # at every frequency (see the PENDING-FINDING below for a constant record)
    wkinds = ["noise", "tone", "trend", "int", "czero"]
    for i in range(9 if tier == "quick" else 90):
        cplx = bool(i % 2)
        N = [16, 24, 40, 64][i % 4]
        NW = [6.0, 7.5, 8.0, 7.0][i % 4] if N > 16 else 6.0
        x, dk = gen_data(nrng, N, cplx, kind=wkinds[(i // 2) % 5] if i >= 4 else "noise")
        yield ("pmtm", {"x": x, "NW": NW, "k": [int(2 * NW) - 1, 6, None][i % 3], "nfft": [N, 2 * N, N + 3][i % 3],
                        "method": ["unity", "eigen", "adapt"][i % 3], "supplied": True, "dkind": dk})
    # NW >= 7 under adaptive weighting: bounds [0, 1/eigenvalue] with eigenvalues 1 to rounding (1 + 4e-16 occurs)
    for i in range(10 if tier == "quick" else 40):
        cplx = bool((i // 2) % 2)
        N, NW = [(64, 7.0), (128, 8.0), (40, 7.5), (64, 8.0), (100, 7.0)][i % 5]
        x, dk = gen_data(nrng, N, cplx, kind=wkinds[(i + i // 5) % 5])
        yield ("pmtm", {"x": x, "NW": NW, "k": [None, int(2 * NW) - 1, int(2 * NW)][(i // 5) % 3], "nfft": [N, 2 * N + 1, N + 4][i % 3],
                        "method": "adapt", "supplied": bool(i % 2), "dkind": dk})
    if True:  # formerly PENDING-FINDING (fixed in the library, D30): constant record, NW=7: dpss gives eigenvalue 1+4.4e-16, adaptive weights reached 8.7 > 1/eigenvalue
        for cplx in (False, True):
            yield ("pmtm", {"x": np.full(64, 3.0) + (2j if cplx else 0), "NW": 7.0, "k": None, "nfft": 128, "method": "adapt",
                            "supplied": False, "dkind": "const"})
        yield ("pmtm", {"x": np.full(128, 1.0), "NW": 8.0, "k": 14, "nfft": 256, "method": "adapt", "supplied": False, "dkind": "const"})
    # k > 2NW, NW <= 1, integer NW, N = 16 with 8 tapers
    gkinds = ["noise", "tone", "const", "trend", "int", "czero", "intdtype", "list", "dyn"]
    for r in range(2 if tier == "quick" else 6):
        for g, (N, NW, k, nfft) in enumerate(GRID):
            for mi, m in enumerate(["unity", "eigen", "adapt"]):
                if m == "adapt" and k == 1:
                    continue
                c = r * 24 + g * 3 + mi
                cplx = bool((g + mi + r) % 2)
                x, dk = gen_data(nrng, N, cplx, kind=gkinds[(c + c // 9) % 9])
                yield ("pmtm", {"x": _inp(x, dk, cplx), "NW": NW, "k": k, "nfft": nfft, "method": m, "supplied": bool((c // 2) % 2),
                                "dkind": dk})
    # NFFT and method left to their defaults
    for r in range(1 if tier == "quick" else 4):
        for g, N in enumerate(DEFAULT_N):
            cplx = bool((g + r) % 2)
            x, dk = gen_data(nrng, N, cplx, kind=["noise", "tone", "trend", "int"][(g + r) % 4])
            yield ("defaults", {"x": x, "NW": 2.5, "k": 3, "dkind": dk})
    # the cap of the adaptive loop: a pure complex tone of 1024 samples keeps the iteration going for exactly 100 passes
    yield ("pmtm_long", {"x": np.exp(2j * np.pi * 0.2 * np.arange(1024)), "NW": 4, "k": 10, "nfft": 1024, "method": "adapt",
                         "supplied": False, "dkind": "puretone", "expect_passes": 100})
    lkinds = ["noise", "tone", "trend", "int", "czero", "intdtype"]
    for i, N in enumerate([777, 1000, 1024, 1024, 1000, 777] if thorough else [1000, 777, 1024]):
        for mi, m in enumerate(["adapt", "unity", "eigen"]):
            if not thorough and mi != i:
                continue                       # quick: one method per length, oracle only
            c = 3 * i + mi
            cplx = bool((i + mi) % 2)
            NW = [2.5, 4.0, 3.5, 3.0][c % 4]
            x, dk = gen_data(nrng, N, cplx, kind=lkinds[(c + c // 6) % 6])
            yield ("pmtm" if (thorough and i == 0) else "pmtm_long",
                   {"x": x, "NW": NW, "k": [None, int(2 * NW) - 1, int(2 * NW) + 2][(c // 4) % 3], "nfft": [N, N + 1, 2 * N][(c // 2) % 3],
                    "method": m, "supplied": bool(c % 2), "dkind": dk})
    n = 60 if tier == "quick" else 800
    methods = ["unity", "eigen", "adapt"]
    kinds = ["noise", "tone", "intdtype", "list", "dyn", "const", "trend", "czero", "int"]
    for i in range(n):
        cplx = bool(nrng.integers(0, 2))
        N = int(nrng.integers(16, 129 if tier == "quick" else 513))
        kind = kinds[(i + i // 9) % len(kinds)]
        x, dk = gen_data(nrng, N, cplx, kind=kind)
        if dk == "dyn":
            x = np.asarray(x) * 2.0 ** int(nrng.integers(-10, 11))
        NW = [1.5, 2.0, 2.5, 3.0, 4.0][i % 5] if i % 4 else [1.25, 2.25, 3.25, 2.75, 3.5, 1.75][(i // 4) % 6]
        kmax = int(2 * NW)
        k = [None, kmax, max(2, kmax - 1), 2][i % 4]
        if i % 9 == 4 and methods[i % 3] != "adapt":
            k = 1            # a single taper
        nfft = [N, N + 1, 2 * N, 2 * N + 1, N + 7][(i + i // 5) % 5]
        yield ("pmtm", {"x": _inp(x, dk, cplx), "NW": NW, "k": k,
                        "nfft": nfft, "method": methods[i % 3], "supplied": bool(i % 2), "dkind": dk})
