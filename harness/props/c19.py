"""C19  Multitaper estimates are weighted means of tapered periodograms."""
import numpy as np

import single

import proto
from common import gen_data, rel

TRUSTED_BASE = [
    "the Slepian tapers/eigenvalues are taken from the implementation's dpss (their shape is C18's business; the C eigen-solver "
    "is a parameter); numpy.fft is the DFT parameter",
    "float mode, model rtol 1e-6 / oracle 1e-9 (max-norm) on eigenspectra and the class PSD, plus a per-bin relative 1e-9 check of "
    "the class PSD on bins above 1e-12*max; adaptive weights: 1e-9 against Thomson's formula at the spectrum recovered from the "
    "least concentrated taper, 1e-6 against the oracle's own numpy iteration (the iteration stops on a tolerance)",
    "histories: the reference mean uses numpy eigenspectra of the implementation's tapers and, for 'adapt', the weights pmtm "
    "returns for the current configuration (those are tied to Thomson's formula by the 'pmtm' cases); the layouts other than the "
    "default one follow C06's conversion rule; the Lean model is run on the configuration the history ends with",
    "kind 'tapers': the matrices come from spectrum.dpss, scipy.signal.windows.dpss and numpy's QR / normal deviates; the only "
    "thing taken from them is a real N x k matrix with unit-energy columns (nothing is assumed about the Slepian property); the "
    "reference eigenspectra are numpy.fft of column*data; tolerances as for 'pmtm' (measured values in oracle_tapers)",
    "records of 1000 and 1024 samples are checked by the oracle only (numpy reference of the iteration); the Lean model is "
    "executed up to 777 samples",
]
PARTIAL = ["'the spectrum the iteration converged to': the theorem is about the weights being Thomson's formula at the spectrum "
           "the loop last evaluated (fuel 100 as in the code); convergence itself is not proved.  The oracle checks the "
           "acceptance rule sum_f |T(S) - S| <= 0.0005 * mean power at the recovered spectrum whenever its own iteration needs "
           "fewer than 100 passes, and the cap of exactly 100 passes on a pure tone of 1024 samples",
           "wide bands (NW >= 6, leading eigenvalue 1 to rounding, possibly 1 + 4e-16) are run on data whose spectrum stays above "
           "1e-6 of the mean power at every frequency (noise, noisy tone, trend, integers); on a constant record the bound "
           "[0, 1/eigenvalue] was exceeded (defect D30, fixed)",
           "kind 'tapers', method 'adapt': tapers from spectrum.dpss with k so far above 2NW that dpss returns a concentration "
           "ratio <= 0 (about -1e-16) are replaced by scipy's (ruling: k > 2NW is outside C18's quantifier, the adaptive interval "
           "[0, 1/eigenvalue] needs a positive eigenvalue); records whose energy the first two tapers miss are generated since "
           "the library always makes the first pass of the adaptive loop (defect D34, fixed)"]
ASSUMPTIONS = ["k >= 2 tapers for method='adapt' (the code's initial estimate averages the first two eigenspectra)",
               "MultiTapering.NW/k/method/e/v are plain attributes: assigning them does not invalidate a cached psd; the "
               "'reuse' and 'history' oracles re-run the instance explicitly (p() / p.run()) after such an assignment and nothing "
               "is asserted on the lazy read; nothing is asserted on the Sk / weights / eigenvalues attributes while a "
               "recomputation is pending (they are compared once psd has been read)",
               "histories: after data is re-assigned NFFT stays >= the new length; supplied tapers are only combined with data "
               "of the length they were computed for; complex data shown 'onesided' is not in the domain (the assignment is "
               "refused once a psd exists -- the history goes on and the object must still be right); the non-default layouts "
               "are those of C06 (interior one-sided values split equally between +f and -f, DC and Nyquist values kept); "
               "scale_by_freq multiplies by 2*pi/df with df = sampling/NFFT as documented",
               "supplied tapers (e=, v=): v is a real N x k numpy matrix with one taper per COLUMN (the documented layout of dpss; "
               "any memory layout) and unit-energy columns, e a numpy vector of k numbers in (0, 1] for 'adapt' (any real numbers "
               "for 'unity' / 'eigen'); k may equal or exceed the number of samples; a k x N matrix (one taper per row) is not an "
               "input of the property"]
RULE = ("real/complex data (noise, tones, constant, trend, integer-valued, integer dtype, complex with zero imaginary part, "
        "lists, wide dynamic range) of length 16..128 (512 in thorough; 600 in the defaults family; 777, 1000, 1024 in thorough) "
        "x NW in {0.5, 0.75, 1 .. 4, 6 .. 8} (float and int) x k in 1..2NW and above 2NW x NFFT >= N (even/odd) and the default "
        "NFFT x method in {unity, eigen, adapt} and the default method x tapers computed vs supplied (function and class); "
        "operation histories on one MultiTapering object (kind 'history': real/complex data of length 21..64 (128 in thorough), "
        "NFFT even/odd, three methods, sampling in {1, 2, 0.5, 3, 1000, 44100} int and float, scale_by_freq on/off, tapers computed "
        "or supplied): sides assigned ('twosided', 'centerdc', 'onesided', 'default') before the first evaluation or after one, "
        "followed by a recomputation -- p(), p.run(), the first psd read / get_converted_psd, or lazily after re-assigning data "
        "(same type, other type, shorter, reversed), sampling, scale_by_freq, NFFT; NW / k / method / tapers re-assigned then "
        "p(); attributes read while a recomputation is pending; a failing evaluation (unknown method) in between -- 21 trigger "
        "families x {real, complex} x {even, odd} x 3 methods (quick: one half of that grid, chosen by the seed) plus random "
        "sequences of 3..11 operations.  After every operation that leaves an up-to-date estimate: len(psd) == "
        "len(frequencies()), psd real / finite / non-negative and equal (1e-9 max-norm and per bin) to the folded, doubled mean "
        "of weight*|eigenspectrum|^2 of the CURRENT data and configuration carried to the frequencies of the layout the object "
        "reports; get_converted_psd likewise; the Sk / weights / eigenvalues attributes equal pmtm's triple for the current "
        "configuration; the psd the history ends with is compared with the Lean model of pmtm + class mean; "
        "caller-supplied tapers whose shape does not tell their layout (kind 'tapers'): N in 16..24 (quick: 16 and three others "
        "chosen by the seed; thorough: all of them and 31, 32, 33, 40), the N x k matrix handed to pmtm(e=, v=) and "
        "MultiTapering(e=, v=) SQUARE or nearly so -- explicit k = N, N-1, N+1 (thorough: also N-2, N+2) and the default "
        "k = min(round(2NW), N) with NW within 1/2 of its bound N/2 (k = N or N-1) -- x NFFT in {N, N+1, 2N, 2N-1} so that "
        "NFFT = N, NFFT = k and NFFT = N = k all occur x three methods x real/complex data (noise, tone, trend, integers, integer "
        "dtype, zero imaginary part, list, constant, wide dynamic range) x the source of the tapers: spectrum.dpss(N, NW, k) "
        "itself (then also: same triple / same class PSD as when pmtm computes them), scipy.signal.windows.dpss transposed to "
        "N x k with its own concentration ratios (made-up 'eigenvalues' in (0, 1] when a ratio is not positive), k columns of a "
        "random orthogonal matrix, and (k > N) unit-energy columns that are not orthogonal, both with made-up eigenvalues in "
        "(0, 1] in no particular order x the memory layout of the matrix object (C-ordered, Fortran-ordered as scipy's "
        "transposed result is, every other column / row of a larger array).  Checked: eigenspectrum j is the NFFT-point DFT of "
        "(COLUMN j)*data, the eigenvalues come back unchanged, weights per method (Thomson's formula and the reference iteration "
        "for 'adapt'), the class PSD is the folded mean of weight*|DFT(column*data)|^2 (max-norm and per bin), the caller's "
        "arrays are untouched; every case is also run through the Lean model, which takes the tapers as given")


def _sp():
    import spectrum
    return spectrum


def _tapers(N, NW, k):
    from spectrum.mtm import dpss
    v, e = dpss(N, NW, k)
    return np.asarray(v), np.asarray(e)


def impl_pmtm(p):
    sp = _sp()
    x = np.asarray(p["x"])
    if p["supplied"]:
        v, e = _tapers(len(x), p["NW"], p["k"])
        Sk, w, ev = sp.pmtm(p["x"], e=e, v=v, NFFT=p["nfft"], method=p["method"], show=False)
        P = sp.MultiTapering(p["x"], e=e, v=v, NFFT=p["nfft"], method=p["method"], scale_by_freq=False)
    else:
        Sk, w, ev = sp.pmtm(p["x"], NW=p["NW"], k=p["k"], NFFT=p["nfft"], method=p["method"], show=False)
        P = sp.MultiTapering(p["x"], NW=p["NW"], k=p["k"], NFFT=p["nfft"], method=p["method"], scale_by_freq=False)
    Sk = np.asarray(Sk)
    psd = np.asarray(P.psd)
    mean = psd
    return [Sk[i, :] for i in range(Sk.shape[0])] + [np.asarray(w).ravel(), mean]


def model_pmtm(p):
    x = np.asarray(p["x"])
    v, e = _tapers(len(x), p["NW"], p["k"])
    k = v.shape[1]
    return ("F", proto.request("mtm", "F", [p["method"], p["nfft"]],
                               [x, e, [0.0005]] + [v[:, i] for i in range(k)]))


def post_pmtm(p, iv, mv):
    # the class folds real data (first half doubled); apply the same public rule to the model's two-sided mean
    x = np.asarray(p["x"])
    mean = mv[-1]
    if np.isrealobj(x):
        n = p["nfft"]
        L = n // 2 + 1 if n % 2 == 0 else (n + 1) // 2
        mean = 2 * mean[:L]
    return iv, list(mv[:-1]) + [mean]


def _snapshot(a):
    """a bit-exact record of a caller-owned argument (array: dtype, shape, bytes; list: the Python values and their types)"""
    if isinstance(a, np.ndarray):
        return ("a", a.dtype.str, a.shape, a.tobytes())
    return ("l", [(type(t).__name__, repr(t)) for t in a])


def _thomson_ref(SkA, e, sig2, nfft, cap=100):
    """Thomson's adaptive weighting written out in numpy (Percival & Walden 368-370): start from the mean of the first two
    eigenspectra; weights w_k = lam_k (S / (lam_k S + sig2 (1 - lam_k)))^2; new S = sum_k w_k S_k / sum_k w_k; stop when the
    summed change of S is at most 0.0005 * sig2 or after `cap` passes.  SkA is (k, nfft).  Returns (passes, weights (nfft, k))."""
    S = (SkA[0] + SkA[1]) / 2
    Sold = np.zeros(nfft)
    a = sig2 * (1 - np.minimum(e, 1.0))     # a concentration ratio of 1 + a few ulp counts as 1 (the noise term is never negative)
    w = np.ones((1, nfft)) * e[:, None]
    n = 0
    # the first pass is always made (defect D34, fixed: the test compares a CHANGE of the estimate with the tolerance)
    while (n == 0 or np.sum(np.abs(S - Sold)) / nfft > 0.0005 * sig2 / float(nfft)) and n < cap:
        n += 1
        b = S[None, :] / (e[:, None] * S[None, :] + a[:, None])
        w = e[:, None] * b ** 2
        Sold, S = S, np.sum(w * SkA, axis=0) / np.sum(w, axis=0)
    return n, w.T


def _adapt_checks(p, x, N, nfft, v, e, k, Sk, w, out):
    """the clauses on the adaptive weights (shape, real, [0, 1/eigenvalue], Thomson's formula at one spectrum per frequency,
    the numpy reference of the iteration, the acceptance rule), for tapers v (N x k, unit energy) with eigenvalues e"""
    if w.shape != (nfft, k):
        out.append("adaptive weights have shape %s, expected (%d, %d)" % (w.shape, nfft, k))
    elif np.iscomplexobj(w) or not np.all(np.isfinite(w)):
        out.append("adaptive weights are not real and finite (%s data)" % ("complex" if np.iscomplexobj(x) else "real"))
    else:
        if np.any(w < -1e-12) or np.any(w > 1.0 / e[None, :] * (1 + 1e-9)):
            out.append("adaptive weights leave [0, 1/eigenvalue]")
        # Thomson's formula evaluated at ONE spectrum per frequency: w_k = lam_k b_k^2 with b_k = S/(lam_k S + sig2 (1-lam_k)).
        # Recover S from taper 0 and require that the same S reproduces every other taper's weight (no convergence assumed;
        # the iteration stops on a tolerance, so "the spectrum it converged to" is whatever it last evaluated).
        sig2 = float(np.sum(np.abs(x) ** 2) / N)
        a = sig2 * (1 - np.minimum(e, 1.0))
        b0 = np.sqrt(np.clip(w[:, 0] / e[0], 0, None))
        den = 1 - b0 * e[0]
        ok = den > 1e-9
        Srec = np.where(ok, b0 * a[0] / np.where(ok, den, 1), np.nan)
        wf = (Srec[:, None] / (Srec[:, None] * e[None, :] + a[None, :])) ** 2 * e[None, :]
        dev = np.abs(wf - w)[ok]
        if dev.size and np.max(dev) > 1e-6 * max(1.0, float(np.max(np.abs(w)))):
            out.append("adaptive weights are not Thomson's formula at a single spectrum per frequency: max dev %.3e" % np.max(dev))
        # the same, with S recovered from the LEAST concentrated taper (largest 1 - lambda): b_j = S/(lam_j S + a_j) gives
        # S = b_j a_j / (1 - b_j lam_j) and 1 - b_j lam_j = a_j/(lam_j S + a_j) >= (1 - lam_j)/(lam_j N + 1 - lam_j), because
        # every eigenspectrum (hence S) is at most N * sig2 (Cauchy-Schwarz, unit-energy tapers): the recovery is active at
        # EVERY frequency as soon as lam_j <= 0.999, however close to 1 the leading eigenvalues are
        j = int(np.argmin(e))
        bj = np.sqrt(np.clip(w[:, j] / e[j], 0, None))
        denj = 1 - bj * e[j]
        okj = denj > 1e-9
        if e[j] <= 0.999 and not np.all(okj):
            out.append("the weight of the least concentrated taper (eigenvalue %.6f) reaches 1/eigenvalue: no finite "
                       "spectrum gives it" % e[j])
        Sj = np.where(okj, bj * a[j] / np.where(okj, denj, 1), np.nan)
        wfj = (Sj[:, None] / (Sj[:, None] * e[None, :] + a[None, :])) ** 2 * e[None, :]
        devj = np.abs(wfj - w)[okj]
        if devj.size and np.max(devj) > 1e-9 * max(1.0, float(np.max(np.abs(w)))):
            out.append("adaptive weights are not Thomson's formula at a single spectrum per frequency (spectrum recovered "
                       "from taper %d of %d, N=%d NW=%s): max dev %.3e" % (j, k, N, p["NW"], np.max(devj)))
        # "the spectrum the iteration converged to": the numpy iteration above, from the eigenspectra as numpy computes them
        SkR = np.abs(np.array([np.fft.fft(v[:, i] * x, nfft) for i in range(k)])) ** 2
        npass, wref = _thomson_ref(SkR, e, sig2, nfft)
        if np.all(np.isfinite(wref)) and np.max(np.abs(wref - w)) > 1e-6 * max(1.0, float(np.max(np.abs(wref)))):
            out.append("adaptive weights differ from Thomson's iteration (numpy reference, %d passes, N=%d NFFT=%d): %.3e" % (
                npass, N, nfft, np.max(np.abs(wref - w))))
        if "expect_passes" in p and not str(p.get("variant", "")).startswith("degen") and npass != p["expect_passes"]:
            out.append("harness: the reference iteration takes %d passes on this record, expected %d" % (npass, p["expect_passes"]))
        if npass < 100 and np.all(okj):
            # accepted before the cap: the returned weights sit at a spectrum S with sum_f |T(S) - S| <= 0.0005 sig2, T(S) the
            # weighted mean of the eigenspectra under the weights at S.  S comes from the weights with relative error about
            # eps * (1 + lam_j S / a_j); that error is added to the allowance.
            Snew = np.sum(w * (np.abs(Sk) ** 2).T, axis=1) / np.sum(w, axis=1)
            slack = float(np.sum(Sj * 64 * np.finfo(float).eps * (1 + e[j] * Sj / a[j])))
            if np.sum(np.abs(Snew - Sj)) > 0.0005 * sig2 * (1 + 1e-9) + slack:
                out.append("the spectrum behind the adaptive weights is not a fixed point to the acceptance tolerance: "
                           "sum|T(S)-S| = %.3e > 0.0005*sig2 = %.3e (reference iteration stops after %d passes)" % (
                               np.sum(np.abs(Snew - Sj)), 0.0005 * sig2, npass))


def oracle_pmtm(p):
    sp = _sp()
    x = np.asarray(p["x"])
    N = len(x)
    nfft = p["nfft"]
    out = []
    v, e = _tapers(N, p["NW"], p["k"])
    k = v.shape[1]
    snap = (_snapshot(p["x"]), _snapshot(v), _snapshot(e))
    Sk, w, ev = sp.pmtm(p["x"], NW=p["NW"], k=p["k"], NFFT=nfft, method=p["method"], show=False)
    Sk, w, ev = np.asarray(Sk), np.asarray(w), np.asarray(ev)
    if Sk.shape != (k, nfft):
        return ["pmtm eigenspectra have shape %s, expected (%d, %d)" % (Sk.shape, k, nfft)]
    for i in range(k):
        ref = np.fft.fft(v[:, i] * x, nfft)
        if rel(Sk[i], ref) > 1e-9:
            out.append("eigenspectrum %d is not the NFFT-point DFT of taper*data (N=%d NFFT=%d %s): %.2e" % (
                i, N, nfft, "complex" if np.iscomplexobj(x) else "real", rel(Sk[i], ref)))
            break
    if rel(ev, e) > 1e-12:
        out.append("returned eigenvalues differ from the taper eigenvalues")
    if p["method"] == "unity":
        if w.shape != (k, 1) or np.any(w != 1):
            out.append("unity weights are not all 1")
    elif p["method"] == "eigen":
        exp = np.array([e[i] / (i + 1) for i in range(k)]).reshape(k, 1)
        if w.shape != exp.shape or rel(w, exp) > 1e-12:
            out.append("eigen weights are not eigenvalue/(index+1)")
    else:
        _adapt_checks(p, x, N, nfft, v, e, k, Sk, w, out)
    # class: mean over tapers of weight*|eigenspectrum|^2, folded for real data, real and non-negative
    P = sp.MultiTapering(p["x"], NW=p["NW"], k=p["k"], NFFT=nfft, method=p["method"], scale_by_freq=False)
    psd = np.asarray(P.psd)
    SkA = np.abs(Sk) ** 2
    if np.iscomplexobj(psd) or not np.all(np.isfinite(psd)) or np.any(psd < 0):
        out.append("MultiTapering PSD is not real, finite and non-negative (%s data, method %s)" % (
            "complex" if np.iscomplexobj(x) else "real", p["method"]))
    else:
        if p["method"] == "adapt" and not np.iscomplexobj(w):
            mean = np.mean(SkA.T * w, axis=1)
        elif p["method"] != "adapt":
            mean = np.mean(SkA * w, axis=0)
        else:
            mean = None
        if mean is not None:
            if np.isrealobj(x):
                L = nfft // 2 + 1 if nfft % 2 == 0 else (nfft + 1) // 2
                mean = 2 * mean[:L]
            if psd.shape != mean.shape or rel(psd, mean) > 1e-9:
                out.append("MultiTapering PSD is not the mean over tapers of weight*|eigenspectrum|^2 (folded for real data)")
            else:
                # bin by bin (the max-norm check above says nothing about bins far below the peak)
                big = mean > 1e-12 * np.max(mean)
                if np.any(big) and np.max(np.abs(psd[big] - mean[big]) / mean[big]) > 1e-9:
                    out.append("MultiTapering PSD differs bin-by-bin from the mean over tapers of weight*|eigenspectrum|^2: "
                               "max relative deviation %.2e" % np.max(np.abs(psd[big] - mean[big]) / mean[big]))
    # supplying precomputed tapers gives the same result
    Sk2, w2, ev2 = sp.pmtm(p["x"], e=e, v=v, NFFT=nfft, method=p["method"], show=False)
    if rel(np.asarray(Sk2), Sk) > 1e-12 or rel(np.asarray(w2, dtype=complex), w.astype(complex)) > 1e-12:
        out.append("pmtm with supplied tapers differs from pmtm computing them")
    if np.asarray(ev2).shape != e.shape or rel(ev2, e) > 1e-12:
        out.append("pmtm with supplied tapers does not return the supplied eigenvalues")
    if not np.iscomplexobj(psd) and np.all(np.isfinite(psd)):
        for label, kw in (("e, v", {}), ("NW, k, e, v", {"NW": p["NW"], "k": p["k"]})):
            P2 = sp.MultiTapering(p["x"], e=e, v=v, NFFT=nfft, method=p["method"], scale_by_freq=False, **kw)
            psd2 = np.asarray(P2.psd)
            if psd2.shape != psd.shape or rel(psd2, psd) > 1e-12:
                out.append("MultiTapering(%s) with supplied tapers differs from the instance computing them (method %s)" % (
                    label, p["method"]))
                break
    if (_snapshot(p["x"]), _snapshot(v), _snapshot(e)) != snap:
        out.append("pmtm / MultiTapering modified the caller's data, tapers or eigenvalues")
    return out


# --------------------------------------------------------------------------------------------------
# caller-supplied tapers whose SHAPE says nothing about their layout: square (k = N) and nearly square (k = N-1, N+1) matrices,
# NFFT = N, NFFT = k.  The clauses "eigenspectrum j = NFFT-point DFT of (taper j)*data", the weight formulas and the class mean
# hold for ANY real taper matrix the caller supplies in the documented layout (N x k, one taper per COLUMN).

_TLAYOUTS = ["C", "F", "cols", "rows"]


def _given(p):
    """what the caller hands over: an N x k matrix, one taper per COLUMN, and k eigenvalues.  source 'spectrum': dpss(N, NW, k)
    of the implementation (recomputed from N, NW, k); any other source: the matrix and the eigenvalues carried by the case.
    'vlayout' is the memory layout of the matrix object (same values, same shape): C-ordered; Fortran-ordered (what the
    transposed k x N result of scipy.signal.windows.dpss is); every other column / row of a larger array (strided view)"""
    N = len(np.asarray(p["x"]))
    if p["source"] == "spectrum":
        v, e = _tapers(N, p["NW"], p["k"])
    else:
        v, e = p["v"], p["e"]
    v = np.array(v, dtype=float, order="C")
    e = np.array(e, dtype=float)
    lay = p.get("vlayout", "C")
    if lay == "F":
        v = np.asfortranarray(v)
    elif lay == "cols":
        big = np.full((v.shape[0], 2 * v.shape[1]), 7.0)
        big[:, ::2] = v
        v = big[:, ::2]
    elif lay == "rows":
        big = np.full((2 * v.shape[0], v.shape[1]), 7.0)
        big[::2] = v
        v = big[::2]
    elif lay != "C":
        raise ValueError("harness: unknown taper layout %r" % (lay,))
    return v, e


def _fold(mean, real, nfft):
    return 2 * mean[:(nfft // 2 + 1 if nfft % 2 == 0 else (nfft + 1) // 2)] if real else mean


def oracle_tapers(p):
    """caller-supplied tapers: every clause of the statement with the tapers taken as the COLUMNS of the caller's N x k matrix.
    Tolerances as for the 'pmtm' kind: 1e-9 on eigenspectra and the class PSD (max-norm and per bin), 1e-12 on eigenvalues, eigen
    weights and supplied-vs-computed; adaptive weights through _adapt_checks.  Measured on the unchanged code over the
    thorough-tier cases of this kind, variants included, seeds 0..7 (13 479 cases): eigenspectra, eigenvalues, eigen weights and
    pmtm supplied-vs-computed 0.0 (bit-identical: the same numpy operations); class PSD against the column-wise mean 1.04e-15
    max-norm, 1.09e-15 per bin; class (NW, k) against class (e, v) 1.04e-15 (the summation order follows the memory layout of
    the matrix) -- the limits are >= 900 x the worst observed.  Model comparison (rtol 1e-6 max-norm per output, atol 1e-12, as
    for 'pmtm'): worst 1.35e-8 over 3 000 cases (adaptive weights on CONSTANT records with 16..20 tapers; 4e-11 on every other
    kind of data), 74 x below the limit"""
    sp = _sp()
    x = np.asarray(p["x"])
    N = len(x)
    nfft = p["nfft"]
    m = p["method"]
    v, e = _given(p)
    if v.ndim != 2 or v.shape[0] != N or e.shape != (v.shape[1],):
        return ["harness: the case carries tapers of shape %s and %s eigenvalues for %d samples" % (v.shape, e.shape, N)]
    k = v.shape[1]
    real = np.isrealobj(x)
    desc = "N=%d k=%d NFFT=%d, %s data, method %s, tapers: %s, %s-layout" % (
        N, k, nfft, "real" if real else "complex", m, p["source"], p.get("vlayout", "C"))
    out = []
    snap = (_snapshot(p["x"]), _snapshot(v), _snapshot(e))
    ref = np.array([np.fft.fft(v[:, j] * x, nfft) for j in range(k)])          # column j, by definition of the N x k layout
    Sk, w, ev = sp.pmtm(p["x"], e=e, v=v, NFFT=nfft, method=m, show=False)
    Sk, w, ev = np.asarray(Sk), np.asarray(w), np.asarray(ev)
    if Sk.shape != (k, nfft):
        return ["supplied tapers: pmtm eigenspectra have shape %s, expected (%d, %d) (%s)" % (Sk.shape, k, nfft, desc)]
    for j in range(k):
        if rel(Sk[j], ref[j]) > 1e-9:
            hint = ""
            if k == N and all(rel(Sk[i], np.fft.fft(v[i, :] * x, nfft)) <= 1e-9 for i in range(k)):
                hint = " -- it is the DFT of (ROW %d of the matrix)*data: the square N x k matrix was read as k x N" % j
            out.append("supplied tapers: eigenspectrum %d is not the NFFT-point DFT of (column %d of v)*data: %.2e%s (%s)" % (
                j, j, rel(Sk[j], ref[j]), hint, desc))
            return out
    if ev.shape != e.shape or rel(ev, e) > 1e-12:
        out.append("supplied tapers: the returned eigenvalues are not the supplied ones (%s)" % desc)
    if m == "unity":
        if w.shape != (k, 1) or np.any(w != 1):
            out.append("supplied tapers: unity weights are not all 1 (%s)" % desc)
        W = np.ones((k, 1))
    elif m == "eigen":
        W = np.array([e[i] / (i + 1) for i in range(k)]).reshape(k, 1)
        if w.shape != W.shape or rel(w, W) > 1e-12:
            out.append("supplied tapers: eigen weights are not eigenvalue/(index+1) (%s)" % desc)
    else:
        n0 = len(out)
        _adapt_checks(p, x, N, nfft, v, e, k, Sk, w, out)
        out[n0:] = ["supplied tapers: %s (%s)" % (t, desc) for t in out[n0:]]
        # the class mean below uses the weights pmtm returned (tied to Thomson's formula by the lines above)
        W = w.T if (w.shape == (nfft, k) and not np.iscomplexobj(w) and np.all(np.isfinite(w))) else None
    # the class: mean over tapers of weight*|eigenspectrum|^2 with the eigenspectra as numpy computes them from the COLUMNS
    P = sp.MultiTapering(p["x"], e=e, v=v, NFFT=nfft, method=m, scale_by_freq=False)
    psd = np.asarray(P.psd)
    if np.iscomplexobj(psd) or not np.all(np.isfinite(psd)) or np.any(psd < 0):
        out.append("supplied tapers: MultiTapering PSD is not real, finite and non-negative (%s)" % desc)
    elif W is not None:
        mean = _fold(np.mean(W * np.abs(ref) ** 2, axis=0), real, nfft)
        if psd.shape != mean.shape or rel(psd, mean) > 1e-9:
            out.append("supplied tapers: MultiTapering PSD is not the mean over tapers of weight*|DFT(column*data)|^2 (folded for "
                       "real data): %.2e (%s)" % (rel(psd, mean), desc))
        else:
            big = mean > 1e-12 * np.max(mean)
            if np.any(big) and np.max(np.abs(psd[big] - mean[big]) / mean[big]) > 1e-9:
                out.append("supplied tapers: MultiTapering PSD differs bin-by-bin from the weighted mean: max relative deviation "
                           "%.2e (%s)" % (np.max(np.abs(psd[big] - mean[big]) / mean[big]), desc))
    # supplying the implementation's own tapers gives what pmtm / the class give when they compute them
    if p["source"] == "spectrum":
        Sk0, w0, ev0 = sp.pmtm(p["x"], NW=p["NW"], k=p["k"], NFFT=nfft, method=m, show=False)
        if rel(np.asarray(Sk0), Sk) > 1e-12 or rel(np.asarray(w0, dtype=complex), w.astype(complex)) > 1e-12 \
                or rel(np.asarray(ev0), ev) > 1e-12:
            out.append("pmtm with supplied tapers differs from pmtm computing them (%s, NW=%s k=%s)" % (desc, p["NW"], p["k"]))
        if not np.iscomplexobj(psd) and np.all(np.isfinite(psd)):
            for label, kw in (("NW, k", {"NW": p["NW"], "k": p["k"]}), ("NW, k, e, v", {"NW": p["NW"], "k": p["k"], "e": e, "v": v})):
                psd0 = np.asarray(sp.MultiTapering(p["x"], NFFT=nfft, method=m, scale_by_freq=False, **kw).psd)
                if psd0.shape != psd.shape or rel(psd0, psd) > 1e-12:
                    out.append("MultiTapering(e, v) with supplied tapers differs from MultiTapering(%s) (%s, NW=%s k=%s)" % (
                        label, desc, p["NW"], p["k"]))
                    break
    if (_snapshot(p["x"]), _snapshot(v), _snapshot(e)) != snap:
        out.append("pmtm / MultiTapering modified the caller's data, tapers or eigenvalues (%s)" % desc)
    return out


def impl_tapers(p):
    sp = _sp()
    v, e = _given(p)
    Sk, w, ev = sp.pmtm(p["x"], e=e, v=v, NFFT=p["nfft"], method=p["method"], show=False)
    P = sp.MultiTapering(p["x"], e=e, v=v, NFFT=p["nfft"], method=p["method"], scale_by_freq=False)
    Sk = np.asarray(Sk)
    return [Sk[i, :] for i in range(Sk.shape[0])] + [np.asarray(w).ravel(), np.asarray(P.psd)]


def model_tapers(p):
    """the Lean model takes the tapers as given: one vector per taper = one COLUMN of the caller's matrix"""
    v, e = _given(p)
    v = np.array(v, order="C")
    return ("F", proto.request("mtm", "F", [p["method"], p["nfft"]],
                               [np.asarray(p["x"]), e, [0.0005]] + [v[:, i].copy() for i in range(v.shape[1])]))


def oracle_defaults(p):
    """NFFT and method left to their defaults: pmtm pads to max(256, next power of two >= N) and weights adaptively; the class
    keeps NFFT = N and weights adaptively"""
    sp = _sp()
    x = np.asarray(p["x"])
    N = len(x)
    NW, k = p["NW"], p["k"]
    out = []
    v, e = _tapers(N, NW, k)
    nfft = max(256, 2 ** int(np.ceil(np.log2(N))))
    Sk, w, ev = sp.pmtm(p["x"], NW=NW, k=k)
    Sk, w = np.asarray(Sk), np.asarray(w)
    if Sk.shape != (k, nfft):
        return ["pmtm without NFFT returns eigenspectra of shape %s, expected (%d, %d) for N=%d" % (Sk.shape, k, nfft, N)]
    for i in range(k):
        if rel(Sk[i], np.fft.fft(v[:, i] * x, nfft)) > 1e-9:
            out.append("pmtm without NFFT: eigenspectrum %d is not the %d-point DFT of taper*data (N=%d)" % (i, nfft, N))
            break
    if w.shape != (nfft, k):
        out.append("pmtm without method: weights of shape %s, expected the adaptive (%d, %d)" % (w.shape, nfft, k))
    else:
        Ska, wa, eva = sp.pmtm(p["x"], NW=NW, k=k, NFFT=nfft, method="adapt")
        if rel(Sk, np.asarray(Ska)) > 1e-12 or rel(w, np.asarray(wa)) > 1e-12:
            out.append("pmtm without NFFT/method differs from NFFT=%d, method='adapt' (N=%d)" % (nfft, N))
        sig2 = float(np.sum(np.abs(x) ** 2) / N)
        npass, wref = _thomson_ref(np.abs(np.array([np.fft.fft(v[:, i] * x, nfft) for i in range(k)])) ** 2, e, sig2, nfft)
        if np.max(np.abs(wref - w)) > 1e-6 * max(1.0, float(np.max(np.abs(wref)))):
            out.append("pmtm without method: weights are not Thomson's adaptive weights (N=%d): %.3e" % (N, np.max(np.abs(wref - w))))
    if rel(ev, e) > 1e-12:
        out.append("pmtm without NFFT/method: returned eigenvalues differ from the taper eigenvalues")
    # the class: positional NW, k; NFFT defaults to the data length, method to 'adapt'
    P = sp.MultiTapering(p["x"], NW, k)
    Q = sp.MultiTapering(p["x"], NW=NW, k=k, NFFT=N, method="adapt")
    a1, a2 = np.asarray(P.psd), np.asarray(Q.psd)
    if P.NFFT != N:
        out.append("MultiTapering without NFFT uses NFFT=%r, expected the data length %d" % (P.NFFT, N))
    if a1.shape != a2.shape or rel(a1, a2) > 1e-12:
        out.append("MultiTapering(x, NW, k) differs from NFFT=N, method='adapt' (N=%d)" % N)
    # and against the formula, unscaled
    P = sp.MultiTapering(p["x"], NW, k, scale_by_freq=False)
    psd = np.asarray(P.psd)
    SkN, wN, _ = sp.pmtm(p["x"], NW=NW, k=k, NFFT=N, method="adapt")
    mean = np.mean((np.abs(np.asarray(SkN)) ** 2).T * np.asarray(wN), axis=1)
    if np.isrealobj(x):
        mean = 2 * mean[:(N // 2 + 1 if N % 2 == 0 else (N + 1) // 2)]
    if psd.shape != mean.shape or rel(psd, mean) > 1e-9:
        out.append("MultiTapering(x, NW, k, scale_by_freq=False) is not the adaptive weighted mean at NFFT=N (N=%d)" % N)
    return out


def oracle_reuse(p):
    """the class returns the mean over the tapers of ITS CURRENT configuration: re-using an instance after reassigning NW, k or
    method must give what a fresh instance with those values gives"""
    sp = _sp()
    x = p["x"]
    out = []
    o = sp.MultiTapering(x, NW=p["NW"], k=p["k"], NFFT=p["nfft"], method=p["method"], scale_by_freq=False)
    o()
    for (attr, val) in p["changes"]:
        setattr(o, attr, val)
        o()
        cur = {a: getattr(o, a) for a in ("NW", "k", "method")}
        f = sp.MultiTapering(x, NW=cur["NW"], k=cur["k"], NFFT=p["nfft"], method=cur["method"], scale_by_freq=False)
        a1, a2 = np.asarray(o.psd), np.asarray(f.psd)
        if a1.shape != a2.shape or rel(a1, a2) > 1e-9:
            out.append("MultiTapering instance re-used after %s = %r differs from a fresh instance with the same configuration" % (attr, val))
            break
    return out


# --------------------------------------------------------------------------------------------------
# operation histories on one MultiTapering object ("whatever was done with the object before the estimate is (re)computed")

_ATTRS = ("NW", "k", "method")


def _hist_cfg(p):
    """the configuration the object starts with"""
    return {"x": p["x"], "NW": p["NW"], "k": p["k"], "nfft": p["nfft"], "method": p["method"], "sampling": p["sampling"],
            "scale": p["scale"], "ev": ([p["NW"], p["k"]] if p["supplied"] else None)}


def _hist_step(cfg, op, p):
    """the configuration after one operation (what a reader of the public documentation expects the object to hold)"""
    name = op[0]
    if name == "data":
        cfg["x"] = p["xs"][op[1]]
    elif name == "sampling":
        cfg["sampling"] = op[1]
    elif name == "scale":
        cfg["scale"] = op[1]
    elif name == "nfft":
        cfg["nfft"] = op[1]
    elif name in _ATTRS:
        cfg[name] = op[1]
    elif name == "ev":
        cfg["ev"] = None if op[1] is None else [op[1], op[2]]
    return cfg


def _hist_tapers(cfg):
    N = len(cfg["x"])
    return _tapers(N, *cfg["ev"]) if cfg["ev"] is not None else _tapers(N, cfg["NW"], cfg["k"])


def _hist_do(P, op, p, cfg):
    """apply one operation to the object through its public interface"""
    name = op[0]
    if name == "call":
        P()
    elif name == "run":
        P.run()
    elif name == "read":
        P.psd
    elif name == "sides":
        try:
            P.sides = op[1]
        except AssertionError:
            # one-sided layout of complex data is refused (only once a psd exists); the object must stay usable
            if not (op[1] == "onesided" and P.datatype == "complex"):
                raise
    elif name == "get":
        try:
            P.get_converted_psd(op[1])
        except AssertionError:
            if not (op[1] == "onesided" and P.datatype == "complex"):
                raise
    elif name == "data":
        P.data = p["xs"][op[1]]
    elif name == "sampling":
        P.sampling = op[1]
    elif name == "scale":
        P.scale_by_freq = op[1]
    elif name == "nfft":
        P.NFFT = op[1]
    elif name in _ATTRS:
        setattr(P, name, op[1])
    elif name == "ev":
        if op[1] is None:
            P.e, P.v = None, None
        else:
            v, e = _tapers(len(cfg["x"]), op[1], op[2])
            P.v, P.e = v, e
    elif name == "attrs":
        # reading what the object exposes must not disturb the pending computation
        for a in ("Sk", "weights", "eigenvalues"):
            getattr(P, a, None)
        P.frequencies()
        P.df
    elif name == "bogus":
        # a computation that fails inside the history (unknown weighting): the object must recover afterwards
        keep = P.method
        P.method = "bogus"
        try:
            if op[1] == "call":
                P()
            else:
                P.psd
        except Exception:
            pass
        P.method = keep
    else:
        raise ValueError("harness: unknown operation %r" % (op,))


def _hist_new(p):
    sp = _sp()
    cfg = _hist_cfg(p)
    kw = {}
    if p["supplied"]:
        v, e = _hist_tapers(cfg)
        kw = {"e": e, "v": v}
        if p.get("nwk_too"):
            kw.update(NW=p["NW"], k=p["k"])
    else:
        kw = {"NW": p["NW"], "k": p["k"]}
    P = sp.MultiTapering(p["x"], NFFT=p["nfft"], method=p["method"], scale_by_freq=p["scale"], sampling=p["sampling"], **kw)
    return P, cfg


def _hist_bins(fr, cfg):
    """frequencies() entries as DFT bin numbers (may be negative for 'centerdc')"""
    q = np.asarray(fr, dtype=float) * cfg["nfft"] / float(cfg["sampling"])
    b = np.rint(q)
    return b.astype(int), (float(np.max(np.abs(q - b))) if q.size else 0.0)


def _hist_layout(S2, real, nfft, bins, onesided):
    """the two-sided mean S2 (one value per DFT bin) laid out on the axis whose entries are the DFT bins `bins`:
    real data: the class folds (first half, every value doubled); the other layouts of that one-sided vector split interior
    values equally between +f and -f and keep the DC / Nyquist values (C06's rule).  complex data: the value of the bin."""
    S2 = np.asarray(S2, dtype=float)
    if not real:
        return S2[np.mod(bins, nfft)]
    L = nfft // 2 + 1
    h = S2[:L]
    if onesided:
        return 2 * h[bins]
    t = np.empty(nfft)
    t[:L] = h
    t[nfft - np.arange(1, L)] = h[1:]
    t[0] *= 2
    if nfft % 2 == 0:
        t[nfft // 2] *= 2
    return t[np.mod(bins, nfft)]


def _hist_scale(cfg):
    # scale_by_freq: "scale the PSD by 2*pi/df", df = sampling/NFFT
    return 2 * np.pi / (float(cfg["sampling"]) / cfg["nfft"]) if cfg["scale"] else 1.0


def _hist_ref(cfg, cache):
    """two-sided weighted mean for a configuration: eigenspectra by numpy from the implementation's tapers; weights 1 /
    eigenvalue/(index+1) / the adaptive weights pmtm returns for this configuration (checked against Thomson's formula by the
    'pmtm' kind).  Also the pmtm triple itself (class-vs-function consistency)."""
    x = np.asarray(cfg["x"])
    key = (id(cfg["x"]), repr(cfg["NW"]), repr(cfg["k"]), cfg["nfft"], cfg["method"], repr(cfg["ev"]))
    if key in cache:
        return cache[key]
    sp = _sp()
    v, e = _hist_tapers(cfg)
    nfft = cfg["nfft"]
    kw = {"e": e, "v": v} if cfg["ev"] is not None else {"NW": cfg["NW"], "k": cfg["k"]}
    Skp, w, ev = sp.pmtm(cfg["x"], NFFT=nfft, method=cfg["method"], show=False, **kw)
    Skp, w, ev = np.asarray(Skp), np.asarray(w), np.asarray(ev)
    SkA = np.abs(np.array([np.fft.fft(v[:, i] * x, nfft) for i in range(v.shape[1])])) ** 2
    if cfg["method"] == "unity":
        W = np.ones((v.shape[1], 1))
    elif cfg["method"] == "eigen":
        W = np.array([e[i] / (i + 1) for i in range(len(e))]).reshape(-1, 1)
    else:
        W = w.T
    S2 = np.mean(W * SkA, axis=0)
    # the same mean from the function's own triple, as the class documents it ("mean(Sk * weights)")
    A = np.abs(Skp) ** 2
    S2f = np.mean(A.T * w, axis=1) if cfg["method"] == "adapt" else np.mean(A * w, axis=0)
    cache[key] = (S2, S2f, w, ev)
    return cache[key]


def _hist_check(P, cfg, cache, where, out):
    """the value clause at one point of a history: the stored psd, in the layout the object reports, is the (folded, doubled)
    mean over tapers of weight*|eigenspectrum|^2 of the CURRENT data and configuration, on the frequencies() axis"""
    psd = np.asarray(P.psd)          # first: a pending computation resets `sides`
    sides = P.sides
    fr = P.frequencies()
    x = np.asarray(cfg["x"])
    real = np.isrealobj(x)
    nfft = cfg["nfft"]
    desc = "%s data, N=%d NFFT=%d method %s, sides %r" % ("real" if real else "complex", len(x), nfft, cfg["method"], sides)
    if psd.ndim != 1 or len(psd) != len(fr):
        out.append("%s: len(psd) = %s but frequencies() has %d entries (%s)" % (where, "x".join(str(t) for t in psd.shape), len(fr), desc))
        return False
    if np.iscomplexobj(psd) or not np.all(np.isfinite(psd)) or np.any(psd < 0):
        out.append("%s: psd is not real, finite and non-negative (%s)" % (where, desc))
        return False
    bins, off = _hist_bins(fr, cfg)
    if off > 1e-6 or np.any(bins >= nfft) or np.any(bins < -nfft):
        out.append("%s: frequencies() entries are not multiples of sampling/NFFT inside one period (%s)" % (where, desc))
        return False
    onesided = sides == "onesided"
    if onesided and (not real or np.any(bins < 0) or np.any(bins > nfft // 2)):
        out.append("%s: a one-sided layout is reported for %s" % (where, desc))
        return False
    S2, S2f, w, ev = _hist_ref(cfg, cache)
    exp = _hist_layout(S2, real, nfft, bins, onesided) * _hist_scale(cfg)
    # tolerances, measured on the unchanged code over 6 624 thorough-tier histories (35 374 check points, seeds 0..11): worst
    # max-norm deviation 4.9e-16, worst per-bin relative deviation 6.3e-16 (get_converted_psd: 4.4e-16), Sk / weights /
    # eigenvalues attributes bit-identical to pmtm's (0.0).  Limits: 1e-9 (as for the plain 'pmtm' cases, > 1e6 x the worst
    # observed) and 1e-12 for the attributes.  Model comparison of the final psd: worst 1.5e-15 over 780 histories, limit
    # 1e-6 as for the 'pmtm' kind (the adaptive loop stops on a tolerance)
    if rel(psd, exp) > 1e-9:
        out.append("%s: psd is not the mean over tapers of weight*|eigenspectrum|^2 (folded and doubled for real data) of the "
                   "current configuration, laid out on frequencies(): max-norm deviation %.2e (%s)" % (where, rel(psd, exp), desc))
        return False
    big = exp > 1e-12 * np.max(exp)
    if np.any(big) and np.max(np.abs(psd[big] - exp[big]) / exp[big]) > 1e-9:
        out.append("%s: psd differs bin-by-bin from the weighted mean of the current configuration: max relative deviation "
                   "%.2e (%s)" % (where, np.max(np.abs(psd[big] - exp[big]) / exp[big]), desc))
        return False
    # what the object exposes next to psd belongs to the same evaluation, and agrees with the function
    Sk = getattr(P, "Sk", None)
    if Sk is None or np.asarray(Sk).shape != S2f.shape or rel(np.asarray(Sk), S2f) > 1e-12:
        out.append("%s: the Sk attribute is not the two-sided mean(|Sk|^2 * weights) of pmtm's triple for the current "
                   "configuration (%s)" % (where, desc))
        return False
    if np.asarray(P.weights).shape != w.shape or rel(np.asarray(P.weights, dtype=complex), w.astype(complex)) > 1e-12 \
            or rel(np.asarray(P.eigenvalues), ev) > 1e-12:
        out.append("%s: the weights / eigenvalues attributes are not those pmtm returns for the current configuration (%s)" % (
            where, desc))
        return False
    return True


def _hist_text(ops, i):
    return "after " + " ; ".join("%s%s" % (o[0], ("=" + ",".join(repr(a) for a in o[1:])) if len(o) > 1 else "") for o in ops[:i + 1])


def _hist_run(p, check):
    """run the history; with check: evaluate the value clause after every operation that leaves an up-to-date estimate"""
    out = []
    cache = {}
    P, cfg = _hist_new(p)
    computed = False
    ops = p["ops"]
    for i, op in enumerate(ops):
        _hist_do(P, op, p, cfg)
        cfg = _hist_step(cfg, op, p)
        if op[0] in ("call", "run", "read", "get"):
            computed = True
        if not check:
            continue
        if op[0] in ("call", "run", "read") or (op[0] in ("sides", "get") and computed):
            if not _hist_check(P, cfg, cache, _hist_text(ops, i), out):
                return P, cfg, out
        if op[0] == "get" and not (op[1] == "onesided" and P.datatype == "complex"):
            g = np.asarray(P.get_converted_psd(op[1]))
            fr = P.frequencies(op[1])
            x = np.asarray(cfg["x"])
            bins, off = _hist_bins(fr, cfg)
            if g.ndim != 1 or len(g) != len(fr) or off > 1e-6:
                out.append("%s: get_converted_psd(%r) has shape %s, frequencies(%r) has %d entries" % (
                    _hist_text(ops, i), op[1], g.shape, op[1], len(fr)))
                return P, cfg, out
            exp = _hist_layout(_hist_ref(cfg, cache)[0], np.isrealobj(x), cfg["nfft"], bins, op[1] == "onesided") * _hist_scale(cfg)
            if rel(g, exp) > 1e-9:
                out.append("%s: get_converted_psd(%r) does not carry the weighted mean to the frequencies of that layout: %.2e" % (
                    _hist_text(ops, i), op[1], rel(g, exp)))
                return P, cfg, out
    return P, cfg, out


def oracle_history(p):
    snap = (_snapshot(p["x"]), [_snapshot(t) for t in p["xs"]])
    P, cfg, out = _hist_run(p, True)
    if not out:
        # the estimate the history ends with (a lazy recomputation may still be pending here)
        _hist_check(P, cfg, {}, "at the end of " + _hist_text(p["ops"], len(p["ops"]))[6:], out)
    if (_snapshot(p["x"]), [_snapshot(t) for t in p["xs"]]) != snap:
        out.append("the history modified the caller's data")
    return out


def impl_history(p):
    """the psd the history ends with, its layout as DFT bin numbers, and the one-sided flag"""
    P, cfg, _ = _hist_run(p, False)
    psd = np.asarray(P.psd)
    sides = P.sides
    bins, _ = _hist_bins(P.frequencies(), cfg)
    return [psd, bins.astype(float), np.array([1.0 if sides == "onesided" else 0.0])]


def _hist_final(p):
    cfg = _hist_cfg(p)
    for op in p["ops"]:
        cfg = _hist_step(cfg, op, p)
    return cfg


def model_history(p):
    """the Lean model of pmtm + class mean for the configuration the history ends with (the model knows no histories: the
    statement is that the history does not matter)"""
    cfg = _hist_final(p)
    v, e = _hist_tapers(cfg)
    return ("F", proto.request("mtm", "F", [cfg["method"], cfg["nfft"]],
                               [np.asarray(cfg["x"]), e, [0.0005]] + [v[:, i] for i in range(v.shape[1])]))


def post_history(p, iv, mv):
    cfg = _hist_final(p)
    psd, bins, one = iv
    bins = np.asarray(bins).real.astype(int)
    nfft = cfg["nfft"]
    mean = np.asarray(mv[-1]).real
    if bins.size == 0 or np.any(bins >= nfft) or np.any(bins < -nfft) or (one[0] and np.any((bins < 0) | (bins > nfft // 2))):
        return [psd], [np.zeros(0)]          # reported as a length disagreement
    exp = _hist_layout(mean, np.isrealobj(np.asarray(cfg["x"])), nfft, bins, bool(one[0])) * _hist_scale(cfg)
    return [psd], [exp]


def _key(p):
    x = np.asarray(p["x"])
    return "%d|%s|%s|%s|%s|%s|%d" % (len(x), p["NW"], p["k"], p.get("nfft"), p.get("method"), np.iscomplexobj(x),
                                     hash(x.tobytes()) & 0xFFFFFF)


def _tags(p):
    x = np.asarray(p["x"])
    t = ["complex" if np.iscomplexobj(x) else "real", "method:" + p["method"],
         "nfft:" + ("odd" if p["nfft"] % 2 else "even"), "supplied" if p["supplied"] else "computed", "data:" + p["dkind"],
         "len:" + ("16" if len(x) == 16 else "<=128" if len(x) <= 128 else "<=512" if len(x) <= 512 else ">512")]
    NW, k = p["NW"], p["k"]
    if NW <= 1:
        t.append("NW<=1")
    if NW >= 6:
        t.append("NW>=6")
    if isinstance(NW, int):
        t.append("NW:int")
    if k is not None and k > 2 * NW:
        t.append("k>2NW")
    if k == 1:
        t.append("k=1")
    if "expect_passes" in p:
        t.append("cap:100 passes")
    return t


KINDS = {
    "reuse": {"oracle": oracle_reuse, "key": lambda p: "reuse|%s|%s" % (p["changes"], _key(p)), "tags": lambda p: ["reuse"]},
    "pmtm": {"impl": impl_pmtm, "model": model_pmtm, "oracle": oracle_pmtm, "post": post_pmtm, "rtol": 1e-6, "atol": 1e-12,
             "key": _key, "tags": _tags},
    # long records: the statement evaluated by the oracle (numpy reference of the iteration included); no model run
    "pmtm_long": {"oracle": oracle_pmtm, "key": lambda p: "long|" + _key(p), "tags": _tags},
    "defaults": {"oracle": oracle_defaults, "key": lambda p: "defaults|" + _key(p),
                 "tags": lambda p: ["defaults", "complex" if np.iscomplexobj(p["x"]) else "real"]},
}


def _hist_tags(p):
    x = np.asarray(p["x"])
    ops = p["ops"]
    t = ["history", "hist:" + ("complex" if np.iscomplexobj(x) else "real"), "hist:method:" + p["method"],
         "hist:nfft:" + ("odd" if p["nfft"] % 2 else "even"), "hist:" + p["family"]]
    names = [o[0] for o in ops]
    first = next((i for i, n in enumerate(names) if n in ("call", "run", "read", "get")), len(ops))
    if "sides" in names[:first]:
        t.append("hist:sides before the first evaluation")
    if "sides" in names[first:]:
        t.append("hist:sides after an evaluation")
    for s in sorted({o[1] for o in ops if o[0] == "sides"}):
        t.append("hist:sides=" + s)
    for n in sorted(set(names) - {"sides"}):
        t.append("hist:op:" + n)
    if p["supplied"]:
        t.append("hist:supplied tapers")
    if p["scale"]:
        t.append("hist:scale_by_freq")
    kinds = {np.iscomplexobj(np.asarray(p["xs"][o[1]])) for o in ops if o[0] == "data"}
    if kinds and kinds != {np.iscomplexobj(x)}:
        t.append("hist:data type switched")
    return t


KINDS["history"] = {"oracle": oracle_history, "impl": impl_history, "model": model_history, "post": post_history,
                    "rtol": 1e-6, "atol": 0.0,
                    "key": lambda p: "hist|%s|%s|%s|%s" % (p["ops"], p["sampling"], p["scale"], _key(p)), "tags": _hist_tags}
def _tapers_tags(p):
    x = np.asarray(p["x"])
    N = len(x)
    v, e = _given(p)
    k = v.shape[1]
    t = ["tapers", "tapers:" + ("complex" if np.iscomplexobj(x) else "real"), "tapers:method:" + p["method"],
         "tapers:source:" + p["source"], "tapers:layout:" + p.get("vlayout", "C"), "tapers:data:" + p["dkind"],
         "tapers:k=" + ("N" if k == N else "N-1" if k == N - 1 else "N+1" if k == N + 1 else "other")]
    if p["nfft"] == N:
        t.append("tapers:NFFT=N")
    if p["nfft"] == k:
        t.append("tapers:NFFT=k")
    if p["nfft"] == N == k:
        t.append("tapers:NFFT=N=k")
    if p["source"] == "spectrum" and p["k"] is None:
        t.append("tapers:default k, NW near N/2")
    t.append("tapers:eigenvalues:" + p.get("eig", "dpss"))
    return t


KINDS["tapers"] = {"oracle": oracle_tapers, "impl": impl_tapers, "model": model_tapers, "post": post_pmtm, "rtol": 1e-6, "atol": 1e-12,
                   "key": lambda p: "tapers|%s|%s|%s|%s" % (p["source"], p.get("vlayout", "C"), np.asarray(_given(p)[0]).shape, _key(p)),
                   "tags": _tapers_tags}
KINDS["single"] = single.kind("C19")

# (N, NW, k, NFFT): more tapers than 2NW (small eigenvalues, large 1/eigenvalue), NW <= 1, integer-typed NW, 16 samples with 8 tapers
GRID = [(64, 2.5, 7, 64), (64, 2.0, 6, 65), (48, 3, 9, 97), (32, 1.0, None, 32), (32, 1, 2, 33), (32, 0.75, None, 64),
        (33, 0.5, 1, 40), (16, 4.0, 8, 16)]
DEFAULT_N = [16, 100, 256, 257, 300, 600]


def _inp(x, dk, cplx):
    return x if dk != "list" else [complex(t) if cplx else float(t) for t in x]


_SIDES = ["twosided", "centerdc", "onesided"]
_SAMPLINGS = [1, 1.0, 2.0, 0.5, 1000.0, 44100, 3]
_HKINDS = ["noise", "tone", "trend", "int", "const", "dyn", "list", "intdtype", "czero"]


def _hist_triggers(s, s2, s3, c):
    """(family, operations): every way the estimate gets (re)computed while the object shows layout s -- chosen after a first
    evaluation or before any -- followed by a look at the other layouts.  c: small integers/values for the re-assignments."""
    T = [
        ("explicit p()", [["call"], ["sides", s], ["call"]]),
        ("explicit run()", [["call"], ["sides", s], ["run"]]),
        ("first p()", [["sides", s], ["call"]]),
        ("first read", [["sides", s], ["read"]]),
        ("first run()", [["sides", s], ["run"]]),
        ("first get", [["sides", s], ["get", s2]]),
        ("lazy: data", [["call"], ["sides", s], ["data", 0], ["read"]]),
        ("lazy: sampling", [["read"], ["sides", s], ["sampling", c["sampling"]], ["read"]]),
        ("lazy: scale_by_freq", [["call"], ["sides", s], ["scale", c["scale"]], ["read"]]),
        ("NW then p()", [["call"], ["sides", s], ["NW", c["NW"]], ["call"]]),
        ("k then run()", [["call"], ["sides", s], ["k", c["k"]], ["run"]]),
        ("method then p()", [["call"], ["sides", s], ["method", c["method"]], ["call"]]),
        ("lazy: data of the other type", [["call"], ["sides", s], ["data", 1], ["read"]]),
        ("lazy: data then get", [["call"], ["sides", s], ["data", 3], ["get", s2]]),
        ("lazy: shorter data then sides", [["read"], ["sides", s], ["data", 2], ["sides", s2]]),
        ("attributes read first", [["call"], ["data", 0], ["attrs"], ["sides", s], ["attrs"], ["call"]]),
        ("NFFT then p()", [["call"], ["sides", s], ["nfft", c["nfft"]], ["read"], ["sides", s], ["call"]]),
        ("failing p() inside", [["call"], ["sides", s], ["bogus", "call"], ["call"]]),
        ("failing lazy read inside", [["call"], ["sides", s], ["data", 0], ["bogus", "read"], ["read"]]),
        ("tapers then p()", [["call"], ["sides", s], ["ev", c["NW"], c["k"]], ["call"], ["sides", s2], ["ev", None, None], ["run"]]),
        ("twice", [["call"], ["sides", s], ["call"], ["sides", s2], ["data", 0], ["read"], ["sides", s], ["run"]]),
    ]
    return [(f, ops + [["sides", s3], ["get", s2], ["read"]]) for f, ops in T]


def _hist_case(nrng, i, cplx, odd, method, thorough):
    """data, alternatives for re-assignment and a configuration; N >= 21 so that the shorter record still has 16 samples"""
    N = int(nrng.integers(21, 129 if thorough else 65))
    nfft = [N, N + 1, 2 * N, 2 * N + 1, N + 7, N + 8][int(nrng.integers(0, 6))]
    if nfft % 2 != int(odd):
        nfft += 1
    kinds = [k for k in _HKINDS if (cplx or k != "czero") and (not cplx or k != "intdtype")]
    x, dk = gen_data(nrng, N, cplx, kind=kinds[i % len(kinds)])
    alt = lambda n, c, j: gen_data(nrng, n, c, kind=["noise", "tone", "trend", "int"][(i + j) % 4])[0]
    xs = [alt(N, cplx, 0), alt(N, not cplx, 1), alt(N - 5, cplx, 2), np.asarray(x)[::-1].copy()]
    NW = [2.5, 2.0, 3, 4.0, 1.5, 3.5][i % 6]
    k = [None, 3, 2, int(2 * NW)][(i // 2) % 4]
    sampling = _SAMPLINGS[i % len(_SAMPLINGS)]
    scale = bool((i // 3) % 2)
    c = {"sampling": _SAMPLINGS[(i + 1 + i // 7) % len(_SAMPLINGS)], "scale": not scale, "NW": [2.0, 2.5, 3.0][i % 3],
         "k": [2, 3, 4][(i // 3) % 3], "method": [m for m in ("unity", "eigen", "adapt") if m != method][i % 2],
         "nfft": nfft + [1, 2, 3, 8][i % 4]}
    if c["sampling"] == sampling:
        c["sampling"] = 8.0
    if c["NW"] == NW:
        c["NW"] = 3.5
    p = {"x": _inp(x, dk, cplx), "xs": xs, "NW": NW, "k": k, "nfft": nfft, "method": method, "sampling": sampling, "scale": scale,
         "supplied": bool((i // 5) % 2), "nwk_too": bool((i // 10) % 2), "dkind": dk}
    return p, c


def _gen_history(nrng, tier):
    thorough = tier != "quick"
    # (1) every trigger x {real, complex} x {NFFT even, odd} x {unity, eigen, adapt}; the layout shown rotates
    i = 0
    half = int(nrng.integers(0, 2))
    ntrig = len(_hist_triggers("twosided", "centerdc", "onesided", {a: 0 for a in ("sampling", "scale", "NW", "k", "method", "nfft")}))
    for t in range(ntrig):
        for cplx in (False, True):
            for odd in (False, True):
                for mi, method in enumerate(("unity", "eigen", "adapt")):
                    i += 1
                    if not thorough and (t + mi + int(cplx) + int(odd) + half) % 2:
                        continue                 # quick: one half of the grid (which half depends on the seed)
                    p, c = _hist_case(nrng, i, cplx, odd, method, thorough)
                    r = (i + int(nrng.integers(0, 3))) % 3
                    s, s2, s3 = _SIDES[r], _SIDES[(r + 1 + i % 2) % 3], _SIDES[(r + 2 - i % 2) % 3]
                    if cplx:
                        # complex data: 'onesided' is refused once a psd exists; keep one such history per trigger and method
                        s2 = s2 if s2 != "onesided" else "centerdc"
                        if s == "onesided" and odd:
                            s = "centerdc"
                    fam, ops = _hist_triggers(s, s2, s3, c)[t]
                    if fam.startswith("tapers"):
                        p["supplied"] = p["nwk_too"] = True      # NW, k given as well: they are in use once the tapers are removed
                    if p["supplied"]:
                        # supplied tapers have the length of the record: same-length data only, and NW / k are not in use
                        ops = [(["data", 0] if o == ["data", 2] else o) for o in ops]
                    if cplx:
                        ops = [o for o in ops if o != ["get", "onesided"]]
                    p.update(ops=ops, family=fam)
                    yield ("history", p)
    # (2) random histories over the same alphabet
    for j in range(30 if not thorough else 300):
        i += 1
        cplx, odd, method = bool(j % 2), bool((j // 2) % 2), ("unity", "eigen", "adapt")[j % 3]
        p, c = _hist_case(nrng, i, cplx, odd, method, thorough)
        p["supplied"] = False
        ops = []
        cur_cplx = cplx
        pending = False          # a plain attribute (NW, k, method, tapers) was assigned: an explicit evaluation must follow
        for _ in range(int(nrng.integers(3, 11))):
            u = int(nrng.integers(0, 16))
            if pending or u == 0:
                ops.append([["call"], ["run"]][int(nrng.integers(0, 2))])
                pending = False
            elif u <= 5:
                s = (_SIDES + ["default"])[int(nrng.integers(0, 4))]
                ops.append(["sides", s])
            elif u == 6:
                ops.append(["read"])
            elif u == 7:
                s = _SIDES[int(nrng.integers(0, 3 if not cur_cplx else 2))]
                ops.append(["get", s])
            elif u == 8:
                d = int(nrng.integers(0, 4))
                ops.append(["data", d])
                cur_cplx = np.iscomplexobj(p["xs"][d])
            elif u == 9:
                ops.append(["sampling", _SAMPLINGS[int(nrng.integers(0, len(_SAMPLINGS)))]])
            elif u == 10:
                ops.append(["scale", bool(nrng.integers(0, 2))])
            elif u == 11:
                ops.append(["nfft", p["nfft"] + int(nrng.integers(0, 9))])
            elif u == 12:
                ops.append([["NW", [2.0, 2.5, 3.0, 4][int(nrng.integers(0, 4))]], ["k", int(nrng.integers(2, 5))],
                            ["method", ("unity", "eigen", "adapt")[int(nrng.integers(0, 3))]]][int(nrng.integers(0, 3))])
                pending = True
            elif u == 13:
                ops.append(["attrs"])
            elif u == 14:
                ops.append(["bogus", ["call", "read"][int(nrng.integers(0, 2))]])
            else:
                ops.append(["call"])
        if pending:
            ops.append(["run"])
        p.update(ops=ops, family="random")
        yield ("history", p)


# --------------------------------------------------------------------------------------------------
# supplied tapers, square and nearly square

_TKINDS = ["noise", "tone", "trend", "int", "intdtype", "czero", "list", "const", "dyn"]
_TNW = [2.5, 4.0, 5, 3.0, 6.5, 7.0, 3.5, 6]


def _made_up(nrng, k):
    """'eigenvalues' for tapers that are not Slepian sequences: any numbers in (0, 1], in no particular order, the smallest
    at most 0.9 (so that the recovery of the spectrum behind the adaptive weights is active), now and then one exactly 1"""
    e = nrng.uniform(0.05, 1.0, k)
    if nrng.integers(0, 2):
        e[int(nrng.integers(0, k))] = 1.0
    if np.min(e) > 0.9:
        e[int(np.argmin(e))] = 0.5
    return e


def _no_pass(p):
    """does the adaptive loop stop before its first pass on this case?  (Parseval: sum_f S_j = NFFT * sum_n v_j[n]^2 |x[n]|^2)"""
    x = np.asarray(p["x"])
    v, e = _given(p)
    a2 = np.abs(x.astype(complex)) ** 2
    s0 = p["nfft"] * float(np.sum((v[:, 0] ** 2 + v[:, 1] ** 2) / 2 * a2))
    return s0 <= 0.0005 * float(np.sum(a2)) / len(x) * (1 + 1e-6)


def _taper_source(nrng, source, N, NW, k):
    """(params, eigenvalue tag) for one way of obtaining an N x k taper matrix in the documented one-taper-per-column layout"""
    if source == "spectrum":
        return {"source": "spectrum", "NW": NW, "k": k}, "dpss"
    if source == "scipy":
        # an independent construction of the same sequences; its natural result is k x N (one taper per ROW): the caller
        # transposes it to the documented layout
        from scipy.signal.windows import dpss as sdpss
        kk = k if k is not None else int(max(min(round(2 * NW), N), 1))
        w, r = sdpss(N, NW, kk, return_ratios=True)
        v = np.ascontiguousarray(np.asarray(w).T)
        r = np.asarray(r, dtype=float)
        if np.min(r) > 0:
            return {"source": "scipy", "NW": NW, "k": kk, "v": v, "e": r}, "ratios"
        return {"source": "scipy", "NW": NW, "k": kk, "v": v, "e": _made_up(nrng, kk)}, "made-up"
    if source == "orth":
        # any orthonormal set: k columns of a random orthogonal matrix
        q, _ = np.linalg.qr(nrng.standard_normal((N, N)))
        return {"source": "orth", "NW": None, "k": k, "v": np.ascontiguousarray(q[:, :k]), "e": _made_up(nrng, k)}, "made-up"
    # 'unit': unit-energy columns that are not orthogonal (the only possibility for more tapers than samples)
    v = nrng.standard_normal((N, k))
    v = v / np.sqrt(np.sum(v ** 2, axis=0))[None, :]
    return {"source": "unit", "NW": None, "k": k, "v": v, "e": _made_up(nrng, k)}, "made-up"


def _gen_tapers(nrng, tier):
    thorough = tier != "quick"
    if thorough:
        Ns = list(range(16, 25)) + [31, 32, 33, 40]
    else:
        Ns = [16] + sorted(int(t) for t in nrng.choice(np.arange(17, 25), 3, replace=False))
    r0 = int(nrng.integers(0, 12))
    c = r0
    methods = ("unity", "eigen", "adapt")

    def case(N, NW, k, nfft, method, source):
        nonlocal c
        c += 1
        cplx = bool((c // 2 + c // 7) % 2)
        x, dk = gen_data(nrng, N, cplx, kind=_TKINDS[(c + c // 9) % len(_TKINDS)])
        src, eig = _taper_source(nrng, source, N, NW, k)
        p = {"x": _inp(x, dk, np.iscomplexobj(x)), "nfft": nfft, "method": method, "dkind": dk, "eig": eig,
             "vlayout": _TLAYOUTS[(c + c // 4) % len(_TLAYOUTS)], "supplied": True}
        p.update(src)
        if False and method == "adapt" and _no_pass(p):
            # formerly PENDING-FINDING (D34, fixed in the library: the first pass is always made): when the first two tapers miss the record's energy (sum_f (S_0+S_1)/2 <= 0.0005 * mean power; here a
            # wide-dynamic-range record whose dominant sample sits where tapers 0 and 1 vanish, NW near N/2) the adaptive loop
            # makes no pass at all (its first comparison is against S1 = 0) and returns the start weights = eigenvalues, which
            # fail the acceptance rule; also pmtm(impulse at sample 0, N=64, NW=4, k=8) (/tmp/finding_C19.py, F1)
            x, dk = gen_data(nrng, N, cplx, kind="noise")
            p.update(x=x, dkind=dk)
        return ("tapers", p)

    for ni, N in enumerate(Ns):
        # (1) explicit k: as many tapers as samples, one fewer, one more; NFFT = N, N + 1, 2N (so NFFT = N = k, NFFT = k = N + 1 occur)
        shapes = [(N, N), (N, N + 1), (N, 2 * N), (N - 1, N), (N - 1, 2 * N - 1), (N + 1, N + 1), (N + 1, 2 * N)]
        if thorough:
            shapes += [(N, N + 7), (N - 1, N + 1), (N + 1, N), (N - 2, N), (N + 2, N + 2)]
        for si, (k, nfft) in enumerate(shapes):
            for mi, method in enumerate(methods):
                NW = [t for t in _TNW if t < N / 2.0][(si + mi + ni + r0) % len([t for t in _TNW if t < N / 2.0])]
                source = "unit" if k > N else ("spectrum", "scipy", "orth")[(si + ni + mi + r0) % 3]
                if source == "spectrum" and method == "adapt" and np.min(_tapers(N, NW, k)[1]) <= 0:
                    # RULING (k > 2NW is outside C18's quantifier for the ratios; the adaptive interval [0, 1/eigenvalue] needs a
                    # positive eigenvalue): for k far above 2NW dpss returns a concentration ratio that is not positive (about -1e-16,
                    # true value ~1e-25), e.g. dpss(16, 2.5, 16), dpss(20, 3, 20): the adaptive weight of that taper is
                    # eigenvalue * b^2 <= 0 and the interval [0, 1/eigenvalue] is empty (/tmp/finding_C19.py)
                    source = "scipy"
                yield case(N, NW, k, nfft, method, source)
        # (2) default k with NW within 1/2 of its upper bound N/2: k = min(round(2NW), N) is N or N - 1
        for di, d in enumerate((0.25, 0.1, 0.4) if not thorough else (0.25, 0.1, 0.4, 0.01, 0.3, 0.49)):
            for mi, method in enumerate(methods):
                nfft = [N, 2 * N, N + 1, 2 * N + 1][(di + mi + ni + r0) % 4]
                yield case(N, N / 2.0 - d, None, nfft, method, ("spectrum", "scipy")[(di + mi + ni + r0) % 3 == 2])


def gen(rng, nrng, tier):
    yield from single.gen("C19", nrng, tier)
    thorough = tier != "quick"
    for i in range(6 if tier == "quick" else 60):
        cplx = bool(i % 2)
        N = int(nrng.integers(32, 100))
        x, dk = gen_data(nrng, N, cplx, kind="noise")
        changes = [[("NW", 4.0), ("k", 3)], [("k", 3), ("NW", 3.0), ("method", "eigen")], [("method", "unity"), ("k", 2)]][i % 3]
        yield ("reuse", {"x": np.asarray(x), "NW": 2.5, "k": 4, "nfft": 2 * N, "method": ["adapt", "unity", "eigen"][i % 3], "changes": changes})
    # wide bands: the leading concentration ratios are 1 to rounding (tied / not monotone as floats, up to 1 + 4e-16); tapers
    # supplied by the caller must be used in the caller's order.  Data whose spectrum stays well above 1e-6 of the mean power
    # at every frequency (see the PENDING-FINDING below for a constant record)
    wkinds = ["noise", "tone", "trend", "int", "czero"]
    for i in range(9 if tier == "quick" else 90):
        cplx = bool(i % 2)
        N = [16, 24, 40, 64][i % 4]
        NW = [6.0, 7.5, 8.0, 7.0][i % 4] if N > 16 else 6.0
        x, dk = gen_data(nrng, N, cplx, kind=wkinds[(i // 2) % 5] if i >= 4 else "noise")
        yield ("pmtm", {"x": x, "NW": NW, "k": [int(2 * NW) - 1, 6, None][i % 3], "nfft": [N, 2 * N, N + 3][i % 3],
                        "method": ["unity", "eigen", "adapt"][i % 3], "supplied": True, "dkind": dk})
    # NW >= 7 under adaptive weighting: bounds [0, 1/eigenvalue] with eigenvalues 1 to rounding (1 + 4e-16 occurs)
    for i in range(10 if tier == "quick" else 40):
        cplx = bool((i // 2) % 2)
        N, NW = [(64, 7.0), (128, 8.0), (40, 7.5), (64, 8.0), (100, 7.0)][i % 5]
        x, dk = gen_data(nrng, N, cplx, kind=wkinds[(i + i // 5) % 5])
        yield ("pmtm", {"x": x, "NW": NW, "k": [None, int(2 * NW) - 1, int(2 * NW)][(i // 5) % 3], "nfft": [N, 2 * N + 1, N + 4][i % 3],
                        "method": "adapt", "supplied": bool(i % 2), "dkind": dk})
    if True:  # formerly PENDING-FINDING (fixed in the library, D30): constant record, NW=7: dpss gives eigenvalue 1+4.4e-16, adaptive weights reached 8.7 > 1/eigenvalue
        for cplx in (False, True):
            yield ("pmtm", {"x": np.full(64, 3.0) + (2j if cplx else 0), "NW": 7.0, "k": None, "nfft": 128, "method": "adapt",
                            "supplied": False, "dkind": "const"})
        yield ("pmtm", {"x": np.full(128, 1.0), "NW": 8.0, "k": 14, "nfft": 256, "method": "adapt", "supplied": False, "dkind": "const"})
    # k > 2NW, NW <= 1, integer NW, N = 16 with 8 tapers
    gkinds = ["noise", "tone", "const", "trend", "int", "czero", "intdtype", "list", "dyn"]
    for r in range(2 if tier == "quick" else 6):
        for g, (N, NW, k, nfft) in enumerate(GRID):
            for mi, m in enumerate(["unity", "eigen", "adapt"]):
                if m == "adapt" and k == 1:
                    continue
                c = r * 24 + g * 3 + mi
                cplx = bool((g + mi + r) % 2)
                x, dk = gen_data(nrng, N, cplx, kind=gkinds[(c + c // 9) % 9])
                yield ("pmtm", {"x": _inp(x, dk, cplx), "NW": NW, "k": k, "nfft": nfft, "method": m, "supplied": bool((c // 2) % 2),
                                "dkind": dk})
    # NFFT and method left to their defaults
    for r in range(1 if tier == "quick" else 4):
        for g, N in enumerate(DEFAULT_N):
            cplx = bool((g + r) % 2)
            x, dk = gen_data(nrng, N, cplx, kind=["noise", "tone", "trend", "int"][(g + r) % 4])
            yield ("defaults", {"x": x, "NW": 2.5, "k": 3, "dkind": dk})
    # the cap of the adaptive loop: a pure complex tone of 1024 samples keeps the iteration going for exactly 100 passes
    yield ("pmtm_long", {"x": np.exp(2j * np.pi * 0.2 * np.arange(1024)), "NW": 4, "k": 10, "nfft": 1024, "method": "adapt",
                         "supplied": False, "dkind": "puretone", "expect_passes": 100})
    lkinds = ["noise", "tone", "trend", "int", "czero", "intdtype"]
    for i, N in enumerate([777, 1000, 1024, 1024, 1000, 777] if thorough else [1000, 777, 1024]):
        for mi, m in enumerate(["adapt", "unity", "eigen"]):
            if not thorough and mi != i:
                continue                       # quick: one method per length, oracle only
            c = 3 * i + mi
            cplx = bool((i + mi) % 2)
            NW = [2.5, 4.0, 3.5, 3.0][c % 4]
            x, dk = gen_data(nrng, N, cplx, kind=lkinds[(c + c // 6) % 6])
            yield ("pmtm" if (thorough and i == 0) else "pmtm_long",
                   {"x": x, "NW": NW, "k": [None, int(2 * NW) - 1, int(2 * NW) + 2][(c // 4) % 3], "nfft": [N, N + 1, 2 * N][(c // 2) % 3],
                    "method": m, "supplied": bool(c % 2), "dkind": dk})
    n = 60 if tier == "quick" else 800
    methods = ["unity", "eigen", "adapt"]
    kinds = ["noise", "tone", "intdtype", "list", "dyn", "const", "trend", "czero", "int"]
    for i in range(n):
        cplx = bool(nrng.integers(0, 2))
        N = int(nrng.integers(16, 129 if tier == "quick" else 513))
        kind = kinds[(i + i // 9) % len(kinds)]
        x, dk = gen_data(nrng, N, cplx, kind=kind)
        if dk == "dyn":
            x = np.asarray(x) * 2.0 ** int(nrng.integers(-10, 11))
        NW = [1.5, 2.0, 2.5, 3.0, 4.0][i % 5] if i % 4 else [1.25, 2.25, 3.25, 2.75, 3.5, 1.75][(i // 4) % 6]
        kmax = int(2 * NW)
        k = [None, kmax, max(2, kmax - 1), 2][i % 4]
        if i % 9 == 4 and methods[i % 3] != "adapt":
            k = 1            # a single taper
        nfft = [N, N + 1, 2 * N, 2 * N + 1, N + 7][(i + i // 5) % 5]
        yield ("pmtm", {"x": _inp(x, dk, cplx), "NW": NW, "k": k,
                        "nfft": nfft, "method": methods[i % 3], "supplied": bool(i % 2), "dkind": dk})
    # operation histories on one object (last: the random streams of the cases above are as they were)
    yield from _gen_history(nrng, tier)
    # supplied tapers whose shape does not tell their layout (after the histories: the streams above are as they were)
    yield from _gen_tapers(nrng, tier)
