"""C13  Burg models are stable, nested and minimise forward+backward error."""
import numpy as np

import single

import proto
from common import gen_data, rel

TRUSTED_BASE = [
    "the order-selection criteria use numpy.log; the model's criterion formulas are evaluated in doubles (float mode)",
    "exact mode (no criterion): model in exact Gaussian rationals on dyadic data, rtol 1e-8; float mode otherwise, rtol 1e-7",
]
PARTIAL = []   # stability: C13.burg_stable (closed disc for |k_i| <= 1, open disc when all |k_i| < 1)
ASSUMPTIONS = ["non-degenerate prediction error: every stage variance rho_k >= 1e-9 * rho_0 (otherwise the case is skipped and counted)",
               "AICc / AKICc divide by N-k-2: order N-2 with those criteria is outside the domain"]
RULE = ("real/complex data (noise, tones in noise, integer, zero-interleaved integer, trends) of length 4..24 (orders <= 6) exact / ..200 "
        "float x orders 1..min(N-2,30) x criteria in {None, AIC, AICc, KIC, FPE, AKICc, MDL}; non-trivial = order >= 2")

CRITS = ["AIC", "AICc", "KIC", "FPE", "AKICc", "MDL"]


def _sp():
    import spectrum
    return spectrum


def c(v):
    return np.asarray(v).astype(complex).ravel()


def burg_ref(x, p):
    """independent straight-line Burg: returns reflection coefficients, variances and the stage errors"""
    x = np.asarray(x, dtype=complex)
    ef = x.copy()
    eb = x.copy()
    ks = []
    rho = float(np.mean(np.abs(x) ** 2))
    rhos = [rho]
    stages = []
    for m in range(p):
        efp = ef[1:]
        ebp = eb[:-1]
        den = np.sum(np.abs(efp) ** 2) + np.sum(np.abs(ebp) ** 2)
        k = -2 * np.sum(efp * np.conj(ebp)) / den
        stages.append((efp.copy(), ebp.copy()))
        ef = efp + k * ebp
        eb = ebp + np.conj(k) * efp
        ks.append(k)
        rho = rho * (1 - abs(k) ** 2)
        rhos.append(rho)
    return np.array(ks), rhos, stages


def impl_burg(p):
    a, rho, k = _sp().arburg(p["x"], p["order"], p["crit"])
    return [c(a), c([rho]), c(k)]


def model_burg(p):
    mode = "Q" if (p["crit"] is None and p.get("exact")) else "F"
    return (mode, proto.request("burg", mode, [p["order"], p["crit"] or "none"], [np.asarray(p["x"])]))


def oracle_burg(p):
    sp = _sp()
    x = np.asarray(p["x"])
    N = len(x)
    order = p["order"]
    out = []
    tol = 1e-7
    a, rho, k = sp.arburg(x, order, p["crit"])
    a, k = c(a), c(k)
    q = len(a)
    if len(k) != q:
        out.append("arburg returned %d AR coefficients and %d reflection coefficients" % (q, len(k)))
        return out
    if q > order:
        out.append("arburg returned order %d > requested %d" % (q, order))
    if p["crit"] is None and q != order:
        out.append("arburg without criterion returned order %d for requested %d" % (q, order))
    kr, rhos, stages = burg_ref(x, q)
    if np.any(np.abs(k) > 1 + 1e-12):
        out.append("reflection coefficient of modulus > 1")
    # returned AR vector is the step-up polynomial of the returned reflection coefficients
    if q >= 1:
        from spectrum.linear_prediction import rc2poly
        ap = c(rc2poly(k)[0])[1:]
        if rel(ap, a) > tol:
            out.append("AR vector is not the step-up polynomial of the reflection coefficients (order %d): %.2e" % (q, rel(ap, a)))
        roots = np.roots(np.concatenate(([1], a)))
        if np.max(np.abs(roots)) > 1 + 1e-9:
            out.append("Burg polynomial not stable: max|root| = %.8f" % np.max(np.abs(roots)))
    r0 = float(np.mean(np.abs(x) ** 2))
    if abs(rho - r0 * np.prod(1 - np.abs(k) ** 2)) > tol * r0:
        out.append("variance %r != mean|x|^2*prod(1-|k_i|^2) = %r (order %d, criterion %s)" % (
            rho, r0 * np.prod(1 - np.abs(k) ** 2), q, p["crit"]))
    # result is exactly the Burg model of order q (also with a criterion), and nested in the order-p one
    if rel(k, kr) > tol:
        out.append("reflection coefficients differ from the order-%d Burg model (criterion %s): %.2e" % (q, p["crit"], rel(k, kr)))
    if q >= 1:
        a2, rho2, k2 = sp.arburg(x, q)
        if rel(c(a2), a) > tol or abs(rho2 - rho) > tol * r0:
            out.append("result with criterion %s is not the Burg model of order %d (rho %r vs %r)" % (p["crit"], q, rho, rho2))
    else:
        if abs(rho - r0) > tol * r0:
            out.append("order-0 result: rho %r != mean|x|^2 %r" % (rho, r0))
    if p["crit"] is None and order >= 2:
        qq = p.get("q", 1)
        a3, rho3, k3 = sp.arburg(x, qq)
        if rel(c(k3), k[:qq]) > tol:
            out.append("order-%d reflection coefficients are not a prefix of the order-%d ones" % (qq, order))
        if rho3 < rho - tol * r0:
            out.append("variance increases with the order: rho_%d=%r < rho_%d=%r" % (qq, rho3, order, rho))
    # each k_i minimises the summed forward+backward energy of its stage
    for i, (efp, ebp) in enumerate(stages[: len(k)]):
        D = np.sum(np.abs(efp) ** 2) + np.sum(np.abs(ebp) ** 2)
        if D <= 1e-12 * r0 * N:
            break

        def E(kap):
            return np.sum(np.abs(efp + kap * ebp) ** 2) + np.sum(np.abs(ebp + np.conj(kap) * efp) ** 2)
        e0 = E(k[i])
        for dk in (0.01, -0.01, 0.01j, -0.01j, 0.2, -0.3j):
            if E(k[i] + dk) < e0 - 1e-9 * D:
                out.append("k_%d = %r does not minimise the stage energy: E(k)=%.10g > E(k%+r)=%.10g" % (i + 1, k[i], e0, dk, E(k[i] + dk)))
                break
        else:
            continue
        break
    # the vectorised private variant agrees
    if p["crit"] is None:
        try:
            from spectrum.burg import _arburg2
            a4, e4, k4 = _arburg2(x, order)
            if rel(c(k4), k) > 1e-6:
                out.append("_arburg2 reflection coefficients differ from arburg")
        except Exception:
            pass
    return out


def _key(p):
    x = np.asarray(p["x"])
    return "%d|%d|%s|%s|%d" % (len(x), p["order"], p["crit"], np.iscomplexobj(x), hash(x.tobytes()) & 0xFFFFFF)


KINDS = {
    "burg": {"impl": impl_burg, "model": model_burg, "oracle": oracle_burg, "rtol": 1e-7, "atol": 1e-300, "key": _key,
             "nontrivial": lambda p: p["order"] >= 2,
             "tags": lambda p: ["complex" if np.iscomplexobj(p["x"]) else "real", "crit:%s" % p["crit"], "data:" + p["dkind"],
                                "mode:" + ("Q" if (p["crit"] is None and p.get("exact")) else "F")]},
}


def _well_conditioned(x, order):
    _, rhos, _ = burg_ref(x, order)
    return min(rhos) >= 1e-9 * rhos[0] and rhos[0] > 0


def _mk(nrng, N, cplx, kind, exact):
    if kind == "zerointer":
        x = np.zeros(N)
        x[::2] = nrng.integers(-8, 9, len(x[::2]))
        if not np.any(x):
            x[0] = 3
        if cplx:
            x = x + 1j * np.where(np.arange(N) % 2 == 0, nrng.integers(-8, 9, N), 0)
        return np.asarray(x, dtype=complex if cplx else float)
    x, _ = gen_data(nrng, N, cplx, kind=kind, exact=exact)
    return np.asarray(x, dtype=complex if cplx else float)


KINDS["single"] = single.kind("C13")

def gen(rng, nrng, tier):
    yield from single.gen("C13", nrng, tier)
    for N in ((256, 300) if tier == "quick" else (256, 257, 300, 513, 1000)):   # long records
        for cplx in (False, True):
            x = _mk(nrng, N, cplx, "tone", False)
            order = int(nrng.integers(2, 13))
            if _well_conditioned(x, order):
                yield ("burg", {"x": x, "order": order, "crit": [None, "AIC", "MDL"][N % 3], "exact": False, "dkind": "tone", "q": 1})
    for i, sc in enumerate((1e-6, 1e-9, 1e6, 2.0 ** -40) if tier == "quick" else (1e-3, 1e-6, 1e-8, 1e-9, 1e-12, 1e6, 1e9, 2.0 ** -40)):
        for cplx in (False, True):      # the estimator is homogeneous: every clause must hold at any amplitude
            x = sc * _mk(nrng, int(nrng.integers(6, 40)), cplx, ["noise", "tone"][i % 2], False)
            order = int(nrng.integers(1, 5))
            if _well_conditioned(x, order):
                yield ("burg", {"x": x, "order": order, "crit": None, "exact": False, "dkind": "scaled", "q": 1})
    for i in range(10 if tier == "quick" else 100):      # the largest admissible order, N - 2
        cplx = bool(i % 2)
        N = int(nrng.integers(4, 14))
        x = _mk(nrng, N, cplx, "noise", False)
        if _well_conditioned(x, N - 2):
            yield ("burg", {"x": x, "order": N - 2, "crit": None, "exact": False, "dkind": "noise", "q": 1})
    n = 220 if tier == "quick" else 3000
    kinds = ["noise", "tone", "int", "zerointer", "trend"]
    skipped = 0
    for i in range(n):
        cplx = bool(nrng.integers(0, 2))
        exact = (i % 3 == 0)
        N = int(nrng.integers(4, 25 if exact else (81 if tier == "quick" else 201)))
        kind = kinds[i % len(kinds)]
        x = _mk(nrng, N, cplx, kind, exact)
        crit = None if i % 2 == 0 else CRITS[(i // 2) % len(CRITS)]
        omax = min(N - 2, 6 if exact else 30)   # exact rationals roughly triple in size per Burg stage
        if crit in ("AICc", "AKICc"):
            omax = min(omax, N - 3)
        if omax < 1:
            continue
        order = int(nrng.integers(1, omax + 1))
        if not _well_conditioned(x, order):
            skipped += 1
            continue
        yield ("burg", {"x": x, "order": order, "crit": crit, "exact": exact, "dkind": kind,
                        "q": int(nrng.integers(1, order + 1))})
