"""C13  Burg models are stable, nested and minimise forward+backward error."""
import numpy as np

import single

import proto
from common import gen_data, rel

TRUSTED_BASE = [
    "the order-selection criteria use numpy.log; the model's criterion formulas are evaluated in doubles (float mode)",
    "exact mode (no criterion): model in exact Gaussian rationals on dyadic data, rtol 1e-8; float mode otherwise, rtol 1e-7",
    "model comparison on ill-conditioned records (conditioning < 9.1e-6, see ASSUMPTIONS): tolerance 4096*eps/conditioning instead of "
    "1e-7 (post_burg); derived records outside the domain are not compared",
    "class entry point: pburg(x, order, criteria, NFFT=64)() is read at .ar/.rho/.reflection, required equal to arburg at 1e-12 and fed to "
    "the same clauses (independent direct-sum reference burg_ref, written in the oracle)",
    "container / dtype cases (int64, int8, list, list of complex): same (a, rho, k) as for the float64 array at 1e-12; the float64 result "
    "itself is checked against the reference by the sibling 'burg' case",
    "re-use histories (burg_history): the configuration an object is documented to hold after a sequence of assignments is replayed on a "
    "plain dict in the oracle (last assigned value of criteria / ar_order / data / NFFT / sampling / scale_by_freq); .ar/.rho/.reflection "
    "after every p() / p.run() / .psd read are required equal to arburg(current data, current order, current criteria) at 1e-12 (same "
    "code path: 0 observed on the unchanged tree), the final state goes through the same clauses as a fresh object, and the final psd "
    "is compared with a fresh object of the final configuration at 1e-12 (0 observed)",
]
PARTIAL = []   # stability: C13.burg_stable (closed disc for |k_i| <= 1, open disc when all |k_i| < 1)
ASSUMPTIONS = ["non-degenerate prediction error := conditioning >= 1e-9, where conditioning = min over the stages k of rho_k/rho_0 and of the "
               "stage's mean forward+backward error energy D_k/(2 N rho_0), both from the direct-sum reference (a stage with D_k = 0 has "
               "k = 0/0: degenerate; e.g. [0,0,z,0,0] at order 3).  Generated records outside are skipped; records derived by vcheck.vary "
               "outside are tagged out-of-domain and not evaluated",
               "the whole declared range is generated ('clean' data: 1-2 sinusoids + noise sigma 10^U(-4.3,-1.5) reach conditioning 2e-9). "
               "The domain is NOT shrunk: |k|<=1, stability, step-up, rho-product, rho against the reference, nesting, stage optimality "
               "keep their fixed tolerances; only the value agreement of k / a with the direct-sum formulations (burg_ref, _arburg2, and "
               "the model in the correspondence run) has the tolerance max(base, 4096*eps/conditioning) (round-off of Marple's recursively "
               "updated denominator; observed <= 315*eps*rho_0/min rho_k on 20000 records): equal to the base tolerance whenever the "
               "conditioning is >= 9.1e-6 (base 1e-7) / 9.1e-4 (base 1e-9, _arburg2)",
               "AICc / AKICc divide by N-k-2: order N-2 (and above) with those criteria is outside the domain",
               "order = N is accepted by the code but executes 0/round-off in its last stage: not generated (orders 1..N-1 are; order 0 and "
               "N+1 are correspondence cases: ValueError in code and model)"]
RULE = ("real/complex data (noise, tones in noise, clean tones, AR(2)/AR(4) processes, integer, zero-interleaved integer, trends) of length "
        "4..24 (orders <= 6) exact / ..200 float x orders 1..min(N-2,30), plus orders N-2 and N-1 for N 3..14, x criteria in {None, AIC, "
        "AICc, KIC, FPE, AKICc, MDL}; function and class entry point (array, list); non-trivial = returned model has len(a) >= 2; "
        "re-use histories on ONE pburg object (AR(2)/AR(4)/tone/noise records of length 20..100, orders 2..16): run once (criterion "
        "usually stops early), then 1-2 rounds that assign every subset of {criteria (plain attribute; None or a name), ar_order (same / "
        "other), data (same / other realisation / other length / other kind, array or list), NFFT, sampling, scale_by_freq} in random "
        "order, optionally interleaved with a second pburg object, a rejected ar_order and a failing run on too-short data, each round "
        "ended by p() / p.run() / a .psd read; all clauses on the final configuration")

CRITS = ["AIC", "AICc", "KIC", "FPE", "AKICc", "MDL"]


def _sp():
    import spectrum
    return spectrum


def c(v):
    return np.asarray(v).astype(complex).ravel()


def burg_ref(x, p):
    """independent straight-line Burg: returns reflection coefficients, variances and the stage errors"""
    x = np.asarray(x, dtype=complex)
    ef = x.copy()
    eb = x.copy()
    ks = []
    rho = float(np.mean(np.abs(x) ** 2))
    rhos = [rho]
    stages = []
    for m in range(p):
        efp = ef[1:]
        ebp = eb[:-1]
        den = np.sum(np.abs(efp) ** 2) + np.sum(np.abs(ebp) ** 2)
        k = -2 * np.sum(efp * np.conj(ebp)) / den
        stages.append((efp.copy(), ebp.copy()))
        ef = efp + k * ebp
        eb = ebp + np.conj(k) * efp
        ks.append(k)
        rho = rho * (1 - abs(k) ** 2)
        rhos.append(rho)
    return np.array(ks), rhos, stages


EPS = float(np.finfo(float).eps)
_CACHE = {}


def _lib(p):
    """arburg on the case's data (memo of the last few cases: `nontrivial`, `tags` and the oracle all need the selected order);
    returns ("ok", a, rho, k) or ("err", exception)"""
    x = np.asarray(p["x"])
    key = (x.tobytes(), str(x.dtype), p["order"], p["crit"])
    if key not in _CACHE:
        if len(_CACHE) > 8:
            _CACHE.clear()
        try:
            a, rho, k = _sp().arburg(x, p["order"], p["crit"])
            _CACHE[key] = ("ok", c(a), rho, c(k))
        except Exception as e:      # noqa: BLE001 - re-raised by the oracle
            _CACHE[key] = ("err", e)
    return _CACHE[key]


def _qsel(p):
    r = _lib(p)
    return len(r[1]) if r[0] == "ok" else -1


def conditioning(N, kr, rhos, stages):
    """the conditioning of a record for a Burg model: the smallest, over the stages, of rho_k / rho_0 and of the stage's mean
    forward+backward error energy D_k / (2 N rho_0), from the direct-sum reference; 0.0 when a stage is 0/0 (both error vectors vanish)"""
    r0 = rhos[0]
    if not (r0 > 0) or not np.all(np.isfinite(kr)) or not np.all(np.isfinite(rhos)):
        return 0.0
    d = [float(np.sum(np.abs(f) ** 2) + np.sum(np.abs(b) ** 2)) / (2 * N * r0) for f, b in stages]
    return float(min([r / r0 for r in rhos] + d))


DOMAIN = 1e-9       # ASSUMPTIONS: non-degenerate prediction error


def in_domain(x, order):
    kr, rhos, stages = burg_ref(x, order)
    return conditioning(len(x), kr, rhos, stages) >= DOMAIN


def cond_tol(base, ratio):
    """tolerance of the VALUE agreement between the library (Marple's recursively updated denominator) and a direct-sum formulation:
    the recursion loses eps * D_0 / D_k relative accuracy in the denominator of stage k; `base` whenever that is smaller"""
    return max(base, 4096 * EPS / max(ratio, DOMAIN))


def impl_burg(p):
    a, rho, k = _sp().arburg(p["x"], p["order"], p["crit"])
    return [c(a), c([rho]), c(k)]


def model_burg(p):
    mode = "Q" if (p["crit"] is None and p.get("exact")) else "F"
    return (mode, proto.request("burg", mode, [p["order"], p["crit"] or "none"], [np.asarray(p["x"])]))


def post_burg(p, iv, mv):
    """model against implementation, per case:
    * records derived by vcheck.vary (zeroed end samples of a zero-interleaved record, ...) may have a stage whose forward and backward
      errors vanish identically: the reflection coefficient is 0/0 there, outside the property's domain; nothing is compared then;
    * the float-mode model is the same recursion in doubles with another summation order, the exact-mode model has no round-off: on
      records of small conditioning (low-noise sinusoids; a dominant DC / Nyquist tone added by vcheck.vary at an order close to N) the
      two differ by the round-off of the recursive denominator.  The comparison tolerance is cond_tol(1e-7, conditioning); the kind's
      rtol is 1e-7, so the difference is rescaled by 1e-7 / cond_tol (factor 1, i.e. nothing changes, whenever the conditioning is
      >= 9.1e-6: every generated noise / tone / integer / zero-interleaved / trend / AR(2) record at orders <= N-2 has conditioning
      >= 1.4e-5 on three thorough seeds; below are clean tones, a few AR(4) and order N-1 records and a few derived dc / nyq records)"""
    if p.get("variant") and not in_domain(p["x"], p["order"]):
        return [], []
    if len(iv) != len(mv) or any(np.shape(i) != np.shape(m) for i, m in zip(iv, mv)):
        return iv, mv
    f = 1e-7 / cond_tol(1e-7, conditioning(len(p["x"]), *burg_ref(p["x"], len(iv[0]))))
    if f >= 1:
        return iv, mv
    return [np.asarray(m) + (np.asarray(i) - np.asarray(m)) * f for i, m in zip(iv, mv)], mv


def clauses(p, a, rho, k, who="arburg"):
    """the property statement evaluated on one returned triple (a, rho, k) for data p["x"], requested order p["order"], criterion p["crit"]"""
    sp = _sp()
    x = np.asarray(p["x"])
    N = len(x)
    order = p["order"]
    out = []
    tol = 1e-7
    a, k = c(a), c(k)
    q = len(a)
    if len(k) != q:
        out.append("%s returned %d AR coefficients and %d reflection coefficients" % (who, q, len(k)))
        return out
    if q > order:
        out.append("%s returned order %d > requested %d" % (who, q, order))
    if p["crit"] is None and q != order:
        out.append("%s without criterion returned order %d for requested %d" % (who, q, order))
    kr, rhos, stages = burg_ref(x, q)
    ratio = conditioning(N, kr, rhos, stages)
    tolv = cond_tol(tol, ratio)         # == tol unless the conditioning is < 9.1e-6
    if np.any(np.abs(k) > 1 + 1e-12):
        out.append("reflection coefficient of modulus > 1")
    # returned AR vector is the step-up polynomial of the returned reflection coefficients
    if q >= 1:
        from spectrum.linear_prediction import rc2poly
        ap = c(rc2poly(k)[0])[1:]
        if rel(ap, a) > tol:
            out.append("AR vector is not the step-up polynomial of the reflection coefficients (order %d): %.2e" % (q, rel(ap, a)))
        # independent step-up (Levinson recursion written here)
        al = np.zeros(0, dtype=complex)
        for kk in k:
            al = np.concatenate((al + kk * np.conj(al[::-1]), [kk]))
        if rel(al, a) > tol:
            out.append("AR vector is not the step-up polynomial of the reflection coefficients (order %d, numpy step-up): %.2e" % (
                q, rel(al, a)))
        roots = np.roots(np.concatenate(([1], a)))
        if np.max(np.abs(roots)) > 1 + 1e-9:
            out.append("Burg polynomial not stable: max|root| = %.8f" % np.max(np.abs(roots)))
    r0 = float(np.mean(np.abs(x) ** 2))
    if abs(rho - r0 * np.prod(1 - np.abs(k) ** 2)) > tol * r0:
        out.append("variance %r != mean|x|^2*prod(1-|k_i|^2) = %r (order %d, criterion %s)" % (
            rho, r0 * np.prod(1 - np.abs(k) ** 2), q, p["crit"]))
    # result is exactly the Burg model of order q (also with a criterion), and nested in the order-p one
    if rel(k, kr) > tolv:
        out.append("reflection coefficients differ from the order-%d Burg model (criterion %s): %.2e (tol %.1e)" % (
            q, p["crit"], rel(k, kr), tolv))
    if abs(rho - rhos[-1]) > tol * r0:
        out.append("variance %r differs from the one of the order-%d Burg model %r" % (rho, q, rhos[-1]))
    if q >= 1:
        a2, rho2, k2 = sp.arburg(x, q)
        if rel(c(a2), a) > tol or abs(rho2 - rho) > tol * r0:
            out.append("result with criterion %s is not the Burg model of order %d (rho %r vs %r)" % (p["crit"], q, rho, rho2))
    else:
        if abs(rho - r0) > tol * r0:
            out.append("order-0 result: rho %r != mean|x|^2 %r" % (rho, r0))
    if p["crit"] is None and order >= 2:
        qq = p.get("q", 1)
        a3, rho3, k3 = sp.arburg(x, qq)
        if rel(c(k3), k[:qq]) > tol:
            out.append("order-%d reflection coefficients are not a prefix of the order-%d ones" % (qq, order))
        if rho3 < rho - tol * r0:
            out.append("variance increases with the order: rho_%d=%r < rho_%d=%r" % (qq, rho3, order, rho))
    # each k_i minimises the summed forward+backward energy of its stage
    for i, (efp, ebp) in enumerate(stages[: len(k)]):
        D = np.sum(np.abs(efp) ** 2) + np.sum(np.abs(ebp) ** 2)
        if D <= 1e-12 * r0 * N:
            break

        def E(kap):
            return np.sum(np.abs(efp + kap * ebp) ** 2) + np.sum(np.abs(ebp + np.conj(kap) * efp) ** 2)
        e0 = E(k[i])
        for dk in (0.01, -0.01, 0.01j, -0.01j, 0.2, -0.3j):
            if E(k[i] + dk) < e0 - 1e-9 * D:
                out.append("k_%d = %r does not minimise the stage energy: E(k)=%.10g > E(k%+r)=%.10g" % (i + 1, k[i], e0, dk, E(k[i] + dk)))
                break
        else:
            continue
        break
    # the vectorised private variant (direct sums, kept in the code base as the independent formulation) agrees in a, rho and k
    if p["crit"] is None:
        from spectrum.burg import _arburg2
        a4, e4, k4 = _arburg2(x, order)
        a4, k4 = c(a4), c(k4)
        tol4 = cond_tol(1e-9, ratio)    # == 1e-9 unless the conditioning is < 9.1e-4 (<= 1.2e-8 on the formerly generated range >= 8e-5)
        if len(a4) != q + 1 or a4[0] != 1:
            out.append("_arburg2: AR polynomial of length %d, leading coefficient %r (order %d)" % (len(a4), a4[:1], order))
        elif rel(a4[1:], a) > tol4:
            out.append("_arburg2 AR coefficients differ from %s: %.2e (tol %.1e)" % (who, rel(a4[1:], a), tol4))
        if rel(k4, k) > tol4:
            out.append("_arburg2 reflection coefficients differ from %s: %.2e (tol %.1e)" % (who, rel(k4, k), tol4))
        if not abs(complex(e4) - rho) <= 1e-9 * r0:
            out.append("_arburg2 variance %r differs from %s %r" % (e4, who, rho))
    return out


def oracle_burg(p):
    if p.get("variant") and not in_domain(p["x"], p["order"]):
        return []                   # derived record outside the domain (tagged "out-of-domain")
    r = _lib(p)
    if r[0] == "err":
        raise r[1]
    return clauses(p, r[1], r[2], r[3])


def _as_container(x, how):
    if how == 1:
        return list(x)              # list of numpy scalars
    if how == 2:
        return x.tolist()           # list of Python floats / complex
    return x


def oracle_class(p):
    """class entry point: pburg(...)() read at .ar / .rho / .reflection"""
    sp = _sp()
    if p.get("variant") and not in_domain(p["x"], p["order"]):
        return []                   # derived record outside the domain (tagged "out-of-domain")
    data = _as_container(np.asarray(p["x"]), p.get("aslist", 0))
    P = sp.pburg(data, p["order"], criteria=p["crit"], NFFT=64)
    P()
    a, rho, k = sp.arburg(data, p["order"], p["crit"])
    out = []
    pa, pk = c(P.ar), c(P.reflection)
    if not np.isscalar(P.rho) and np.ndim(P.rho) != 0:
        return ["pburg.rho is not a scalar: %r" % (P.rho,)]
    if pa.shape != c(a).shape or pk.shape != c(k).shape:
        return ["pburg returns %d AR / %d reflection coefficients, arburg %d / %d (order %d, criterion %s)" % (
            len(pa), len(pk), len(c(a)), len(c(k)), p["order"], p["crit"])]
    r0 = float(np.mean(np.abs(np.asarray(p["x"])) ** 2))
    if rel(pa, c(a)) > 1e-12 or rel(pk, c(k)) > 1e-12 or not abs(P.rho - rho) <= 1e-12 * r0:
        out.append("pburg.ar/.rho/.reflection differ from arburg: %.2e / %.2e / %.2e (order %d, criterion %s)" % (
            rel(pa, c(a)), abs(P.rho - rho) / r0, rel(pk, c(k)), p["order"], p["crit"]))
    if p["crit"] is None and len(pa) != p["order"]:
        out.append("pburg without criterion holds an order-%d model for requested order %d" % (len(pa), p["order"]))
    return out + clauses(p, P.ar, P.rho, P.reflection, who="pburg")


def oracle_container(p):
    """the same integer-valued samples handed over as int64 / int8 arrays and as lists give the same model"""
    sp = _sp()
    x = np.asarray(p["x"])
    a0, rho0, k0 = sp.arburg(x, p["order"], p["crit"])
    a0, k0 = c(a0), c(k0)
    r0 = float(np.mean(np.abs(x) ** 2))
    forms = [("list of numpy scalars", list(x)), ("list of complex", [complex(v) for v in x])]
    if not np.iscomplexobj(x):
        forms += [("int64 array", x.astype(np.int64)), ("int8 array", x.astype(np.int8)), ("list of int", [int(v) for v in x]),
                  ("list of float", [float(v) for v in x]), ("complex128 array", x.astype(complex))]
    else:
        forms += [("list of Python complex", x.tolist())]
    out = []
    for name, data in forms:
        try:
            a, rho, k = sp.arburg(data, p["order"], p["crit"])
        except Exception as e:      # noqa: BLE001 - an exception on valid data is a violation
            out.append("arburg raises %s for the samples given as %s: %s" % (type(e).__name__, name, str(e)[:100]))
            continue
        a, k = c(a), c(k)
        if a.shape != a0.shape or k.shape != k0.shape:
            out.append("arburg selects order %d for the samples given as %s, %d as float64/complex128 array" % (len(a), name, len(a0)))
        elif rel(a, a0) > 1e-12 or rel(k, k0) > 1e-12 or not abs(rho - rho0) <= 1e-12 * r0:
            out.append("arburg result for the samples given as %s differs from the float array result: a %.2e rho %.2e k %.2e" % (
                name, rel(a, a0), abs(rho - rho0) / r0, rel(k, k0)))
        if p.get("cls"):
            P = sp.pburg(data, p["order"], criteria=p["crit"], NFFT=64)
            P()
            if c(P.ar).shape != a0.shape or rel(c(P.ar), a0) > 1e-12 or rel(c(P.reflection), k0) > 1e-12 or not abs(P.rho - rho0) <= 1e-12 * r0:
                out.append("pburg result for the samples given as %s differs from arburg on the float array" % name)
    return out


HIST_ATTRS = ["criteria", "ar_order", "data", "NFFT", "sampling", "scale_by_freq"]


def _hist_replay(p, upto=None):
    """the configuration the object is documented to hold: last assigned value of every attribute (plain dict, no library code)"""
    st = {"data": 0, "ar_order": p["order"], "criteria": p["crit"], "NFFT": p["NFFT"], "sampling": 1.0, "scale_by_freq": False}
    for op in p["ops"][:upto]:
        if op[0] in st:
            st[op[0]] = op[1]
    return st


def _hist_final(p):
    st = _hist_replay(p)
    return {"x": np.asarray(p["datas"][st["data"]]), "order": st["ar_order"], "crit": st["criteria"], "q": p.get("q", 1),
            "dkind": p["dkind"]}


def oracle_history(p):
    """ONE pburg object through a history of assignments and runs; after every run the object must hold the model of its CURRENT
    configuration (data, ar_order, criteria), and the final state satisfies every clause of the property"""
    sp = _sp()
    datas = [np.asarray(d) for d in p["datas"]]
    st = {"data": 0, "ar_order": p["order"], "criteria": p["crit"], "NFFT": p["NFFT"], "sampling": 1.0, "scale_by_freq": False}
    P = sp.pburg(datas[0].copy(), p["order"], criteria=p["crit"], NFFT=p["NFFT"])

    def check(where):
        x = datas[st["data"]]
        r0 = float(np.mean(np.abs(x) ** 2))
        a, rho, k = sp.arburg(x, st["ar_order"], st["criteria"])
        a, k = c(a), c(k)
        if P.ar is None or P.reflection is None or P.rho is None:
            return ["%s: pburg holds no model (.ar/.rho/.reflection None)" % where]
        pa, pk = c(P.ar), c(P.reflection)
        conf = "data #%d (N=%d, %s), ar_order %d, criteria %s" % (st["data"], len(x), "complex" if np.iscomplexobj(x) else "real",
                                                                  st["ar_order"], st["criteria"])
        if pa.shape != a.shape or pk.shape != k.shape:
            return ["%s: the re-used pburg holds %d AR / %d reflection coefficients, arburg on its current configuration (%s) gives "
                    "%d / %d" % (where, len(pa), len(pk), conf, len(a), len(k))]
        # same code path as arburg: 0 difference observed on the unchanged tree (quick seeds 0-4 + thorough), tolerance 1e-12
        if rel(pa, a) > 1e-12 or rel(pk, k) > 1e-12 or not abs(P.rho - rho) <= 1e-12 * r0:
            return ["%s: .ar/.rho/.reflection of the re-used pburg differ from arburg on its current configuration (%s): "
                    "%.2e / %.2e / %.2e" % (where, conf, rel(pa, a), abs(P.rho - rho) / r0, rel(pk, k))]
        return []

    for n, op in enumerate(p["ops"]):
        name = op[0]
        if name in ("call", "run", "psd"):
            if name == "call":
                P()
            elif name == "run":
                P.run()
            else:
                P.psd                                   # noqa: B018 - the documented lazy evaluation
            bad = check("step %d (%s) of %s" % (n, name, _hist_str(p)))
            if bad:
                return bad
        elif name == "data":
            st["data"] = op[1]
            P.data = _as_container(datas[op[1]].copy(), op[2])
        elif name == "criteria":
            st["criteria"] = op[1]
            P.criteria = op[1]
        elif name == "ar_order":
            st["ar_order"] = op[1]
            P.ar_order = op[1]
        elif name == "NFFT":
            P.NFFT = op[1]
            st["NFFT"] = int(P.NFFT)                    # None / 'nextpow2' are resolved by the setter
        elif name == "sampling":
            st["sampling"] = op[1]
            P.sampling = op[1]
        elif name == "scale_by_freq":
            st["scale_by_freq"] = op[1]
            P.scale_by_freq = op[1]
        elif name == "other":                           # a second object is fitted in between (no state is shared between objects)
            Q = sp.pburg(datas[op[1]].copy(), op[2], criteria=op[3], NFFT=32)
            Q()
        elif name == "bad_order":                       # a rejected assignment leaves the configuration as it was
            try:
                P.ar_order = -1
            except Exception:                           # noqa: BLE001
                pass
            else:
                P.ar_order = st["ar_order"]
        elif name == "fail_run":                        # a run that fails (record shorter than the order), then the record is restored
            P.data = datas[st["data"]][: max(st["ar_order"] - 1, 1)].copy()
            try:
                P()
            except Exception:                           # noqa: BLE001
                pass
            P.data = datas[st["data"]].copy()
    fin = _hist_final(p)
    x = fin["x"]
    out = []
    if fin["crit"] is None and len(c(P.ar)) != fin["order"]:
        out.append("pburg after the history holds an order-%d model for ar_order %d, criteria None" % (len(c(P.ar)), fin["order"]))
    # psd of the final state against a fresh object of the final configuration (0 difference observed; tolerance 1e-12)
    F = sp.pburg(x.copy(), fin["order"], criteria=fin["crit"], NFFT=st["NFFT"], sampling=st["sampling"], scale_by_freq=st["scale_by_freq"])
    F()
    ps, fs = np.asarray(P.psd), np.asarray(F.psd)
    if ps.shape != fs.shape:
        out.append("psd of the re-used object has %d points, of a fresh object of the same configuration %d" % (ps.size, fs.size))
    elif not np.all(np.abs(ps - fs) <= 1e-12 * np.abs(fs)):
        out.append("psd of the re-used object differs from a fresh object of the same configuration: %.2e (per bin, relative)" % float(
            np.max(np.abs(ps - fs) / np.abs(fs))))
    if rel(c(F.ar), c(P.ar)) > 1e-12 if c(F.ar).shape == c(P.ar).shape else True:
        out.append("model of the re-used object differs from a fresh object of the same configuration (%d vs %d coefficients)" % (
            len(c(P.ar)), len(c(F.ar))))
    return out + clauses(fin, P.ar, P.rho, P.reflection, who="pburg after the history")


def _hist_str(p):
    return "pburg(order %d, criteria %s): %s" % (p["order"], p["crit"], " ; ".join(
        op[0] if len(op) == 1 else "%s=%s" % (op[0], "#%d" % op[1] if op[0] in ("data", "other") else op[1]) for op in p["ops"]))


def _key_history(p):
    return "H|" + _key(dict(_hist_final(p), x=np.asarray(p["datas"][0]))) + "|" + "|".join(str(op[0])[:2] + str(op[1] if len(op) > 1 else "")
                                                                                       for op in p["ops"])


def _tags_history(p):
    ops = p["ops"]
    trig = [i for i, op in enumerate(ops) if op[0] in ("call", "run", "psd")]
    last = {op[0] for op in ops[trig[-2] + 1: trig[-1]]} if len(trig) >= 2 else set()
    fin = _hist_final(p)
    t = ["history-rounds:%d" % (len(trig) - 1), "history-trigger:" + ops[trig[-1]][0],
         "history-last-round:" + ("+".join(a for a in HIST_ATTRS if a in last) or "nothing"),
         "history-final-crit:%s" % fin["crit"], "complex" if np.iscomplexobj(fin["x"]) else "real", "data:" + p["dkind"]]
    for e in ("other", "bad_order", "fail_run"):
        if any(op[0] == e for op in ops):
            t.append("history-with:" + e)
    # the first run stopped early (q < p) and the last round asks for the plain model without touching data / ar_order
    try:
        q0 = len(c(_sp().arburg(np.asarray(p["datas"][0]), p["order"], p["crit"])[0]))
    except Exception:               # noqa: BLE001
        q0 = -1
    if p["crit"] is not None:
        t.append("history-first-run:" + ("q<p" if q0 < p["order"] else "q=p"))
    prev = _hist_replay(p, trig[-2] + 1 if len(trig) >= 2 else 0)["criteria"]
    if "criteria" in last and not ({"data", "ar_order"} & last):
        t.append("history-criteria-only:%s->%s" % ("None" if prev is None else "crit", "None" if fin["crit"] is None else "crit"))
    return t


def _nontrivial_history(p):
    fin = _hist_final(p)
    try:
        return len(c(_sp().arburg(fin["x"], fin["order"], fin["crit"])[0])) >= 2
    except Exception:               # noqa: BLE001
        return False


def _key(p):
    x = np.asarray(p["x"])
    return "%d|%d|%s|%s|%d" % (len(x), p["order"], p["crit"], np.iscomplexobj(x), hash(x.tobytes()) & 0xFFFFFF)


def _key_class(p):
    return _key(p) + "|%d" % p.get("aslist", 0)


def _tags(p):
    t = ["complex" if np.iscomplexobj(p["x"]) else "real", "crit:%s" % p["crit"], "data:" + p["dkind"]]
    if p.get("variant") and not in_domain(p["x"], p["order"]):
        return t + ["out-of-domain(derived record, not evaluated)"]
    if p["crit"] is not None:       # where the stop rule lands
        q = _qsel(p)
        t.append("q:error" if q < 0 else "q:0" if q == 0 else "q:order" if q == p["order"] else "q:interior")
    x = np.asarray(p["x"])
    if len(x) - p["order"] <= 2:
        t.append("order:N-%d" % (len(x) - p["order"]))
    return t


def _tags_burg(p):
    return _tags(p) + ["mode:" + ("Q" if (p["crit"] is None and p.get("exact")) else "F")]


def _tags_class(p):
    return _tags(p) + ["class-input:" + ["array", "list", "pylist"][p.get("aslist", 0)]]


def _nontrivial(p):
    if p.get("variant") and not in_domain(p["x"], p["order"]):
        return False
    return _qsel(p) >= 2            # the returned model has at least two stages (with a criterion: the stop is at q >= 2)


_BURG = {"impl": impl_burg, "model": model_burg, "oracle": oracle_burg, "rtol": 1e-7, "atol": 1e-300, "key": _key,
         "nontrivial": _nontrivial, "tags": _tags_burg, "post": post_burg}
_CLASS = {"oracle": oracle_class, "key": _key_class, "nontrivial": _nontrivial, "tags": _tags_class}

KINDS = {
    "burg": dict(_BURG),
    # low-noise sinusoids (rho_k/rho_0 down to 1e-9): same implementation / model / oracle; kept apart because the derived degenerate
    # variants of vcheck.vary (a dominant DC / Nyquist tone added to the record) would leave the declared conditioning domain
    "burg_clean": dict(_BURG),
    "burg_class": dict(_CLASS),
    "burg_class_clean": dict(_CLASS),
    # order 0 and order N+1: ValueError in the code, error kind "value" in the model
    "burg_err": {"impl": impl_burg, "model": model_burg, "strict_errors": True, "rtol": 1e-7, "key": _key,
                 "nontrivial": lambda p: True,
                 "tags": lambda p: ["rejected-order:" + ("0" if p["order"] == 0 else "N+1")]},
    "burg_container": {"oracle": oracle_container, "key": _key, "nontrivial": lambda p: p["order"] >= 2,
                       "tags": lambda p: ["container:" + ("complex" if np.iscomplexobj(p["x"]) else "real"), "container-data:" + p["dkind"]]},
    # ONE pburg object re-used through assignments of plain attributes / documented properties and repeated runs
    "burg_history": {"oracle": oracle_history, "key": _key_history, "nontrivial": _nontrivial_history, "tags": _tags_history},
}
NO_DEGEN = {"burg_clean", "burg_class_clean"}
NO_VARY = {"burg_err", "burg_container",     # container cases need integer-valued samples (amplitude variants are not)
           "burg_history"}                   # several records per case


def _well_conditioned(x, order):
    return in_domain(x, order)


def _clean(nrng, N, cplx):
    """1-2 sinusoids of amplitude 0.5..2 in white noise of standard deviation 10^U(-4.3,-1.5); returns (x, number of poles)"""
    n = np.arange(N)
    nt = int(nrng.integers(1, 3))
    sig = 10.0 ** nrng.uniform(-4.3, -1.5)
    x = np.zeros(N, dtype=complex if cplx else float)
    for _ in range(nt):
        f = nrng.uniform(0.03, 0.47)
        A = nrng.uniform(0.5, 2.0)
        ph = nrng.uniform(0, 2 * np.pi)
        x = x + (A * np.exp(1j * (2 * np.pi * f * n + ph)) if cplx else A * np.cos(2 * np.pi * f * n + ph))
    e = nrng.standard_normal(N) + (1j * nrng.standard_normal(N) if cplx else 0)
    return x + sig * e, nt * (1 if cplx else 2)


AR_COEF = {"ar2": [1.2, -0.7], "ar4": [2.7607, -3.8106, 2.6535, -0.9238]}


def _ar(nrng, N, cplx, which):
    """x[i] = sum_j c_j x[i-j] + e[i] after a 50-sample burn-in (complex: complex innovations, spectrum shifted by a random frequency)"""
    co = AR_COEF[which]
    M = N + 50
    e = nrng.standard_normal(M) + (1j * nrng.standard_normal(M) if cplx else 0)
    x = np.zeros(M, dtype=complex if cplx else float)
    for i in range(M):
        x[i] = e[i] + sum(co[j] * x[i - 1 - j] for j in range(len(co)) if i - 1 - j >= 0)
    x = x[50:]
    if cplx:
        x = x * np.exp(2j * np.pi * nrng.uniform(-0.5, 0.5) * np.arange(N))
    return x


def _mk(nrng, N, cplx, kind, exact):
    if kind == "zerointer":
        x = np.zeros(N)
        x[::2] = nrng.integers(-8, 9, len(x[::2]))
        if not np.any(x):
            x[0] = 3
        if cplx:
            x = x + 1j * np.where(np.arange(N) % 2 == 0, nrng.integers(-8, 9, N), 0)
        return np.asarray(x, dtype=complex if cplx else float)
    x, _ = gen_data(nrng, N, cplx, kind=kind, exact=exact)
    return np.asarray(x, dtype=complex if cplx else float)


KINDS["single"] = single.kind("C13")


def _pair(kind, p, j, every=1):
    """the function case and, for every `every`-th one, the class entry point on the same data (array / list / list of Python numbers)"""
    yield (kind, p)
    if j % every == 0:
        yield ("burg_class" + kind[4:], dict(p, aslist=(j // every) % 3))


def _gen_history(nrng, i):
    """one re-use history; the LAST round assigns the subset number i % 64 of HIST_ATTRS (every combination is visited), earlier rounds
    a random subset; values: criteria None (1/2) or a name, ar_order same (0.3) / other, data any of three records as array / list /
    list of Python numbers, NFFT another value, sampling, scale_by_freq"""
    dk = ["ar2", "ar4", "ar4", "tone", "ar2", "noise", "ar4"][i % 7]

    def rec(N, cplx):
        return _ar(nrng, N, cplx, dk) if dk in AR_COEF else _mk(nrng, N, cplx, dk, False)
    cplx = bool(nrng.integers(0, 2))
    N0 = int(nrng.integers(24, 81))
    datas = [rec(N0, cplx), rec(N0, cplx if nrng.random() < 0.67 else not cplx), rec(int(nrng.integers(20, 101)), bool(nrng.integers(0, 2)))]
    omax = min(min(len(d) for d in datas) - 3, 16)
    if not all(in_domain(d, omax) for d in datas):
        return None
    order = int(nrng.integers(min(6, omax), omax + 1))
    crit = None if i % 8 == 7 else CRITS[(i // 8 + i) % len(CRITS)]
    nfft_all = [32, 63, 64, 128, 256, None, "nextpow2"]     # arma2psd needs NFFT > order (orders <= 16 here)
    cur = {"NFFT": 64, "ar_order": order}
    ops = [[["call"], ["run"], ["psd"]][i % 3]]
    rounds = 1 + (i // 64) % 2
    for r in range(rounds):
        mask = i % 64 if r == rounds - 1 else int(nrng.integers(0, 64))
        S = [a for j, a in enumerate(HIST_ATTRS) if mask >> j & 1]
        S = [S[j] for j in nrng.permutation(len(S))]
        for extra in ("other", "bad_order", "fail_run"):
            if nrng.random() < 0.15:
                if extra == "other":
                    ops.append(["other", int(nrng.integers(0, 3)), int(nrng.integers(2, omax + 1)), [None, "AIC", "MDL"][int(nrng.integers(0, 3))]])
                else:
                    ops.append([extra])
        fresh_psd = False           # a property setter that marks the stored psd as outdated was used with a new value
        for a in S:
            if a == "criteria":
                ops.append([a, None if nrng.random() < 0.5 else CRITS[int(nrng.integers(0, len(CRITS)))]])
            elif a == "ar_order":
                v = cur["ar_order"] if nrng.random() < 0.3 else int(nrng.integers(2, omax + 1))
                cur["ar_order"] = v
                ops.append([a, v])
                fresh_psd = True
            elif a == "data":
                ops.append([a, int(nrng.integers(0, 3)), int(nrng.integers(0, 3))])
                fresh_psd = True
            elif a == "NFFT":
                v = nfft_all[int(nrng.integers(0, len(nfft_all)))]
                while v == cur["NFFT"]:
                    v = nfft_all[int(nrng.integers(0, len(nfft_all)))]
                if isinstance(v, int) and isinstance(cur["NFFT"], int):
                    fresh_psd = True
                cur["NFFT"] = v
                ops.append([a, v])
            elif a == "sampling":
                ops.append([a, [1.0, 2.0, 0.5, 1000.0, 8][int(nrng.integers(0, 5))]])
            else:
                ops.append([a, bool(nrng.integers(0, 2))])
        # a .psd read recomputes only when a property setter has marked the estimate as outdated; criteria is a plain attribute, so
        # the explicit p() / p.run() are the triggers otherwise
        ops.append([["call"], ["run"], ["psd"]][int(nrng.integers(0, 3))] if fresh_psd else [["call"], ["run"]][int(nrng.integers(0, 2))])
    p = {"datas": datas, "order": order, "crit": crit, "NFFT": 64, "ops": ops, "dkind": dk}
    p["q"] = int(nrng.integers(1, max(_hist_replay(p)["ar_order"], 1) + 1))
    return p


def gen(rng, nrng, tier):
    quick = tier == "quick"
    yield from single.gen("C13", nrng, tier)
    for N in ((256, 300) if quick else (256, 257, 300, 513, 1000)):   # long records
        for cplx in (False, True):
            x = _mk(nrng, N, cplx, "tone", False)
            order = int(nrng.integers(2, 13))
            if _well_conditioned(x, order):
                yield from _pair("burg", {"x": x, "order": order, "crit": [None, "AIC", "MDL"][N % 3], "exact": False, "dkind": "tone",
                                          "q": 1}, N + int(cplx))
    for i, sc in enumerate((1e-6, 1e-9, 1e6, 2.0 ** -40) if quick else (1e-3, 1e-6, 1e-8, 1e-9, 1e-12, 1e6, 1e9, 2.0 ** -40)):
        for cplx in (False, True):      # the estimator is homogeneous: every clause must hold at any amplitude
            x = sc * _mk(nrng, int(nrng.integers(6, 40)), cplx, ["noise", "tone"][i % 2], False)
            order = int(nrng.integers(1, 5))
            if _well_conditioned(x, order):
                yield from _pair("burg", {"x": x, "order": order, "crit": None, "exact": False, "dkind": "scaled", "q": 1}, 2 * i + int(cplx))
    for i in range(10 if quick else 100):      # the largest order of the quantifier, N - 2
        cplx = bool(i % 2)
        N = int(nrng.integers(4, 14))
        x = _mk(nrng, N, cplx, "noise", False)
        if _well_conditioned(x, N - 2):
            yield from _pair("burg", {"x": x, "order": N - 2, "crit": None, "exact": False, "dkind": "noise", "q": 1}, i)
    n = 220 if quick else 3000
    kinds = ["noise", "tone", "int", "zerointer", "trend"]
    skipped = 0
    n_int = 0
    for i in range(n):
        cplx = bool(nrng.integers(0, 2))
        exact = (i % 3 == 0)
        N = int(nrng.integers(4, 25 if exact else (81 if quick else 201)))
        kind = kinds[i % len(kinds)]
        x = _mk(nrng, N, cplx, kind, exact)
        crit = None if i % 2 == 0 else CRITS[(i // 2) % len(CRITS)]
        omax = min(N - 2, 6 if exact else 30)   # exact rationals roughly triple in size per Burg stage
        if crit in ("AICc", "AKICc"):
            omax = min(omax, N - 3)
        if omax < 1:
            continue
        order = int(nrng.integers(1, omax + 1))
        if not _well_conditioned(x, order):
            skipped += 1
            continue
        p = {"x": x, "order": order, "crit": crit, "exact": exact, "dkind": kind, "q": int(nrng.integers(1, order + 1))}
        yield from _pair("burg", p, i, 1 if quick else 3)
        if kind in ("int", "zerointer"):
            # integer-valued samples: every fifth such record is also handed over as integer arrays and as lists
            if n_int % 5 == 0:
                yield ("burg_container", {"x": x, "order": order, "crit": crit, "dkind": kind, "cls": (n_int // 5) % 2})
            n_int += 1
    # the largest order of the statement, N - 1 (nesting checked against order N - 2)
    for i in range(24 if quick else 120):
        cplx = bool(i % 2)
        N = 3 + (i // 2) % 12           # 3..14, real and complex each
        dk = ["noise", "int", "tone"][(i // 24) % 3]
        x = _mk(nrng, N, cplx, dk, False)
        if _well_conditioned(x, N - 1):
            yield from _pair("burg", {"x": x, "order": N - 1, "crit": None, "exact": False, "dkind": dk, "q": N - 2}, i, 2)
        else:
            skipped += 1
    # rejected orders: 0 and N + 1 are ValueError in the code and in the model (order N is accepted by the code: not generated)
    for i in range(8 if quick else 24):
        cplx = bool(i % 2)
        N = int(nrng.integers(3, 20))
        x = _mk(nrng, N, cplx, "noise", i % 3 == 0)
        yield ("burg_err", {"x": x, "order": [0, N + 1][(i // 2) % 2], "crit": [None, "AIC"][(i // 4) % 2], "exact": i % 3 == 0})
    # clean tones: stage variances down to 1e-9 of the record's power
    for i in range(60 if quick else 400):
        cplx = bool(i % 2)
        N = int(nrng.integers(10, 81 if quick else 201))
        x, poles = _clean(nrng, N, cplx)
        order = min(int(nrng.integers(poles, poles + 9)), N - 2)
        if (i // 2) % 4 == 3:
            crit = CRITS[(i // 8) % len(CRITS)]
            if crit in ("AICc", "AKICc"):
                order = min(order, N - 3)
        else:
            crit = None
        if not _well_conditioned(x, order):
            skipped += 1
            continue
        p = {"x": x, "order": order, "crit": crit, "exact": False, "dkind": "clean", "q": int(nrng.integers(1, order + 1))}
        yield from _pair("burg_clean", p, i, 1 if quick else 2)
    # AR(2) / AR(4) processes: the criterion stops at an interior order
    for i in range(72 if quick else 480):
        cplx = bool(i % 2)
        which = ["ar2", "ar4"][(i // 2) % 2]
        N = int(nrng.integers(16, 81 if quick else 201))
        x = _ar(nrng, N, cplx, which)
        crit = None if (i // 4) % 7 == 6 else CRITS[(i // 4) % 7]
        order = int(nrng.integers(2, min(N - 3, 30) + 1))
        if not _well_conditioned(x, order):
            skipped += 1
            continue
        p = {"x": x, "order": order, "crit": crit, "exact": False, "dkind": which, "q": int(nrng.integers(1, order + 1))}
        yield from _pair("burg", p, i, 1 if quick else 2)
    # (last, so that the cases above are the same as before for a given seed)
    for i in range(128 if quick else 768):      # re-use histories on one pburg object: every subset of the attributes, 1-2 rounds
        p = _gen_history(nrng, i)
        if p is not None:
            yield ("burg_history", p)
