"""C16  Minimum-variance spectrum equals T / (e^H R^-1 e)."""
import numpy as np

import single

import proto
from common import gen_data, rel

TRUSTED_BASE = [
    "numpy.fft is the DFT parameter; float mode rtol 1e-7 for the PSD (model correspondence for NFFT <= 300: the list-based "
    "model is cubic in NFFT; above, only the independent quadratic-form oracle is evaluated)",
    "the oracle's reference is written in numpy inside the oracle: Burg recursion, Yule-Walker solve for the lags, "
    "scipy.linalg.toeplitz, numpy.linalg.inv, the quadratic form at every bin; tolerance 1e-6 * max(1, 1e-6 cond R)",
    "the Musicus identity psi_K = sum_{i-j=K} (R^-1)_{ij} (Gohberg-Semencul formula for the inverse of the Toeplitz matrix of an AR "
    "model) is not proved in Lean: it is tested with EXACT equality in rational arithmetic inside the model (R from the step-down "
    "recursion of the Burg model, inverse by Gauss-Jordan elimination) on dyadic data",
]
PARTIAL = []
ASSUMPTIONS = ["NFFT >= 2m (no overlap of the two halves of psi); non-degenerate Burg error (rho_k >= 1e-9 rho_0)"]
RULE = ("real/complex data (noise, tones in noise, integer, trend) of length 8..128 x m in 2..min(N/2,16) x NFFT >= 2m even/odd "
        "(the boundaries 2m and 2m+1 for every m in 2..8, NFFT < 32, primes, powers of two up to the default 4096) x "
        "sampling in {0.01, 0.5, 1, 2.5, 3 (int), 100}; containers handed to the API: float64/complex128 arrays, int64 / int16 "
        "arrays, lists, complex arrays with zero imaginary part; smallest sizes (N=8 m=4 NFFT=8, N=8 m=2 NFFT=4, N=9 m=4 NFFT=9, "
        "N=32 m=16 NFFT=32); call forms: defaults, positional, keyword; class form with scale_by_freq off/on, its ar / reflection "
        "attributes; exact identity cases N <= 16, m <= 5")


def _sp():
    import spectrum
    return spectrum


def c(v):
    return np.asarray(v).astype(complex).ravel()


INT_KINDS = {"int64": np.int64, "int16": np.int16}
MODEL_MAX_NFFT = 300     # the list-based model is cubic in NFFT: above this only the oracle is evaluated


def _api_input(p):
    """what is handed to the real API: p["x"] is always the float64/complex128 array of the sample VALUES (used by the reference
    and the model); p["dkind"] says in which container / dtype the same values are passed to the library ("czero": the
    complex128 array itself, whose imaginary part is identically zero).  (Amplitude variants
    derived by vcheck.vary may make an integer record non-integer or too large for the narrow dtype: the values then go in
    the next wider container that holds them exactly.)"""
    x = p["x"]
    dk = p.get("dkind")
    if dk == "list":
        return [complex(v) if np.iscomplexobj(x) else float(v) for v in x]
    if dk in INT_KINDS and not np.iscomplexobj(x) and np.all(x == np.round(x)) and np.max(np.abs(x)) < 2.0 ** 62:
        dt = INT_KINDS[dk]
        if np.min(x) < np.iinfo(dt).min or np.max(x) > np.iinfo(dt).max:
            dt = np.int64
        return np.asarray(x).astype(dt)
    return x


def impl_minvar(p):
    psd, A, k = _sp().minvar(_api_input(p), p["m"], sampling=p["fs"], NFFT=p["nfft"])
    return [np.asarray(psd), c(A), c(k)]


def model_minvar(p):
    if p["nfft"] > MODEL_MAX_NFFT:
        return None
    return ("F", proto.request("minvarx", "F", [p["m"], p["nfft"]], [np.asarray(p["x"]), [p["fs"]]]))


def _burg(x, p):
    x = np.asarray(x, dtype=complex)
    ef = x.copy()
    eb = x.copy()
    a = np.zeros(0, dtype=complex)
    rho = float(np.mean(np.abs(x) ** 2))
    ks = []
    for m in range(p):
        efp = ef[1:]
        ebp = eb[:-1]
        k = -2 * np.sum(efp * np.conj(ebp)) / (np.sum(np.abs(efp) ** 2) + np.sum(np.abs(ebp) ** 2))
        ef = efp + k * ebp
        eb = ebp + np.conj(k) * efp
        a = np.concatenate((a + k * np.conj(a[::-1]), [k]))
        rho *= 1 - abs(k) ** 2
        ks.append(k)
    return a, rho, np.array(ks)


def _acf_of_ar(a, rho, m):
    """autocorrelation lags r_0..r_{m-1} of the AR(p) model (a without leading 1, driving variance rho): solve the
    Yule-Walker equations for r (independent of the library's rlevinson)"""
    p = len(a)
    af = np.concatenate(([1], a))
    # unknowns r_0..r_p (complex, r_{-k} = conj r_k): sum_j af_j r_{k-j} = rho*[k=0], k = 0..p  -> real linear system
    n = p + 1
    M = np.zeros((2 * n, 2 * n))
    rhs = np.zeros(2 * n)
    for k in range(n):
        for j in range(n):
            d = k - j
            cre, cim = af[j].real, af[j].imag
            idx = abs(d)
            sgn = 1.0 if d >= 0 else -1.0   # r_{-d} = conj r_d
            # af_j * r_d = (cre + i cim)(Rr + i sgn Ri)
            M[2 * k, 2 * idx] += cre
            M[2 * k, 2 * idx + 1] += -cim * sgn
            M[2 * k + 1, 2 * idx] += cim
            M[2 * k + 1, 2 * idx + 1] += cre * sgn
        if k == 0:
            rhs[0] = rho
    # r_0 is real: pin its imaginary part
    M[1, :] = 0
    M[1, 1] = 1
    rhs[1] = 0
    sol = np.linalg.solve(M, rhs)
    r = sol[0::2] + 1j * sol[1::2]
    return r[:m]


def _reference(x, m, nfft, fs):
    """INDEPENDENT reference of the property statement: sampling / (e(f_k)^H R^-1 e(f_k)), f_k = k/NFFT, R the m x m Hermitian
    Toeplitz matrix of the autocorrelation lags implied by the order m-1 Burg model (own Burg recursion, own Yule-Walker solve,
    dense inverse, the quadratic form at every bin).  Returns (two-sided reference, AR parameters without the leading 1,
    reflection coefficients, cond R)."""
    from scipy.linalg import toeplitz
    a, rho, ks = _burg(x, m - 1)
    r = _acf_of_ar(a, rho, m)
    R = toeplitz(r, np.conj(r))
    Ri = np.linalg.inv(R)
    E = np.exp(2j * np.pi * np.outer(np.arange(nfft), np.arange(m)) / nfft)      # row k: e(f_k)
    ref = fs / np.real(np.einsum("ki,ij,kj->k", np.conj(E), Ri, E))
    return ref, a, ks, float(np.linalg.cond(R))


def _tol(cond):
    return 1e-6 * max(1.0, cond * 1e-6)


def _desc(p):
    x = np.asarray(p["x"])
    return "N=%d m=%d NFFT=%s fs=%s %s%s" % (len(x), p["m"], p.get("nfft"), p.get("fs"), "complex" if np.iscomplexobj(x) else "real",
                                          " as " + p["dkind"] if p.get("dkind") else "")


def _check_function_output(res, x, m, nfft, fs, what):
    """the clauses of the property on one return value of spectrum.minvar"""
    out = []
    psd, A, k = res
    psd, A, k = np.asarray(psd), c(A), c(k)
    if psd.shape != (nfft,):
        return ["minvar PSD has shape %s, expected (%d,) (%s)" % (psd.shape, nfft, what)]
    if np.iscomplexobj(psd) or not np.all(np.isfinite(psd)) or not np.all(psd > 0):
        out.append("minvar PSD is not real, finite and strictly positive (min %.4g; %s)" % (float(np.min(np.real(psd))), what))
    ref, a, ks, cond = _reference(x, m, nfft, fs)
    if len(A) != m or A[0] != 1 or rel(A[1:], a) > 1e-8:
        out.append("minvar does not return the Burg AR vector (with leading 1) of order m-1 (%s)" % what)
    if len(k) != m - 1 or rel(k, ks) > 1e-8:
        out.append("minvar does not return the Burg reflection coefficients (%s)" % what)
    if rel(psd, ref) > _tol(cond):
        out.append("minvar PSD != sampling/(e^H R^-1 e): rel err %.2e (%s)" % (rel(psd, ref), what))
    return out


def oracle_minvar(p):
    sp = _sp()
    x = np.asarray(p["x"])
    m, nfft, fs = p["m"], p["nfft"], p["fs"]
    return _check_function_output(sp.minvar(_api_input(p), m, sampling=fs, NFFT=nfft), x, m, nfft, fs, _desc(p))


def _fold(ref, is_complex, nfft):
    """the class's rule for the stored estimate: complex data -> the two-sided estimate itself; real data -> the first half of
    the two-sided estimate (bins 0..NFFT/2 for even NFFT, 0..(NFFT-1)/2 for odd NFFT), EVERY bin doubled, including DC and
    Nyquist (the convention of the other parametric classes of the package)"""
    if is_complex:
        return ref
    L = nfft // 2 + 1 if nfft % 2 == 0 else (nfft + 1) // 2
    return 2 * ref[:L]


def _check_class_output(o, xin, x, m, nfft, fs, scale, what):
    out = []
    got = np.asarray(o.psd)
    is_complex = np.iscomplexobj(np.asarray(xin))     # the class chooses the branch from the dtype it is handed
    factor = 2 * np.pi / (fs / float(nfft)) if scale else 1.0      # scale_by_freq: times 2*pi/df, df = sampling/NFFT
    ind, a, ks, cond = _reference(x, m, nfft, float(fs))
    ind = _fold(ind, is_complex, nfft) * factor
    if got.shape != ind.shape or np.iscomplexobj(got) or rel(got, ind) > _tol(cond):
        out.append("pminvar(%s%s).psd is not sampling/(e^H R^-1 e) on that grid, folded by the class's rule (rel err %.2e)" % (
            what, ", scale_by_freq" if scale else "", rel(got, ind) if got.shape == ind.shape else float("inf")))
    if not (np.all(np.isfinite(got)) and np.all(got > 0)):
        out.append("pminvar(%s).psd is not finite and strictly positive" % what)
    A, k = c(o.ar), c(o.reflection)
    if len(A) != m or A[0] != 1 or rel(A[1:], a) > 1e-8:
        out.append("pminvar(%s).ar is not the Burg AR vector (with leading 1) of order m-1" % what)
    if len(k) != m - 1 or rel(k, ks) > 1e-8:
        out.append("pminvar(%s).reflection is not the vector of Burg reflection coefficients" % what)
    return out


def oracle_class(p):
    """the class form: pminvar(...).psd is the estimate for the WHOLE record on the requested NFFT (two-sided for
    complex data; for real data the non-negative-frequency half, doubled) - for NFFT below, equal to and above the data length;
    .ar / .reflection are the Burg vectors the estimate used"""
    sp = _sp()
    x = np.asarray(p["x"])
    xin = _api_input(p)
    m, nfft, fs = p["m"], p["nfft"], p["fs"]
    scale = bool(p.get("scale", False))
    what = _desc(p)
    o = sp.pminvar(xin, m, NFFT=nfft, sampling=fs, scale_by_freq=scale)
    got = np.asarray(o.psd)
    out = []
    # (a) consistency with the function (code against code, tight)
    ref = np.asarray(sp.minvar(xin, m, sampling=fs, NFFT=nfft)[0])
    ref = _fold(ref, np.iscomplexobj(np.asarray(xin)), nfft) * (2 * np.pi * nfft / fs if scale else 1.0)
    if got.shape != ref.shape or rel(got, ref) > 1e-9:
        out.append("pminvar(%s).psd is not the minimum-variance estimate of the record on that grid (rel err %.2e)" % (
            what, rel(got, ref) if got.shape == ref.shape else float("inf")))
    # (b) the property statement itself, against the independent reference, and the returned Burg vectors
    out += _check_class_output(o, xin, x, m, nfft, fs, scale, what)
    return out


# the documented call forms of the two entry points (spectrum.minvar, pminvar): defaults, positional, keyword, integer sampling
DEFAULT_NFFT = 4096      # the documented default of minvar ("NFFT=default_NFFT", 4096), written out independently of the package


def oracle_forms(p):
    sp = _sp()
    x = np.asarray(p["x"])
    m, nfft, form = p["m"], p["nfft"], p["form"]
    what = "form %s, N=%d m=%d %s" % (form, len(x), m, "complex" if np.iscomplexobj(x) else "real")
    if form == "default":                 # minvar(x, m): sampling 1, the package default NFFT
        return _check_function_output(sp.minvar(x, m), x, m, DEFAULT_NFFT, 1.0, what)
    if form == "positional":              # minvar(x, m, sampling, NFFT)
        return _check_function_output(sp.minvar(x, m, 2, nfft), x, m, nfft, 2.0, what)
    if form == "keyword":                 # every argument by its documented name
        return _check_function_output(sp.minvar(X=x, order=m, NFFT=nfft, sampling=2.5), x, m, nfft, 2.5, what)
    if form == "intfs":                   # integer sampling
        return _check_function_output(sp.minvar(x, m, sampling=3, NFFT=nfft), x, m, nfft, 3.0, what)
    if form == "smallfs":
        return _check_function_output(sp.minvar(x, m, sampling=0.01, NFFT=nfft), x, m, nfft, 0.01, what)
    if form == "class-default":           # pminvar(x, m): NFFT = the record length (needs N >= 2m), sampling 1, unscaled
        o = sp.pminvar(x, m)
        return _check_class_output(o, x, x, m, len(x), 1.0, False, what)
    if form == "class-positional":        # pminvar(data, order, NFFT, sampling, scale_by_freq)
        o = sp.pminvar(x, m, nfft, 2, True)
        return _check_class_output(o, x, x, m, nfft, 2.0, True, what)
    if form == "class-intfs":
        o = sp.pminvar(x, m, NFFT=nfft, sampling=3)
        return _check_class_output(o, x, x, m, nfft, 3.0, False, what)
    raise ValueError(form)


FORMS = ["default", "positional", "keyword", "intfs", "smallfs", "class-default", "class-positional", "class-intfs"]


def impl_ident(p):
    # nothing to compare with on the implementation side: the identity is checked inside the model (exact rationals)
    return []


def model_ident(p):
    return ("Q", proto.request("minvarident", "Q", [p["m"]], [np.asarray(p["x"])]))


def post_ident(p, iv, mv):
    """mv = [psi_K, diag sums (i-j=K), diag sums (j-i=K)] as floats; exact comparison is done in oracle_ident"""
    return [], []


_IDENT_REPLY = {}


def _ident_reply(p):
    line = model_ident(p)[1]
    if line not in _IDENT_REPLY:
        if len(_IDENT_REPLY) > 4096:
            _IDENT_REPLY.clear()
        _IDENT_REPLY[line] = proto.parse_reply(proto.run_driver([line])[0], "Q")
    return _IDENT_REPLY[line]


def oracle_ident(p):
    """psi_K = sum_{i-j=K} (R^-1)_{ij} (the LOWER diagonals) exactly; the sums over the upper diagonals are the conjugates, so
    accepting either direction would let a conjugation error of psi pass"""
    st, val = _ident_reply(p)
    if st != "ok":
        # "singular"/"value": the model could not form R^-1 exactly - the case is not evaluated (counted by the ident:skipped tag)
        return [] if val in ("singular", "value") else ["model error %s" % val]
    psi, d1, d2 = val
    if psi != d1:
        return ["EXACT Musicus identity fails in the model: psi_K != sum over the K-th lower diagonal of R^-1 (m=%d, N=%d)" % (p["m"], len(p["x"]))]
    return []


def _tags_ident(p):
    t = ["ident:" + ("complex" if np.iscomplexobj(p["x"]) else "real")]
    st, val = _ident_reply(p)
    t.append("ident:evaluated" if st == "ok" else "ident:skipped:%s" % val)
    return t


def _key(p):
    x = np.asarray(p["x"])
    return "%d|%s|%s|%s|%s|%d|%s|%s|%s" % (len(x), p["m"], p.get("nfft"), p.get("fs"), np.iscomplexobj(x), hash(x.tobytes()) & 0xFFFFFF,
                                       p.get("dkind"), p.get("scale"), p.get("form"))


def _tags(p):
    t = ["complex" if np.iscomplexobj(p["x"]) else "real", "m:%d" % p["m"]]
    if "nfft" in p:
        nfft, m, N = p["nfft"], p["m"], len(p["x"])
        t.append("nfft:" + ("odd" if nfft % 2 else "even"))
        if nfft == 2 * m:
            t.append("nfft:=2m")
        elif nfft == 2 * m + 1:
            t.append("nfft:=2m+1")
        t.append("nfft:<32" if nfft < 32 else "nfft:32..127" if nfft < 128 else "nfft:128..300" if nfft <= MODEL_MAX_NFFT else "nfft:>300(oracle only)")
        if 2 * m == N:
            t.append("m=N/2")
        if N <= 10:
            t.append("N<=10")
    if p.get("dkind"):
        t.append("input:" + p["dkind"])
    return t


def _tags_class(p):
    N, nfft = len(p["x"]), p["nfft"]
    t = ["class:nfft" + ("<N" if nfft < N else ">=N"), "class:" + ("complex" if np.iscomplexobj(p["x"]) else "real"),
         "class:scale_by_freq=%s" % bool(p.get("scale", False)), "class:fs=%g" % p["fs"]]
    if nfft == N:
        t.append("class:nfft=N")
    if p["m"] > 8:
        t.append("class:m>8")
    if 2 * p["m"] == N:
        t.append("class:m=N/2")
    if p.get("dkind"):
        t.append("class:input:" + p["dkind"])
    return t


KINDS = {
    "minvar": {"impl": impl_minvar, "model": model_minvar, "oracle": oracle_minvar, "rtol": 1e-7, "atol": 1e-300, "key": _key, "tags": _tags},
    "class": {"oracle": oracle_class, "key": _key, "tags": _tags_class},
    "forms": {"oracle": oracle_forms, "key": _key, "tags": lambda p: ["form:" + p["form"]]},
    "ident": {"oracle": oracle_ident, "key": _key, "tags": _tags_ident},
}


def _ok(x, m):
    a, rho, ks = _burg(x, m - 1)
    return rho >= 1e-7 * float(np.mean(np.abs(np.asarray(x)) ** 2))


KINDS["single"] = single.kind("C16")

def gen(rng, nrng, tier):
    yield from single.gen("C16", nrng, tier)
    n = 90 if tier == "quick" else 1200
    kinds = ["noise", "tone", "int", "trend"]
    nffts_seen = [32, 33, 40, 64, 65]
    for i in range(n):
        cplx = bool(nrng.integers(0, 2))
        N = int(nrng.integers(8, 129))
        x, dk = gen_data(nrng, N, cplx, kind=kinds[i % 4])
        x = np.asarray(x, dtype=complex if cplx else float)
        m = int(nrng.integers(2, min(N // 2, 16) + 1)) if i % 6 else min(N // 2, 16)   # incl. the largest admissible order
        # reuse a few NFFT values with varying m (per-NFFT state must not leak between calls)
        nfft = nffts_seen[i % 5] if nffts_seen[i % 5] >= 2 * m else 2 * m + (i % 2)
        if not _ok(x, m):
            continue
        yield ("minvar", {"x": x, "m": m, "nfft": nfft, "fs": [1.0, 2.5, 100.0][i % 3]})
    for i in range(24 if tier == "quick" else 300):        # class form, NFFT below / at / above the record length
        cplx = bool(i % 2)
        N = int(nrng.integers(12, 80))
        x, dk = gen_data(nrng, N, cplx, kind=kinds[i % 4])
        x = np.asarray(x, dtype=complex if cplx else float)
        m = int(nrng.integers(2, min(N // 2, 8) + 1))
        if not _ok(x, m):
            continue
        nfft = [2 * m, 2 * m + 1, max(2 * m, N // 2), N - 1, N, N + 1, 2 * N][i % 7]
        yield ("class", {"x": x, "m": m, "nfft": max(nfft, 2 * m), "fs": [1.0, 2.5][i % 2]})
    ni = 24 if tier == "quick" else 300
    for i in range(ni):
        cplx = bool(i % 2)
        N = int(nrng.integers(8, 17))
        x, dk = gen_data(nrng, N, cplx, kind=["noise", "int"][i % 2], exact=True)
        x = np.asarray(x, dtype=complex if cplx else float)
        m = 2 + i % 4
        if not _ok(x, m):
            continue
        yield ("ident", {"x": x, "m": m})

    # ---- audited gaps (appended: the streams of the loops above are unchanged) ----------------------------------------------
    quick = tier == "quick"
    FS_F = [1.0, 2.5, 100.0, 0.01]
    FS_C = [0.5, 100.0, 1.0, 2.5]

    def data(i, N, cplx, kind=None):
        x, _ = gen_data(nrng, N, cplx, kind=kind or kinds[i % 4])
        return np.asarray(x, dtype=complex if cplx else float)

    # (1) smallest sizes and equal-parameter boundaries, both kinds, real and complex
    corners = [(8, 4, 8), (8, 2, 4), (9, 4, 9), (32, 16, 32), (10, 5, 10), (8, 4, 9), (16, 8, 16)]
    j = 0
    for rep in range(1 if quick else 3):
        for ci, (N, m, nfft) in enumerate(corners):
            for cplx in (False, True):
                x = data(j, N, cplx, kind=["noise", "tone", "trend", "int"][(j // 2 + rep) % 4])
                j += 1
                if not _ok(x, m):
                    continue
                yield ("minvar", {"x": x, "m": m, "nfft": nfft, "fs": FS_F[(ci + rep) % 4]})
                yield ("class", {"x": x, "m": m, "nfft": nfft, "fs": FS_C[(ci + rep) % 4], "scale": bool((ci // 2 + rep + cplx) % 2)})

    # (2) the NFFT boundary for every small order: NFFT = 2m and 2m+1 (never reached by the first loop: 2m <= 32 there)
    j = 0
    for rep in range(1 if quick else 4):
        for m in range(2, 9):
            for d in (0, 1):
                cplx = bool((j + rep) % 2)
                j += 1
                N = int(nrng.integers(2 * m, 129))
                x = data(j // 2, N, cplx)
                if not _ok(x, m):
                    continue
                yield ("minvar", {"x": x, "m": m, "nfft": 2 * m + d, "fs": FS_F[(j // 2) % 3]})
    # other NFFT never compared with the quadratic form before: below 32, primes, powers of two >= 128, the default 4096
    small = [11, 13, 16, 17, 19, 23, 24, 29, 31]
    big = [127, 128, 257, 1024, 4096, 131, 256, 300, 301, 512, 2048, 4097]
    nlist = (small[::2] + big[:5]) if quick else (small + big) * 2
    for i, nfft in enumerate(nlist):
        cplx = bool((i + i // len(small + big)) % 2)
        mmax = min(nfft // 2, 16)
        N = int(nrng.integers(max(8, 2 * 2), 129))
        mmax = min(mmax, N // 2)
        m = mmax if i % 3 == 0 else int(nrng.integers(2, mmax + 1))
        x = data(i // 2, N, cplx)
        if not _ok(x, m):
            continue
        yield ("minvar", {"x": x, "m": m, "nfft": nfft, "fs": FS_F[(i // 2) % 4]})

    # (3) container / dtype actually handed to the API (reference and model get the same values as float64 / complex128)
    dks = ["int64", "int16", "list", "list", "czero"]
    for i in range(10 if quick else 60):
        dk = dks[i % 5]
        N = int(nrng.integers(8, 97))
        if dk == "int64":
            x = nrng.integers(-2 ** 40, 2 ** 40, N).astype(float)          # squares exceed 2^63
        elif dk == "int16":
            x = nrng.integers(-32768, 32768, N).astype(float)              # squares exceed the int16 (and int32 sums the) range
        elif dk == "czero":
            x = data(i // 5, N, False, kind=kinds[(i // 5) % 4]).astype(complex)
        else:
            x = data(i // 5, N, bool(i % 5 == 3), kind=kinds[(i // 5) % 4])
        m = int(nrng.integers(2, min(N // 2, 16) + 1))
        if not _ok(x, m):
            continue
        q = {"x": x, "m": m, "dkind": dk}
        nf = [2 * m, 2 * m + 1, 32, N, N + 1, 64, 129][(i // 5) % 7]
        yield ("minvar", dict(q, nfft=max(nf, 2 * m), fs=FS_F[(i // 5) % 3]))
        nf = [N, 2 * m, N + 1, 2 * m + 1, 2 * N, N - 1][(i // 5) % 6]
        yield ("class", dict(q, nfft=max(nf, 2 * m), fs=FS_C[(i // 5) % 4], scale=bool((i // 10) % 2)))
    # czero: the function value is the one of the real record; the class takes the two-sided branch (checked by oracle_class
    # through the dtype of what it is handed)

    # (4) class form: orders up to 16, scale_by_freq on, sampling in {0.5, 100}, against the independent reference
    for i in range(16 if quick else 160):
        cplx = bool(i % 2)
        N = int(nrng.integers(8, 100))
        x = data(i // 2, N, cplx)
        mmax = min(N // 2, 16)
        m = mmax if i % 5 == 0 else int(nrng.integers(2, mmax + 1))
        if not _ok(x, m):
            continue
        nf = [2 * m, 2 * m + 1, N, N + 1, max(2 * m, N - 1), 2 * N, 2 * N + 1, 128, 255][(i // 2) % 9]
        yield ("class", {"x": x, "m": m, "nfft": max(nf, 2 * m), "fs": FS_C[(i // 2) % 2], "scale": bool((i // 4) % 2 == 0)})

    # (5) entry points / argument forms
    for i in range(len(FORMS) * (2 if quick else 12)):
        form = FORMS[i % len(FORMS)]
        cplx = bool((i // len(FORMS)) % 2)
        N = int(nrng.integers(8, 80))
        x = data(i // len(FORMS), N, cplx)
        m = 4 if i < 2 * len(FORMS) else int(nrng.integers(2, min(N // 2, 8) + 1))
        if N < 2 * m or not _ok(x, m):
            continue
        nfft = 16 if i < 2 * len(FORMS) else [2 * m, 2 * m + 1, 4 * m, 33, 64][(i // len(FORMS)) % 5]
        yield ("forms", {"x": x, "m": m, "nfft": max(nfft, 2 * m), "form": form})
