"""C16  Minimum-variance spectrum equals T / (e^H R^-1 e)."""
import numpy as np

import single

import proto
from common import gen_data, rel

TRUSTED_BASE = [
    "numpy.fft is the DFT parameter; float mode rtol 1e-7 for the PSD",
    "the Musicus identity psi_K = sum_{i-j=K} (R^-1)_{ij} (Gohberg-Semencul formula for the inverse of the Toeplitz matrix of an AR "
    "model) is not proved in Lean: it is tested with EXACT equality in rational arithmetic inside the model (R from the step-down "
    "recursion of the Burg model, inverse by Gauss-Jordan elimination) on dyadic data",
]
PARTIAL = []
ASSUMPTIONS = ["NFFT >= 2m (no overlap of the two halves of psi); non-degenerate Burg error (rho_k >= 1e-9 rho_0)"]
RULE = ("real/complex data (noise, tones in noise, integer) of length 8..128 x m in 2..min(N/2,16) x NFFT >= 2m even/odd x "
        "sampling in {1, 2.5, 100}; exact identity cases N <= 16, m <= 5")


def _sp():
    import spectrum
    return spectrum


def c(v):
    return np.asarray(v).astype(complex).ravel()


def impl_minvar(p):
    psd, A, k = _sp().minvar(p["x"], p["m"], sampling=p["fs"], NFFT=p["nfft"])
    return [np.asarray(psd), c(A), c(k)]


def model_minvar(p):
    return ("F", proto.request("minvarx", "F", [p["m"], p["nfft"]], [np.asarray(p["x"]), [p["fs"]]]))


def _burg(x, p):
    x = np.asarray(x, dtype=complex)
    ef = x.copy()
    eb = x.copy()
    a = np.zeros(0, dtype=complex)
    rho = float(np.mean(np.abs(x) ** 2))
    ks = []
    for m in range(p):
        efp = ef[1:]
        ebp = eb[:-1]
        k = -2 * np.sum(efp * np.conj(ebp)) / (np.sum(np.abs(efp) ** 2) + np.sum(np.abs(ebp) ** 2))
        ef = efp + k * ebp
        eb = ebp + np.conj(k) * efp
        a = np.concatenate((a + k * np.conj(a[::-1]), [k]))
        rho *= 1 - abs(k) ** 2
        ks.append(k)
    return a, rho, np.array(ks)


def _acf_of_ar(a, rho, m):
    """autocorrelation lags r_0..r_{m-1} of the AR(p) model (a without leading 1, driving variance rho): solve the
    Yule-Walker equations for r (independent of the library's rlevinson)"""
    p = len(a)
    af = np.concatenate(([1], a))
    # unknowns r_0..r_p (complex, r_{-k} = conj r_k): sum_j af_j r_{k-j} = rho*[k=0], k = 0..p  -> real linear system
    n = p + 1
    M = np.zeros((2 * n, 2 * n))
    rhs = np.zeros(2 * n)
    for k in range(n):
        for j in range(n):
            d = k - j
            cre, cim = af[j].real, af[j].imag
            idx = abs(d)
            sgn = 1.0 if d >= 0 else -1.0   # r_{-d} = conj r_d
            # af_j * r_d = (cre + i cim)(Rr + i sgn Ri)
            M[2 * k, 2 * idx] += cre
            M[2 * k, 2 * idx + 1] += -cim * sgn
            M[2 * k + 1, 2 * idx] += cim
            M[2 * k + 1, 2 * idx + 1] += cre * sgn
        if k == 0:
            rhs[0] = rho
    # r_0 is real: pin its imaginary part
    M[1, :] = 0
    M[1, 1] = 1
    rhs[1] = 0
    sol = np.linalg.solve(M, rhs)
    r = sol[0::2] + 1j * sol[1::2]
    return r[:m]


def oracle_minvar(p):
    sp = _sp()
    x = np.asarray(p["x"])
    m, nfft, fs = p["m"], p["nfft"], p["fs"]
    out = []
    psd, A, k = sp.minvar(p["x"], m, sampling=fs, NFFT=nfft)
    psd, A, k = np.asarray(psd), c(A), c(k)
    if psd.shape != (nfft,):
        return ["minvar PSD has shape %s, expected (%d,)" % (psd.shape, nfft)]
    if np.iscomplexobj(psd) or not np.all(np.isfinite(psd)) or not np.all(psd > 0):
        out.append("minvar PSD is not real, finite and strictly positive (min %.4g; m=%d NFFT=%d)" % (float(np.min(np.real(psd))), m, nfft))
    a, rho, ks = _burg(x, m - 1)
    if len(A) != m or A[0] != 1 or rel(A[1:], a) > 1e-8:
        out.append("minvar does not return the Burg AR vector (with leading 1) of order m-1")
    if rel(k, ks) > 1e-8:
        out.append("minvar does not return the Burg reflection coefficients")
    r = _acf_of_ar(a, rho, m)
    from scipy.linalg import toeplitz
    R = toeplitz(r, np.conj(r))
    Ri = np.linalg.inv(R)
    kk = np.arange(nfft)
    ref = np.zeros(nfft)
    for j in range(nfft):
        e = np.exp(2j * np.pi * kk[j] / nfft * np.arange(m))
        ref[j] = fs / np.real(np.conj(e) @ Ri @ e)
    if rel(psd, ref) > 1e-6 * max(1.0, np.linalg.cond(R) * 1e-6):
        out.append("minvar PSD != sampling/(e^H R^-1 e): rel err %.2e (N=%d m=%d NFFT=%d fs=%g %s)" % (
            rel(psd, ref), len(x), m, nfft, fs, "complex" if np.iscomplexobj(x) else "real"))
    return out


def oracle_class(p):
    """the class form: pminvar(...).psd is the function's estimate for the WHOLE record on the requested NFFT (two-sided for
    complex data; for real data the non-negative-frequency half, doubled) - for NFFT below, equal to and above the data length"""
    sp = _sp()
    x = np.asarray(p["x"])
    m, nfft, fs = p["m"], p["nfft"], p["fs"]
    o = sp.pminvar(x, m, NFFT=nfft, sampling=fs, scale_by_freq=False)
    got = np.asarray(o.psd)
    ref = np.asarray(sp.minvar(x, m, sampling=fs, NFFT=nfft)[0])
    if not np.iscomplexobj(x):
        L = nfft // 2 + 1 if nfft % 2 == 0 else (nfft + 1) // 2
        ref = 2 * ref[:L]
    if got.shape != ref.shape or rel(got, ref) > 1e-9:
        return ["pminvar(N=%d, m=%d, NFFT=%d, %s).psd is not the minimum-variance estimate of the record on that grid (rel err %.2e)" % (
            len(x), m, nfft, "complex" if np.iscomplexobj(x) else "real", rel(got, ref) if got.shape == ref.shape else float("inf"))]
    return []


def impl_ident(p):
    # nothing to compare with on the implementation side: the identity is checked inside the model (exact rationals)
    return []


def model_ident(p):
    return ("Q", proto.request("minvarident", "Q", [p["m"]], [np.asarray(p["x"])]))


def post_ident(p, iv, mv):
    """mv = [psi_K, diag sums (i-j=K), diag sums (j-i=K)] as floats; exact comparison is done in oracle_ident"""
    return [], []


def oracle_ident(p):
    line = model_ident(p)[1]
    rep = proto.run_driver([line])[0]
    st, val = proto.parse_reply(rep, "Q")
    if st != "ok":
        return [] if val in ("singular", "value") else ["model error %s" % val]
    psi, d1, d2 = val
    if psi != d1 and psi != d2:
        return ["EXACT Musicus identity fails in the model: psi_K != diagonal sums of R^-1 (m=%d, N=%d)" % (p["m"], len(p["x"]))]
    return []


def _key(p):
    x = np.asarray(p["x"])
    return "%d|%s|%s|%s|%s|%d" % (len(x), p["m"], p.get("nfft"), p.get("fs"), np.iscomplexobj(x), hash(x.tobytes()) & 0xFFFFFF)


def _tags(p):
    t = ["complex" if np.iscomplexobj(p["x"]) else "real", "m:%d" % p["m"]]
    if "nfft" in p:
        t.append("nfft:" + ("odd" if p["nfft"] % 2 else "even"))
    return t


KINDS = {
    "minvar": {"impl": impl_minvar, "model": model_minvar, "oracle": oracle_minvar, "rtol": 1e-7, "atol": 1e-300, "key": _key, "tags": _tags},
    "class": {"oracle": oracle_class, "key": _key, "tags": lambda p: ["class:nfft" + ("<N" if p["nfft"] < len(p["x"]) else ">=N")]},
    "ident": {"oracle": oracle_ident, "key": _key, "tags": lambda p: ["ident:" + ("complex" if np.iscomplexobj(p["x"]) else "real")]},
}


def _ok(x, m):
    a, rho, ks = _burg(x, m - 1)
    return rho >= 1e-7 * float(np.mean(np.abs(np.asarray(x)) ** 2))


KINDS["single"] = single.kind("C16")

def gen(rng, nrng, tier):
    yield from single.gen("C16", nrng, tier)
    n = 90 if tier == "quick" else 1200
    kinds = ["noise", "tone", "int", "trend"]
    nffts_seen = [32, 33, 40, 64, 65]
    for i in range(n):
        cplx = bool(nrng.integers(0, 2))
        N = int(nrng.integers(8, 129))
        x, dk = gen_data(nrng, N, cplx, kind=kinds[i % 4])
        x = np.asarray(x, dtype=complex if cplx else float)
        m = int(nrng.integers(2, min(N // 2, 16) + 1)) if i % 6 else min(N // 2, 16)   # incl. the largest admissible order
        # reuse a few NFFT values with varying m (per-NFFT state must not leak between calls)
        nfft = nffts_seen[i % 5] if nffts_seen[i % 5] >= 2 * m else 2 * m + (i % 2)
        if not _ok(x, m):
            continue
        yield ("minvar", {"x": x, "m": m, "nfft": nfft, "fs": [1.0, 2.5, 100.0][i % 3]})
    for i in range(24 if tier == "quick" else 300):        # class form, NFFT below / at / above the record length
        cplx = bool(i % 2)
        N = int(nrng.integers(12, 80))
        x, dk = gen_data(nrng, N, cplx, kind=kinds[i % 4])
        x = np.asarray(x, dtype=complex if cplx else float)
        m = int(nrng.integers(2, min(N // 2, 8) + 1))
        if not _ok(x, m):
            continue
        nfft = [2 * m, 2 * m + 1, max(2 * m, N // 2), N - 1, N, N + 1, 2 * N][i % 7]
        yield ("class", {"x": x, "m": m, "nfft": max(nfft, 2 * m), "fs": [1.0, 2.5][i % 2]})
    ni = 24 if tier == "quick" else 300
    for i in range(ni):
        cplx = bool(i % 2)
        N = int(nrng.integers(8, 17))
        x, dk = gen_data(nrng, N, cplx, kind=["noise", "int"][i % 2], exact=True)
        x = np.asarray(x, dtype=complex if cplx else float)
        m = 2 + i % 4
        if not _ok(x, m):
            continue
        yield ("ident", {"x": x, "m": m})
