"""C16  Minimum-variance spectrum equals T / (e^H R^-1 e)."""
import numpy as np

import single

import proto
from common import gen_data, rel

TRUSTED_BASE = [
    "numpy.fft is the DFT parameter; float mode rtol 1e-7 for the PSD (model correspondence for NFFT <= 300: the list-based "
    "model is cubic in NFFT; above, only the independent quadratic-form oracle is evaluated)",
    "the oracle's reference is written in numpy inside the oracle: Burg recursion, Yule-Walker solve for the lags, "
    "scipy.linalg.toeplitz, numpy.linalg.inv, the quadratic form at every bin; tolerance 1e-6 * max(1, 1e-6 cond R)",
    "kind zerok: the exact Burg model is the Lean model's arburg evaluated over the rationals (driver command burg, Q mode) on the "
    "record scaled by a power of two to small integers (AR vector and reflection coefficients do not depend on the scale); it is "
    "used only where it costs < 0.3 s (<= 5 non-zero stages); the oracle's own float recursion is compared with it as well",
    "the Musicus identity psi_K = sum_{i-j=K} (R^-1)_{ij} (Gohberg-Semencul formula for the inverse of the Toeplitz matrix of an AR "
    "model) is not proved in Lean: it is tested with EXACT equality in rational arithmetic inside the model (R from the step-down "
    "recursion of the Burg model, inverse by Gauss-Jordan elimination) on dyadic data",
]
PARTIAL = ["structured records (kind zerok) are sampled per class (3 per class x real/complex in quick, 10 per round in thorough); the "
           "exact rational reference covers the records that are small integers up to a power of two with at most 5 non-zero "
           "reflection coefficients, the others have the float reference only",
           "histories (kind reuse) are sampled, not exhausted: 36 (quick) / 150 per round (thorough) random histories of 8..60 operations; "
           "whether an identity-based (id() / address) staleness bug manifests depends on the allocator state of the process, so the "
           "same history is run with records built on the spot and with records kept by the caller",
           "sequences (kind seq) are sampled: 96 (quick) / 240 per round (thorough) sequences over 7 families; a remembered result keyed "
           "by the ADDRESS of the caller's array is only exposed when the allocator hands the freed address to the next copy, which "
           "was observed to depend on the allocator state (the copies are built on the spot and nothing is allocated by the harness "
           "between two calls, no more can be done from outside); the second pass separates the calls by ONE unrelated analysis, so "
           "that a store with more than one slot is exposed by the independent reference only, not by the repeat comparison"]
ASSUMPTIONS = ["NFFT >= 2m (no overlap of the two halves of psi); non-degenerate Burg error (rho_k >= 1e-9 rho_0)",
               "kind zerok: 'non-degenerate prediction error' is decided by the independent float Burg recursion of the oracle: "
               "rho_{m-1} >= 1e-7 rho_0 and every quantity finite (the threshold the generator uses for all other kinds); a pure fs/4 "
               "carrier, a pure alternating-sign record, a constant on a 1-in-2 grid are generated on purpose and must be excluded",
               "histories: the statement is read as 'the estimate of the data the object holds at the time of the read, with the order / "
               "NFFT / sampling it holds then'; .ar / .reflection are compared only after psd has been read or p() called (they are plain "
               "attributes that the class fills during the computation); after the caller has modified its own array in place the "
               "reference is the current content of .data (the unchanged class copies what it is handed, so this is the record as handed "
               "over)",
               "kind seq: the integer / single-precision / interleaved readings of a record's bytes are ordinary records of the "
               "quantifier (finite values, 8 <= N <= 128, 2 <= m <= min(N/2,16), non-degenerate Burg error - checked per step with "
               "the predicate of the other kinds); a record holding -0.0 is not read as int64 (INT64_MIN has no absolute value in "
               "int64); for complex64 / float32 containers the statement is evaluated with the precision such a container "
               "reaches in the unchanged package (the zero-lag energy is formed in single precision by arburg: AR vector within 6.4e-7 "
               "of the double-precision Burg fit of the same values), tolerance 5e-5"]
RULE = ("real/complex data (noise, tones in noise, integer, trend) of length 8..128 x m in 2..min(N/2,16) x NFFT >= 2m even/odd "
        "(the boundaries 2m and 2m+1 for every m in 2..8, NFFT < 32, primes, powers of two up to the default 4096) x "
        "sampling in {0.01, 0.5, 1, 2.5, 3 (int), 100}; containers handed to the API: float64/complex128 arrays, int64 / int16 "
        "arrays, lists, complex arrays with zero imaginary part; smallest sizes (N=8 m=4 NFFT=8, N=8 m=2 NFFT=4, N=9 m=4 NFFT=9, "
        "N=32 m=16 NFFT=32); call forms: defaults, positional, keyword; class form with scale_by_freq off/on, its ar / reflection "
        "attributes; exact identity cases N <= 16, m <= 5; HISTORIES on re-used pminvar objects (kind reuse: 1 object, or 2-3 objects "
        "with equal N / order alive at once, operations interleaved): records of a pool assigned to .data once, twice before the next "
        "read (load + remove the mean / taper / gain; a then b), 3-5 times, in place (*=, -=), from itself, handed over as temporaries "
        "that are freed at once (no reference to any intermediate array is kept by the executing pass: CPython recycles their id() / "
        "address) or as arrays / views / lists the caller keeps, same and changing record length, real, complex and real<->complex on "
        "one object, amplitudes 2^-40..2^40; ar_order / NFFT / sampling / scale_by_freq changed in between; computations that fail "
        "in between (order 0 read / called, rejected NFFT); the caller modifying in place the arrays it handed to the constructor / "
        "setter; observations by reading psd (once, twice) or after an explicit p(): psd, ar, reflection each equal (per bin, 1e-13) "
        "to minvar and to a fresh pminvar on the final attribute values, and the independent quadratic form on the last state; "
        "STRUCTURED RECORDS with exactly-zero intermediate quantities of the Burg recursion (kind zerok: a reflection coefficient "
        "exactly 0.0 at some stage followed by further stages, exact zeros in the forward / backward errors and in the AR vector): "
        "zero-inserted up-sampling by 2 / 3 / 4 (any phase), mixing with the exact fs/4 carrier 1,0,-1,0 / 0,1,0,-1, Barker-11 / 13 "
        "(reversed, sign-alternated, times a Gaussian integer, followed by silence), random +-1 / QPSK codes and short integer records "
        "with zero lag-1 correlation, one impulse in the last / first / an interior sample, 2-4 isolated samples, exactly symmetric / "
        "antisymmetric records, leading / trailing / interior / periodic blocks of exact zeros; the same records with a leak 2^-20 / "
        "2^-35 / 2^-50 in the zero samples (tiny, non-zero reflection coefficients); samples small integers, dyadic, float noise, tone "
        "in noise; real and complex, N 8..128, m 2..12, through minvar and pminvar (scale_by_freq off / on), int8 / int16 / int64 / list "
        "containers; each checked against the independent quadratic form, the AR vector and reflection coefficients of the "
        "independent Burg recursion and - small-integer records with <= 5 non-zero stages - of the Lean model's Burg recursion in "
        "EXACT rational arithmetic (1e-12); records with (numerically) zero prediction error are recognised by a predicate on the "
        "independent reference and not evaluated (tag zerok:excluded:degenerate-prediction-error); structured integer records also "
        "through the exact Musicus identity; "
        "SEQUENCES of 2-10 calls (kind seq; minvar and pminvar, scale_by_freq off / on, sometimes preceded by the caller's own arburg / "
        "pburg analysis at order m-1) on records that are DIFFERENT inputs but agree in an incomplete description of the input: a "
        "complex128 record and its float64 interleaved view z.view(float64) (same bytes, real, length 2N) / an even-length float64 "
        "record and its complex128 reading, both orders, same m; a float64 / complex128 record and the int64 / uint64 reading of its "
        "bytes; a float64 record made of single-precision halves and its complex64 / float32 / int64 readings; records of equal "
        "length, first and last sample, sum and energy (interior permuted, one pair exchanged, interior rotated / reversed; dyadic "
        "samples so that sum and energy are exactly equal), reversed, negated, conjugated, two samples moved by +d / -d, a prefix; one "
        "record with configuration A, then another m / NFFT / sampling / scale_by_freq / entry point, then A again; a record, a copy "
        "of it built on the spot and freed after the call, its list, another record in between; records that are numerically close "
        "(one sample / all samples changed by a relative 2^-52..2^-20) and unrelated records at amplitude 2^-40; the calls of a "
        "sequence are made back to back, every minvar / pminvar result is checked against the independent quadratic form and the "
        "independent Burg recursion on the VALUES of the reading (tolerances of the other kinds; 5e-5 when the container handed over "
        "is single precision), and every call is made a second time right after an analysis of an unrelated record and must return "
        "the same numbers (per bin, 1e-13; bitwise on the unchanged tree)")


def _sp():
    import spectrum
    return spectrum


def c(v):
    return np.asarray(v).astype(complex).ravel()


INT_KINDS = {"int64": np.int64, "int16": np.int16}
MODEL_MAX_NFFT = 300     # the list-based model is cubic in NFFT: above this only the oracle is evaluated


def _api_input(p):
    """what is handed to the real API: p["x"] is always the float64/complex128 array of the sample VALUES (used by the reference
    and the model); p["dkind"] says in which container / dtype the same values are passed to the library ("czero": the
    complex128 array itself, whose imaginary part is identically zero).  (Amplitude variants
    derived by vcheck.vary may make an integer record non-integer or too large for the narrow dtype: the values then go in
    the next wider container that holds them exactly.)"""
    x = p["x"]
    dk = p.get("dkind")
    if dk == "list":
        return [complex(v) if np.iscomplexobj(x) else float(v) for v in x]
    if dk in INT_KINDS and not np.iscomplexobj(x) and np.all(x == np.round(x)) and np.max(np.abs(x)) < 2.0 ** 62:
        dt = INT_KINDS[dk]
        if np.min(x) < np.iinfo(dt).min or np.max(x) > np.iinfo(dt).max:
            dt = np.int64
        return np.asarray(x).astype(dt)
    return x


def impl_minvar(p):
    psd, A, k = _sp().minvar(_api_input(p), p["m"], sampling=p["fs"], NFFT=p["nfft"])
    return [np.asarray(psd), c(A), c(k)]


def model_minvar(p):
    if p["nfft"] > MODEL_MAX_NFFT:
        return None
    return ("F", proto.request("minvarx", "F", [p["m"], p["nfft"]], [np.asarray(p["x"]), [p["fs"]]]))


def _burg(x, p):
    x = np.asarray(x, dtype=complex)
    ef = x.copy()
    eb = x.copy()
    a = np.zeros(0, dtype=complex)
    rho = float(np.mean(np.abs(x) ** 2))
    ks = []
    for m in range(p):
        efp = ef[1:]
        ebp = eb[:-1]
        k = -2 * np.sum(efp * np.conj(ebp)) / (np.sum(np.abs(efp) ** 2) + np.sum(np.abs(ebp) ** 2))
        ef = efp + k * ebp
        eb = ebp + np.conj(k) * efp
        a = np.concatenate((a + k * np.conj(a[::-1]), [k]))
        rho *= 1 - abs(k) ** 2
        ks.append(k)
    return a, rho, np.array(ks)


def _acf_of_ar(a, rho, m):
    """autocorrelation lags r_0..r_{m-1} of the AR(p) model (a without leading 1, driving variance rho): solve the
    Yule-Walker equations for r (independent of the library's rlevinson)"""
    p = len(a)
    af = np.concatenate(([1], a))
    # unknowns r_0..r_p (complex, r_{-k} = conj r_k): sum_j af_j r_{k-j} = rho*[k=0], k = 0..p  -> real linear system
    n = p + 1
    M = np.zeros((2 * n, 2 * n))
    rhs = np.zeros(2 * n)
    for k in range(n):
        for j in range(n):
            d = k - j
            cre, cim = af[j].real, af[j].imag
            idx = abs(d)
            sgn = 1.0 if d >= 0 else -1.0   # r_{-d} = conj r_d
            # af_j * r_d = (cre + i cim)(Rr + i sgn Ri)
            M[2 * k, 2 * idx] += cre
            M[2 * k, 2 * idx + 1] += -cim * sgn
            M[2 * k + 1, 2 * idx] += cim
            M[2 * k + 1, 2 * idx + 1] += cre * sgn
        if k == 0:
            rhs[0] = rho
    # r_0 is real: pin its imaginary part
    M[1, :] = 0
    M[1, 1] = 1
    rhs[1] = 0
    sol = np.linalg.solve(M, rhs)
    r = sol[0::2] + 1j * sol[1::2]
    return r[:m]


def _reference(x, m, nfft, fs):
    """INDEPENDENT reference of the property statement: sampling / (e(f_k)^H R^-1 e(f_k)), f_k = k/NFFT, R the m x m Hermitian
    Toeplitz matrix of the autocorrelation lags implied by the order m-1 Burg model (own Burg recursion, own Yule-Walker solve,
    dense inverse, the quadratic form at every bin).  Returns (two-sided reference, AR parameters without the leading 1,
    reflection coefficients, cond R)."""
    from scipy.linalg import toeplitz
    a, rho, ks = _burg(x, m - 1)
    r = _acf_of_ar(a, rho, m)
    R = toeplitz(r, np.conj(r))
    Ri = np.linalg.inv(R)
    E = np.exp(2j * np.pi * np.outer(np.arange(nfft), np.arange(m)) / nfft)      # row k: e(f_k)
    ref = fs / np.real(np.einsum("ki,ij,kj->k", np.conj(E), Ri, E))
    return ref, a, ks, float(np.linalg.cond(R))


def _tol(cond):
    return 1e-6 * max(1.0, cond * 1e-6)


def _desc(p):
    x = np.asarray(p["x"])
    return "N=%d m=%d NFFT=%s fs=%s %s%s" % (len(x), p["m"], p.get("nfft"), p.get("fs"), "complex" if np.iscomplexobj(x) else "real",
                                          " as " + p["dkind"] if p.get("dkind") else "")


def _check_function_output(res, x, m, nfft, fs, what):
    """the clauses of the property on one return value of spectrum.minvar"""
    out = []
    psd, A, k = res
    psd, A, k = np.asarray(psd), c(A), c(k)
    if psd.shape != (nfft,):
        return ["minvar PSD has shape %s, expected (%d,) (%s)" % (psd.shape, nfft, what)]
    if np.iscomplexobj(psd) or not np.all(np.isfinite(psd)) or not np.all(psd > 0):
        out.append("minvar PSD is not real, finite and strictly positive (min %.4g; %s)" % (float(np.min(np.real(psd))), what))
    ref, a, ks, cond = _reference(x, m, nfft, fs)
    if len(A) != m or A[0] != 1 or rel(A[1:], a) > 1e-8:
        out.append("minvar does not return the Burg AR vector (with leading 1) of order m-1 (%s)" % what)
    if len(k) != m - 1 or rel(k, ks) > 1e-8:
        out.append("minvar does not return the Burg reflection coefficients (%s)" % what)
    if rel(psd, ref) > _tol(cond):
        out.append("minvar PSD != sampling/(e^H R^-1 e): rel err %.2e (%s)" % (rel(psd, ref), what))
    return out


def oracle_minvar(p):
    sp = _sp()
    x = np.asarray(p["x"])
    m, nfft, fs = p["m"], p["nfft"], p["fs"]
    return _check_function_output(sp.minvar(_api_input(p), m, sampling=fs, NFFT=nfft), x, m, nfft, fs, _desc(p))


def _fold(ref, is_complex, nfft):
    """the class's rule for the stored estimate: complex data -> the two-sided estimate itself; real data -> the first half of
    the two-sided estimate (bins 0..NFFT/2 for even NFFT, 0..(NFFT-1)/2 for odd NFFT), EVERY bin doubled, including DC and
    Nyquist (the convention of the other parametric classes of the package)"""
    if is_complex:
        return ref
    L = nfft // 2 + 1 if nfft % 2 == 0 else (nfft + 1) // 2
    return 2 * ref[:L]


def _check_class_output(o, xin, x, m, nfft, fs, scale, what):
    out = []
    got = np.asarray(o.psd)
    is_complex = np.iscomplexobj(np.asarray(xin))     # the class chooses the branch from the dtype it is handed
    factor = 2 * np.pi / (fs / float(nfft)) if scale else 1.0      # scale_by_freq: times 2*pi/df, df = sampling/NFFT
    ind, a, ks, cond = _reference(x, m, nfft, float(fs))
    ind = _fold(ind, is_complex, nfft) * factor
    if got.shape != ind.shape or np.iscomplexobj(got) or rel(got, ind) > _tol(cond):
        out.append("pminvar(%s%s).psd is not sampling/(e^H R^-1 e) on that grid, folded by the class's rule (rel err %.2e)" % (
            what, ", scale_by_freq" if scale else "", rel(got, ind) if got.shape == ind.shape else float("inf")))
    if not (np.all(np.isfinite(got)) and np.all(got > 0)):
        out.append("pminvar(%s).psd is not finite and strictly positive" % what)
    A, k = c(o.ar), c(o.reflection)
    if len(A) != m or A[0] != 1 or rel(A[1:], a) > 1e-8:
        out.append("pminvar(%s).ar is not the Burg AR vector (with leading 1) of order m-1" % what)
    if len(k) != m - 1 or rel(k, ks) > 1e-8:
        out.append("pminvar(%s).reflection is not the vector of Burg reflection coefficients" % what)
    return out


def oracle_class(p):
    """the class form: pminvar(...).psd is the estimate for the WHOLE record on the requested NFFT (two-sided for
    complex data; for real data the non-negative-frequency half, doubled) - for NFFT below, equal to and above the data length;
    .ar / .reflection are the Burg vectors the estimate used"""
    sp = _sp()
    x = np.asarray(p["x"])
    xin = _api_input(p)
    m, nfft, fs = p["m"], p["nfft"], p["fs"]
    scale = bool(p.get("scale", False))
    what = _desc(p)
    o = sp.pminvar(xin, m, NFFT=nfft, sampling=fs, scale_by_freq=scale)
    got = np.asarray(o.psd)
    out = []
    # (a) consistency with the function (code against code, tight)
    ref = np.asarray(sp.minvar(xin, m, sampling=fs, NFFT=nfft)[0])
    ref = _fold(ref, np.iscomplexobj(np.asarray(xin)), nfft) * (2 * np.pi * nfft / fs if scale else 1.0)
    if got.shape != ref.shape or rel(got, ref) > 1e-9:
        out.append("pminvar(%s).psd is not the minimum-variance estimate of the record on that grid (rel err %.2e)" % (
            what, rel(got, ref) if got.shape == ref.shape else float("inf")))
    # (b) the property statement itself, against the independent reference, and the returned Burg vectors
    out += _check_class_output(o, xin, x, m, nfft, fs, scale, what)
    return out


# the documented call forms of the two entry points (spectrum.minvar, pminvar): defaults, positional, keyword, integer sampling
DEFAULT_NFFT = 4096      # the documented default of minvar ("NFFT=default_NFFT", 4096), written out independently of the package


def oracle_forms(p):
    sp = _sp()
    x = np.asarray(p["x"])
    m, nfft, form = p["m"], p["nfft"], p["form"]
    what = "form %s, N=%d m=%d %s" % (form, len(x), m, "complex" if np.iscomplexobj(x) else "real")
    if form == "default":                 # minvar(x, m): sampling 1, the package default NFFT
        return _check_function_output(sp.minvar(x, m), x, m, DEFAULT_NFFT, 1.0, what)
    if form == "positional":              # minvar(x, m, sampling, NFFT)
        return _check_function_output(sp.minvar(x, m, 2, nfft), x, m, nfft, 2.0, what)
    if form == "keyword":                 # every argument by its documented name
        return _check_function_output(sp.minvar(X=x, order=m, NFFT=nfft, sampling=2.5), x, m, nfft, 2.5, what)
    if form == "intfs":                   # integer sampling
        return _check_function_output(sp.minvar(x, m, sampling=3, NFFT=nfft), x, m, nfft, 3.0, what)
    if form == "smallfs":
        return _check_function_output(sp.minvar(x, m, sampling=0.01, NFFT=nfft), x, m, nfft, 0.01, what)
    if form == "class-default":           # pminvar(x, m): NFFT = the record length (needs N >= 2m), sampling 1, unscaled
        o = sp.pminvar(x, m)
        return _check_class_output(o, x, x, m, len(x), 1.0, False, what)
    if form == "class-positional":        # pminvar(data, order, NFFT, sampling, scale_by_freq)
        o = sp.pminvar(x, m, nfft, 2, True)
        return _check_class_output(o, x, x, m, nfft, 2.0, True, what)
    if form == "class-intfs":
        o = sp.pminvar(x, m, NFFT=nfft, sampling=3)
        return _check_class_output(o, x, x, m, nfft, 3.0, False, what)
    raise ValueError(form)


FORMS = ["default", "positional", "keyword", "intfs", "smallfs", "class-default", "class-positional", "class-intfs"]


def impl_ident(p):
    # nothing to compare with on the implementation side: the identity is checked inside the model (exact rationals)
    return []


def model_ident(p):
    return ("Q", proto.request("minvarident", "Q", [p["m"]], [np.asarray(p["x"])]))


def post_ident(p, iv, mv):
    """mv = [psi_K, diag sums (i-j=K), diag sums (j-i=K)] as floats; exact comparison is done in oracle_ident"""
    return [], []


_IDENT_REPLY = {}


def _ident_reply(p):
    line = model_ident(p)[1]
    if line not in _IDENT_REPLY:
        if len(_IDENT_REPLY) > 4096:
            _IDENT_REPLY.clear()
        _IDENT_REPLY[line] = proto.parse_reply(proto.run_driver([line])[0], "Q")
    return _IDENT_REPLY[line]


def oracle_ident(p):
    """psi_K = sum_{i-j=K} (R^-1)_{ij} (the LOWER diagonals) exactly; the sums over the upper diagonals are the conjugates, so
    accepting either direction would let a conjugation error of psi pass"""
    st, val = _ident_reply(p)
    if st != "ok":
        # "singular"/"value": the model could not form R^-1 exactly - the case is not evaluated (counted by the ident:skipped tag)
        return [] if val in ("singular", "value") else ["model error %s" % val]
    psi, d1, d2 = val
    if psi != d1:
        return ["EXACT Musicus identity fails in the model: psi_K != sum over the K-th lower diagonal of R^-1 (m=%d, N=%d)" % (p["m"], len(p["x"]))]
    return []


def _tags_ident(p):
    t = ["ident:" + ("complex" if np.iscomplexobj(p["x"]) else "real")]
    st, val = _ident_reply(p)
    t.append("ident:evaluated" if st == "ok" else "ident:skipped:%s" % val)
    return t


def _key(p):
    x = np.asarray(p["x"])
    return "%d|%s|%s|%s|%s|%d|%s|%s|%s" % (len(x), p["m"], p.get("nfft"), p.get("fs"), np.iscomplexobj(x), hash(x.tobytes()) & 0xFFFFFF,
                                       p.get("dkind"), p.get("scale"), p.get("form"))


def _tags(p):
    t = ["complex" if np.iscomplexobj(p["x"]) else "real", "m:%d" % p["m"]]
    if "nfft" in p:
        nfft, m, N = p["nfft"], p["m"], len(p["x"])
        t.append("nfft:" + ("odd" if nfft % 2 else "even"))
        if nfft == 2 * m:
            t.append("nfft:=2m")
        elif nfft == 2 * m + 1:
            t.append("nfft:=2m+1")
        t.append("nfft:<32" if nfft < 32 else "nfft:32..127" if nfft < 128 else "nfft:128..300" if nfft <= MODEL_MAX_NFFT else "nfft:>300(oracle only)")
        if 2 * m == N:
            t.append("m=N/2")
        if N <= 10:
            t.append("N<=10")
    if p.get("dkind"):
        t.append("input:" + p["dkind"])
    return t


def _tags_class(p):
    N, nfft = len(p["x"]), p["nfft"]
    t = ["class:nfft" + ("<N" if nfft < N else ">=N"), "class:" + ("complex" if np.iscomplexobj(p["x"]) else "real"),
         "class:scale_by_freq=%s" % bool(p.get("scale", False)), "class:fs=%g" % p["fs"]]
    if nfft == N:
        t.append("class:nfft=N")
    if p["m"] > 8:
        t.append("class:m>8")
    if 2 * p["m"] == N:
        t.append("class:m=N/2")
    if p.get("dkind"):
        t.append("class:input:" + p["dkind"])
    return t


# ---- histories on re-used pminvar objects -----------------------------------------------------------------------------------------
# The statement is observed at pminvar.psd (and .ar / .reflection, "the Burg vectors it used"); an estimator object is a
# container that is re-used (new records assigned to .data, order / NFFT / sampling changed, explicit p() calls).  Whatever the
# history, every observation must be the minimum-variance estimate OF THE DATA THE OBJECT HOLDS NOW, with the order / NFFT /
# sampling it holds now: i.e. what the function minvar and a freshly built object return for the final attribute values.
#
# params:  recs   K x Nmax array (float64 or complex128): the pool of records
#          init   one record source per object (several objects may be alive at once)
#          m, nfft, fs, scale   constructor arguments (the same for every object: equal N / order is the interesting case for
#                               state shared through the module or the class)
#          ops    list of [object index, name, args...]
# a record source is [i, n, re]: the first n samples of record i (re = 1: their real part only).
#
# IMPORTANT (process-global state): CPython hands the address (= id()) of a freed ndarray to the next ndarray that is created.
# Code that recognises "the data did not change" by object identity is wrong exactly when the intermediate arrays of a history
# have been freed.  The executing pass (_run_history) therefore never binds a record, a temporary or `o.data` to a name that
# outlives the statement; the expected values are computed in a SEPARATE pass (_expected_states) from params alone.

REUSE_GAINS = [2.0, 0.5, -1.0, 3.0, 1e-3, 1024.0]


def _src(p, s):
    """a NEW array holding the record source s (nothing else refers to it)"""
    i, n, re = s
    r = p["recs"][int(i)][:int(n)]
    return np.array(r.real if re else r)


def _src_as(p, s, how):
    """the record in the container the history hands to the object: "new" a temporary array, "view" a view of the pool (strided
    when the real part of a complex record is taken), "list" a python list"""
    if how == "view":
        i, n, re = s
        r = p["recs"][int(i)][:int(n)]
        return r.real if re else r
    if how == "list":
        r = _src(p, s)
        return [complex(v) for v in r] if np.iscomplexobj(r) else [float(v) for v in r]
    return _src(p, s)


def _taper(n):
    return 0.54 - 0.46 * np.cos(2 * np.pi * (np.arange(n) + 0.5) / n)


def _data_op_expected(p, cur, name, a):
    """the value of .data after a data operation (same arithmetic, on the harness' own arrays)"""
    if name in ("set", "set-keep"):
        return _src(p, a[0])
    if name == "set-demean":
        r = _src(p, a[0])
        return r - r.mean()
    if name == "set-window":
        r = _src(p, a[0])
        return r * _taper(len(r))
    if name == "set-gain":
        return _src(p, a[0]) * a[1]
    if name == "set-set":
        return _src(p, a[1])
    if name == "set-many":
        return _src(p, a[-1])
    if name == "inplace-gain":
        return cur * a[0]
    if name in ("inplace-demean", "self-demean"):
        return cur - cur.mean()
    if name == "self-self":
        r = cur * a[0]
        return r - r.mean()
    raise ValueError(name)


DATA_OPS = ("set", "set-keep", "set-demean", "set-window", "set-gain", "set-set", "set-many", "inplace-gain", "inplace-demean", "self-demean", "self-self")


def _rec(p, pool, s, how="new"):
    """the record source s as the history hands it to the object.  pool None ("temp" histories): a temporary built on the spot,
    freed after the statement; otherwise ("kept" histories) the caller's own array of that record, which the caller keeps for the
    whole history (what is never kept, in both modes, is an array the OBJECT made or an intermediate result)"""
    if pool is None:
        return _src_as(p, s, how)
    base = pool[(int(s[0]), int(s[1]), int(s[2]))]
    return base[:] if how == "view" else base.tolist() if how == "list" else base


def _data_op_execute(o, p, name, a, pool=None):
    """the same operation on the object, written the way a script writes it.  No temporary / o.data is bound to a local
    name: every intermediate array is freed as soon as the statement that made it has run."""
    if name == "set":
        o.data = _rec(p, pool, a[0], a[1])
    elif name == "set-demean":                     # load, then remove the mean
        o.data = _rec(p, pool, a[0])
        o.data = o.data - o.data.mean()
    elif name == "set-window":                     # load, then taper (the taper computed on the spot / kept by the caller)
        o.data = _rec(p, pool, a[0])
        if pool is None:
            o.data = o.data * _taper(o.N)
        else:
            o.data = o.data * pool["taper", int(a[0][1])]
    elif name == "set-gain":
        o.data = _rec(p, pool, a[0])
        o.data = o.data * a[1]
    elif name == "set-set":                        # two assignments before the next read
        o.data = _rec(p, pool, a[0], a[2])
        o.data = _rec(p, pool, a[1], a[2])
    elif name == "set-many":                       # three or more assignments before the next read
        for s in a:
            o.data = _rec(p, pool, s)
    elif name == "inplace-gain":
        o.data *= a[0]
    elif name == "inplace-demean":
        o.data -= o.data.mean()
    elif name == "self-demean":
        o.data = o.data - o.data.mean()
    elif name == "self-self":
        o.data = o.data * a[0]
        o.data = o.data - o.data.mean()
    else:
        raise ValueError(name)


def _expected_states(p, final=False):
    """pass B: the attribute values every object holds at each "check" operation, from params alone (pure numpy, the library is
    not involved).  Yields (op index, object index, state dict, check mode); with final=True, instead, the states after the last
    operation (mode "final")."""
    st = [{"x": _src(p, s), "m": int(p["m"]), "nfft": int(p["nfft"]), "fs": p["fs"], "scale": bool(p.get("scale", False)), "alias": False}
          for s in p["init"]]
    for j, op in enumerate(p["ops"]):
        k, name, a = int(op[0]), op[1], list(op[2:])
        s = st[k]
        if name != "check":
            s["last"] = "op %d %r" % (j, name)
        if name in DATA_OPS:
            s["x"] = _data_op_expected(p, s["x"], name, a)
            s["alias"] = False
        elif name == "order":
            s["m"] = int(a[0])
        elif name == "nfft":
            s["nfft"] = int(a[0])
        elif name == "fs":
            s["fs"] = a[0]
        elif name == "scale":
            s["scale"] = bool(a[0])
        elif name == "mutate-caller":
            s["alias"] = True
        elif name == "fail":
            pass
        elif name == "check":
            if not final:
                yield j, k, dict(s), a[0]
        else:
            raise ValueError(name)
    if final:
        for k, s in enumerate(st):
            yield len(p["ops"]), k, dict(s), "final"


def _run_history(sp, p):
    """pass A: the history on the real objects; returns the observations [(psd, ar, reflection, data held, psd read again)] made
    at the "check" operations (copies of the attribute values, taken after the read)"""
    p = dict(p, recs=np.array(p["recs"]))          # a working copy of the pool: views of it are handed to the objects
    callers = [_src(p, s) for s in p["init"]]      # the arrays the caller hands to the constructors (the caller keeps them)
    pool = None
    if p.get("pool") == "kept":
        pool = {}
        for op in p["ops"]:
            for s in op[2:]:
                if isinstance(s, (list, tuple)) and len(s) == 3:
                    pool.setdefault((int(s[0]), int(s[1]), int(s[2])), _src(p, s))
                    pool.setdefault(("taper", int(s[1])), _taper(int(s[1])))
    objs = [sp.pminvar(x, int(p["m"]), NFFT=int(p["nfft"]), sampling=p["fs"], scale_by_freq=bool(p.get("scale", False))) for x in callers]
    obs = []
    for op in p["ops"]:
        k, name, a = int(op[0]), op[1], list(op[2:])
        o = objs[k]
        if name == "set-keep":                    # the caller keeps the array it assigns (and may modify it later)
            callers[k] = _src(p, a[0])
            o.data = callers[k]
        elif name in DATA_OPS:
            _data_op_execute(o, p, name, a, pool)
        elif name == "order":
            o.ar_order = int(a[0])
        elif name == "nfft":
            o.NFFT = int(a[0])
        elif name == "fs":
            o.sampling = a[0]
        elif name == "scale":
            o.scale_by_freq = bool(a[0])
        elif name == "mutate-caller":
            # the caller goes on using ITS array (the one handed to the constructor) for something else
            callers[k] *= -3.0
            callers[k][::2] += 1.0 + np.abs(callers[k]).max()
        elif name == "fail":
            # a computation that fails in the middle of the history (the exception is the caller's business and is dropped);
            # the object is then given valid values again
            if a[0] == "order0":
                keep = o.ar_order
                o.ar_order = 0
                try:
                    o.psd
                except Exception:
                    pass
                o.ar_order = keep
            elif a[0] == "call-order0":
                keep = o.ar_order
                o.ar_order = 0
                try:
                    o()
                except Exception:
                    pass
                o.ar_order = keep
            else:                               # a rejected NFFT value: the setter raises, nothing changes
                try:
                    o.NFFT = 2.5
                except Exception:
                    pass
        elif name == "check":
            mode = a[0]
            if mode == "call":                  # explicit computation, then the attributes
                o()
                ar, refl = np.array(o.ar), np.array(o.reflection)
                psd = np.array(o.psd)
            else:                               # reading psd computes what is needed
                psd = np.array(o.psd)
                ar, refl = np.array(o.ar), np.array(o.reflection)
            again = np.array(o.psd) if mode == "psd2" else None
            obs.append((psd, ar, refl, np.array(o.data), again))
        else:
            raise ValueError(name)
    return obs, objs


def _binrel(a, b):
    """PER-BIN relative deviation (a minimum-variance spectrum of a tone record spans many decades)"""
    a, b = np.asarray(a), np.asarray(b)
    if a.shape != b.shape or not (np.all(np.isfinite(a)) and np.all(np.isfinite(b))):
        return float("inf")
    if a.size == 0:
        return 0.0
    d = np.abs(a - b)
    s = np.maximum(np.abs(a), np.abs(b))
    return float(np.max(np.where(d == 0, 0.0, d / np.where(s == 0, 1.0, s))))


# measured on the unchanged tree (quick seeds 0..9 and one thorough run): the object's psd / ar / reflection after a history are
# BITWISE equal (deviation 0.0) to those of minvar / a fresh pminvar on the final attribute values - it is the same code on the same
# numbers; the only rounding that may differ is the scale_by_freq factor (2 pi / df on the object, written 2 pi NFFT / sampling here:
# <= 2 ulp = 4.4e-16 observed).  1e-13 is > 200 x that.
REUSE_TOL = 1e-13


def oracle_reuse(p):
    sp = _sp()
    obs, objs = _run_history(sp, p)
    out = []
    for (j, k, s, mode), (psd, ar, refl, held, again) in zip(_expected_states(p), obs):
        x, m, nfft, fs, scale = s["x"], s["m"], s["nfft"], s["fs"], s["scale"]
        what = "object %d, check at op %d, its last change %s: N=%d m=%d NFFT=%d fs=%s %s" % (k, j, s.get("last", "the constructor"), len(x), m, nfft, fs,
                                                                                          "complex" if np.iscomplexobj(x) else "real")
        if s["alias"]:
            # the caller has modified, in place, the array it had handed to the constructor.  The statement is about the data the
            # object holds: the observation must be the estimate of what .data holds NOW (the unchanged library copies the
            # caller's array, so that this is the record as it was handed over; an object that shares the caller's memory and
            # serves an estimate computed before the modification breaks the statement)
            if held.shape != x.shape or held.dtype != x.dtype or not np.array_equal(held, x):
                x = held
                what += " [.data follows the caller's array]"
        elif held.shape != x.shape or not np.array_equal(held, x):
            out.append("pminvar.data does not hold the assigned record (%s)" % what)
            continue
        is_c = np.iscomplexobj(x)
        fpsd, fA, fk = sp.minvar(x, m, sampling=fs, NFFT=nfft)
        ref = _fold(np.asarray(fpsd), is_c, nfft) * (2 * np.pi * nfft / fs if scale else 1.0)
        if psd.shape != ref.shape or _binrel(psd, ref) > REUSE_TOL:
            out.append("re-used pminvar: psd is not the minimum-variance estimate of the data it holds (per-bin rel err %.2e vs minvar; %s)" % (
                _binrel(psd, ref) if psd.shape == ref.shape else float("inf"), what))
        if not (np.all(np.isfinite(psd)) and np.all(psd > 0) and not np.iscomplexobj(psd)):
            out.append("re-used pminvar: psd is not real, finite and strictly positive (%s)" % what)
        if _binrel(c(ar), c(fA)) > REUSE_TOL:
            out.append("re-used pminvar: .ar is not the Burg AR vector of the data it holds (rel err %.2e; %s)" % (_binrel(c(ar), c(fA)), what))
        if _binrel(c(refl), c(fk)) > REUSE_TOL:
            out.append("re-used pminvar: .reflection is not the Burg reflection vector of the data it holds (rel err %.2e; %s)" % (
                _binrel(c(refl), c(fk)), what))
        if again is not None and not np.array_equal(again, psd):
            out.append("re-used pminvar: reading psd twice gives two different estimates (%s)" % what)
        fresh = sp.pminvar(x, m, NFFT=nfft, sampling=fs, scale_by_freq=scale)
        fp = np.asarray(fresh.psd)
        if fp.shape != psd.shape or _binrel(psd, fp) > REUSE_TOL or _binrel(c(ar), c(fresh.ar)) > REUSE_TOL or _binrel(c(refl), c(fresh.reflection)) > REUSE_TOL:
            out.append("re-used pminvar differs from a fresh pminvar with the same attribute values (psd per-bin rel err %.2e; %s)" % (
                _binrel(psd, fp) if fp.shape == psd.shape else float("inf"), what))
        if len(out) >= 4:
            break
    # the statement itself (independent numpy reference) on the state of every object after the last operation
    if not out:
        for j, k, s, mode in _expected_states(p, final=True):
            x = s["x"]
            if s["alias"]:
                x = np.array(objs[k].data)
            out += _check_class_output(objs[k], x, x, s["m"], s["nfft"], s["fs"], s["scale"], "object %d after the whole history, N=%d m=%d NFFT=%d fs=%s %s" % (
                k, len(x), s["m"], s["nfft"], s["fs"], "complex" if np.iscomplexobj(x) else "real"))
    return out


def _tags_reuse(p):
    recs = np.asarray(p["recs"])
    ops = p["ops"]
    srcs = [s for op in ops for s in op[2:] if isinstance(s, (list, tuple)) and len(s) == 3] + list(p["init"])
    re = set(int(s[2]) for s in srcs)
    t = ["reuse:objects=%d" % len(p["init"]), "reuse:flavour=%s" % p.get("flavour"), "reuse:records=%s" % p.get("pool", "temp"),
         "reuse:" + ("real" if not np.iscomplexobj(recs) else "complex" if re == {0} else "real<->complex"),
         "reuse:checks=%s" % ("<=4" if sum(1 for op in ops if op[1] == "check") <= 4 else "5..12" if sum(1 for op in ops if op[1] == "check") <= 12 else ">12")]
    if len(set(int(s[1]) for s in srcs)) > 1:
        t.append("reuse:length-changes")
    if p.get("amp"):
        t.append("reuse:amp=2^%d" % p["amp"])
    for op in ops:
        t.append("reuse-op:%s%s" % (op[1], ":" + str(op[2]) if op[1] in ("check", "fail") else
                                    ":" + str(op[-1]) if op[1] in ("set", "set-set") else ":%d" % (len(op) - 2) if op[1] == "set-many" else ""))
    return t


def _key_reuse(p):
    import zlib
    recs = np.ascontiguousarray(p["recs"])
    return "reuse|%s|%d|%s|%s|%s|%d" % (recs.shape, zlib.crc32(recs.tobytes()), p["m"], p["nfft"], p["fs"],
                                       zlib.crc32(repr([list(op) for op in p["ops"]]).encode()))


# ---- structured records on which an intermediate quantity of the Burg recursion is EXACTLY zero (kind "zerok") ---------------------
# "all real/complex data of length 8..128" includes records whose lagged products cancel exactly: zero-inserted (up-sampled)
# records, records mixed with the exact fs/4 carrier 1,0,-1,0,..., +-1 codes (Barker, random codes with zero lag-1 correlation),
# short integer records, a single impulse (last / first / interior sample), a few isolated samples, exactly (anti)symmetric
# records, records with blocks of exact zeros.  There a reflection coefficient is exactly 0.0 at some stage and further stages
# follow (Eq. 8.2 is then a no-op, but the backward error must still be delayed by one sample), forward / backward errors
# hold exact zeros, AR coefficients are exactly zero inside the psi correlation.  Random / coloured / tone records never do that.
#
# Oracle: the statement itself (independent Burg recursion _burg written from the definition - it shares nothing with the
# library's arburg -, Yule-Walker solve, dense inverse, quadratic form at every bin; AR vector and reflection coefficients
# returned), through minvar and through pminvar.  For records that are small integers up to a power of two the Burg model is also
# computed in EXACT rational arithmetic by the Lean model (driver command `burg`, Q mode) and both the library's vectors and the
# float reference are compared with it.  Records whose Burg prediction error becomes (numerically) zero are outside the
# quantifier ("non-degenerate prediction error"): they are recognised by a predicate computed from the independent reference and
# are NOT evaluated (tag zerok:excluded:degenerate-prediction-error counts them).

BARKER = {11: [1, 1, 1, -1, -1, -1, 1, -1, -1, 1, -1], 13: [1, 1, 1, 1, 1, -1, -1, 1, 1, -1, 1, -1, 1]}
STRUCTS = ["stuff2", "stuff3", "stuff4", "carrier4", "barker", "pm1", "shortint", "impulse", "sparse", "sym", "antisym", "zblocks"]
ZK_LEAKY = ("stuff2", "stuff3", "stuff4", "carrier4", "impulse", "sparse", "zblocks")
INT_KINDS["int8"] = np.int8          # +-1 codes are commonly stored as int8 (wider records fall back to int64 in _api_input)


def _zk_base(nrng, n, cplx, flavour):
    """n NON-ZERO base samples: small integers / dyadic / float noise / a tone in noise / a constant"""
    def one():
        if flavour == "int":
            return (nrng.integers(1, 6, n) * nrng.choice([-1, 1], n)).astype(float)
        if flavour == "dyadic":
            return (nrng.integers(1, 65, n) * nrng.choice([-1, 1], n)).astype(float) / 16.0
        if flavour == "tone":
            return np.cos(2 * np.pi * nrng.uniform(0.05, 0.45) * np.arange(n) + nrng.uniform(0, 6)) + 0.3 * nrng.standard_normal(n)
        if flavour == "const":
            return np.full(n, float(nrng.integers(1, 5)))
        return nrng.standard_normal(n)
    b = one()
    if cplx:
        b = b + 1j * one()
    return b


def structured(nrng, name, N, cplx, flavour="int"):
    """-> (record of length N, description)"""
    dt = complex if cplx else float
    x = np.zeros(N, dtype=dt)
    info = name
    if name in ("stuff2", "stuff3", "stuff4"):
        # zero-inserted up-sampling by 2 / 3 / 4 (any phase): every lag that is not a multiple of L is exactly 0
        L = int(name[-1])
        off = int(nrng.integers(0, L))
        idx = np.arange(off, N, L)
        x[idx] = _zk_base(nrng, len(idx), cplx, flavour)
        info = "%s+%d" % (name, off)
    elif name == "carrier4":
        # a record mixed with the exact fs/4 carrier cos(pi n / 2) = 1,0,-1,0,... (or sin: 0,1,0,-1,...)
        off = int(nrng.integers(0, 2))
        car = np.array(([0.0, 1.0, 0.0, -1.0] if off else [1.0, 0.0, -1.0, 0.0]) * (N // 4 + 1))[:N]
        x = (_zk_base(nrng, N, cplx, flavour) * car).astype(dt)
        info = "carrier4:" + ("sin" if off else "cos")
    elif name == "barker":
        # Barker-11 / 13 (aperiodic lag-1 correlation exactly 0), alone or followed by silence; reversed / sign-alternated /
        # times a Gaussian integer
        L = 13 if N >= 13 and nrng.integers(0, 3) else 11
        code = np.array(BARKER[L], dtype=float)
        if nrng.integers(0, 2):
            code = code[::-1].copy()
        if nrng.integers(0, 2):
            code = code * (-1.0) ** np.arange(L)
        x[:L] = code
        if cplx:
            x = x * [1j, 1 + 1j, -1j, 1 - 2j][int(nrng.integers(0, 4))]
        info = "barker%d" % L
    elif name == "pm1":
        # random +-1 (complex: +-1, +-i) code whose lag-1 aperiodic correlation is exactly 0 (odd length: an even number of products)
        n = N if N % 2 else N - 1
        C = nrng.choice([-1.0, 1.0], (4096, n))
        if cplx:
            C = C * nrng.choice([1, 1j], (4096, n))
        hit = np.flatnonzero(np.sum(C[:, 1:] * np.conj(C[:, :-1]), axis=1) == 0)
        if len(hit) == 0:
            return structured(nrng, "stuff2", N, cplx, flavour)
        x[:n] = C[hit[0]]
    elif name == "shortint":
        # integer record (hardly any zero sample) whose lag-1 products cancel exactly
        C = nrng.integers(-3, 4, (8192, N)).astype(float)
        if cplx:
            C = C + 1j * nrng.integers(-2, 3, (8192, N))
        hit = np.flatnonzero((np.sum(C[:, 1:] * np.conj(C[:, :-1]), axis=1) == 0) & (np.sum(C != 0, axis=1) >= N - 3))
        if len(hit) == 0:
            return structured(nrng, "stuff2", N, cplx, flavour)
        x = C[hit[0]].astype(dt)
    elif name == "impulse":
        pos = [N - 1, 0, int(nrng.integers(1, N - 1)), N - 1][int(nrng.integers(0, 4))]
        x[pos] = _zk_base(nrng, 1, cplx, flavour)[0]
        info = "impulse:" + ("last" if pos == N - 1 else "first" if pos == 0 else "interior")
    elif name == "sparse":
        # a few isolated samples: the reflection coefficients are exactly 0 up to the smallest spacing, then not
        k = int(nrng.integers(2, 5))
        pos = np.sort(nrng.choice(N, k, replace=False))
        if nrng.integers(0, 2):
            pos[-1] = N - 1
        if nrng.integers(0, 2):
            pos[1] = min(pos[0] + int(nrng.integers(2, 6)), N - 1)
        pos = np.unique(pos)
        x[pos] = _zk_base(nrng, len(pos), cplx, flavour)
        info = "sparse%d" % len(pos)
    elif name in ("sym", "antisym"):
        # x[N-1-n] = +- x[n] exactly (the centre sample of an odd antisymmetric record is 0)
        h = _zk_base(nrng, N // 2, cplx, flavour)
        s = 1.0 if name == "sym" else -1.0
        x[:N // 2] = h
        x[N - N // 2:] = s * h[::-1]
        if N % 2 and s > 0:
            x[N // 2] = _zk_base(nrng, 1, cplx, flavour)[0]
    elif name == "zblocks":
        x = _zk_base(nrng, N, cplx, flavour).astype(dt)
        w = int(nrng.integers(0, 4))
        if w == 0:      # leading block of zeros
            x[:int(nrng.integers(2, N // 2))] = 0
        elif w == 1:    # trailing block
            x[N - int(nrng.integers(2, N // 2)):] = 0
        elif w == 2:    # bursts: b samples on, b samples off
            b = int(nrng.integers(1, 5))
            x[(np.arange(N) // b) % 2 == 1] = 0
        else:           # two interior gaps
            for _ in range(2):
                a = int(nrng.integers(1, N - 3))
                x[a:a + int(nrng.integers(2, max(3, N // 4)))] = 0
        info = "zblocks:" + ["lead", "trail", "bursts", "gaps"][w]
    else:
        raise ValueError(name)
    if not np.any(x):
        x[0] = 1
    return x, info


_ZK_STATE = {}
ZK_EXACT_MAX_NONZERO = 5      # exact rationals grow doubly exponentially with the number of non-zero stages: measured <= 0.25 s per
ZK_EXACT_MAX_INT = 2 ** 11    # record up to 5 non-zero stages (N <= 128, |integers| <= 2^11); 7 stages already take seconds


def _zk_integers(x):
    """x * 2^e as exact small integers (e chosen from the binary expansions), or None: Burg's AR vector and reflection
    coefficients do not depend on a scale factor, and scaling by a power of two is exact in floating point"""
    x = np.asarray(x)
    parts = np.concatenate((np.real(x).astype(float), np.imag(x).astype(float))) if np.iscomplexobj(x) else x.astype(float)
    nzp = parts[parts != 0]
    if nzp.size == 0 or not np.all(np.isfinite(nzp)):
        return None
    lsb = []
    for v in nzp:
        mnt, ex = np.frexp(abs(float(v)))
        M = int(mnt * 2 ** 53)
        lsb.append(int(ex) - 53 + ((M & -M).bit_length() - 1))
    e = -min(lsb)
    if abs(e) > 900:
        return None
    xi = np.ldexp(np.real(x), e) + (1j * np.ldexp(np.imag(x), e) if np.iscomplexobj(x) else 0)
    if np.max(np.abs(np.real(xi))) > ZK_EXACT_MAX_INT or np.max(np.abs(np.imag(xi))) > ZK_EXACT_MAX_INT:
        return None
    return xi


def _zk_state(p):
    """what the independent reference says about the record (cached per record and order): degenerate?, where the exact-zero
    reflection coefficients are, and the request line of the exact model if the record qualifies for it"""
    x = np.asarray(p["x"])
    m = int(p["m"])
    key = (x.dtype.str, x.tobytes(), m)
    st = _ZK_STATE.get(key)
    if st is None:
        if len(_ZK_STATE) > 8192:
            _ZK_STATE.clear()
        with np.errstate(all="ignore"):
            a, rho, ks = _burg(x, m - 1)
            r0 = float(np.mean(np.abs(x) ** 2))
            # the predicate of the rest of this module (_ok): rho_{m-1} >= 1e-7 rho_0 (rho_k is non-increasing); NaN (0/0 in
            # the recursion: forward and backward errors all exactly zero) compares False
            degenerate = not (np.all(np.isfinite(ks)) and np.all(np.isfinite(a)) and r0 > 0 and rho >= 1e-7 * r0)
        zero = np.flatnonzero(ks == 0) if not degenerate else np.zeros(0, dtype=int)
        st = {"degenerate": degenerate, "a": a, "rho": rho, "ks": ks, "zero": zero, "line": None}
        if not degenerate and int(np.sum(ks != 0)) <= ZK_EXACT_MAX_NONZERO:
            xi = _zk_integers(x)
            if xi is not None:
                st["line"] = proto.request("burg", "Q", [m - 1, "none"], [xi])
        _ZK_STATE[key] = st
    return st


_ZK_EXACT = {}


def _zk_exact(st):
    """('ok', a, ks) from the exact model / ('err', why) / None when the record does not qualify"""
    import os
    line = st["line"]
    if line is None or not os.path.exists(proto.DRIVER):
        return None
    if line not in _ZK_EXACT:
        if len(_ZK_EXACT) > 8192:
            _ZK_EXACT.clear()
        try:
            _ZK_EXACT[line] = proto.run_driver([line], timeout=60)[0]
        except Exception as e:             # (timeout: the estimate of the cost was wrong; the float reference still applies)
            _ZK_EXACT[line] = "err harness:%s" % type(e).__name__
    s, val = proto.parse_reply(_ZK_EXACT[line], "Q")
    if s != "ok":
        return ("err", val)
    return ("ok", proto.q2c(val[0]), proto.q2c(val[2]))


def _zk_prefetch(cases):
    """one (sharded) driver run for all the exact requests of a generator pass instead of one process per case"""
    import os
    if not os.path.exists(proto.DRIVER):
        return
    lines = []
    for kind, p in cases:
        if kind == "zerok":
            ln = _zk_state(p)["line"]
            if ln is not None and ln not in _ZK_EXACT and ln not in lines:
                lines.append(ln)
    try:
        for ln, rep in zip(lines, proto.run_driver(lines, shards=8, timeout=300)):
            _ZK_EXACT[ln] = rep
    except Exception:
        pass                               # the oracle asks case by case


# measured on the unchanged tree (generator passes of quick seeds 0..9 and four thorough passes, variants of vcheck.vary included,
# 1050 records with an exact reference): library vs exact rationals rel (max-norm) <= 4.4e-15 for the AR vector, <= 2.0e-15 for
# the reflection coefficients; float reference vs exact <= 9e-16.  1e-12 is > 200 x the worst observed.  (Against the float
# reference, same passes, 2040 records: AR <= 1.3e-12, reflection <= 7.6e-13 - existing tolerance 1e-8 -; PSD rel err <= 1.1e-6 of
# the existing tolerance _tol(cond), cond R <= 4.3e4.)
ZK_EXACT_TOL = 1e-12


def oracle_zerok(p):
    sp = _sp()
    st = _zk_state(p)
    if st["degenerate"]:
        return []                          # outside the quantifier; counted by the tag zerok:excluded:degenerate-prediction-error
    x = np.asarray(p["x"])
    xin = _api_input(p)
    m, nfft, fs = int(p["m"]), int(p["nfft"]), p["fs"]
    what = "%s, %s via %s" % (p.get("struct"), _desc(p), p.get("entry", "minvar"))
    if p.get("entry", "minvar") == "minvar":
        psd, A, k = sp.minvar(xin, m, sampling=fs, NFFT=nfft)
        out = _check_function_output((psd, A, k), x, m, nfft, float(fs), what)
    else:
        scale = bool(p.get("scale", False))
        o = sp.pminvar(xin, m, NFFT=nfft, sampling=fs, scale_by_freq=scale)
        out = _check_class_output(o, xin, x, m, nfft, fs, scale, what)
        A, k = o.ar, o.reflection
    ex = _zk_exact(st)
    if ex is not None:
        if ex[0] != "ok":
            if not str(ex[1]).startswith("harness:"):
                out.append("the exact model rejects (%s) a record the independent reference finds non-degenerate (%s)" % (ex[1], what))
        else:
            A, k = c(A), c(k)
            if rel(st["a"], ex[1]) > ZK_EXACT_TOL or rel(st["ks"], ex[2]) > ZK_EXACT_TOL:
                out.append("HARNESS: the independent float Burg reference and the exact rational Burg model disagree (rel %.2e / %.2e; %s)" % (
                    rel(st["a"], ex[1]), rel(st["ks"], ex[2]), what))
            if len(A) != m or rel(A[1:], ex[1]) > ZK_EXACT_TOL:
                out.append("AR vector is not the Burg AR vector of the record computed in exact rational arithmetic (rel err %.2e; %s)" % (
                    rel(A[1:], ex[1]) if len(A) == m else float("inf"), what))
            if len(k) != m - 1 or rel(k, ex[2]) > ZK_EXACT_TOL:
                out.append("reflection coefficients are not the Burg reflection coefficients of the record computed in exact rational "
                           "arithmetic (rel err %.2e; %s)" % (rel(k, ex[2]) if len(k) == m - 1 else float("inf"), what))
    return out


def model_zerok(p):
    if p.get("entry", "minvar") != "minvar" or _zk_state(p)["degenerate"]:
        return None
    return model_minvar(p)


def _tags_zerok(p):
    st = _zk_state(p)
    x = np.asarray(p["x"])
    m = int(p["m"])
    t = ["zerok:struct=%s" % (p.get("sclass") or str(p.get("struct", "?")).split(":")[0].split("+")[0]), "zerok:" + ("complex" if np.iscomplexobj(x) else "real"),
         "zerok:m=%d" % m, "zerok:entry=%s" % p.get("entry", "minvar"), "zerok:N" + ("<=16" if len(x) <= 16 else "<=64" if len(x) <= 64 else ">64")]
    if p.get("flavour"):
        t.append("zerok:samples=" + p["flavour"])
    if p.get("dkind"):
        t.append("zerok:input:" + p["dkind"])
    if p.get("scale"):
        t.append("zerok:scale_by_freq")
    if st["degenerate"]:
        return t + ["zerok:excluded:degenerate-prediction-error"]
    z, ks = st["zero"], st["ks"]
    if len(z) == 0:
        t.append("zerok:no-exact-zero-k")
    else:
        if z[0] < m - 2:
            t.append("zerok:exact-zero-k-followed-by-further-stages")
            if np.any(ks[z[0] + 1:] != 0):
                t.append("zerok:exact-zero-k-followed-by-non-zero-k")
        if z[0] == 0:
            t.append("zerok:k1=0")
        if len(z) == len(ks):
            t.append("zerok:all-k-zero")
        if np.any(z > 0) and np.any(ks[:int(z[z > 0][0])] != 0):
            t.append("zerok:non-zero-k-then-exact-zero-k")
    ex = _zk_exact(st)
    t.append("zerok:exact-rational-reference:" + ("not-applicable" if ex is None else "used" if ex[0] == "ok" else "failed"))
    return t


def _key_zerok(p):
    return _key(p) + "|%s|%s" % (p.get("entry"), p.get("struct"))


KINDS = {
    "reuse": {"oracle": oracle_reuse, "key": _key_reuse, "tags": _tags_reuse},
    "minvar": {"impl": impl_minvar, "model": model_minvar, "oracle": oracle_minvar, "rtol": 1e-7, "atol": 1e-300, "key": _key, "tags": _tags},
    "class": {"oracle": oracle_class, "key": _key, "tags": _tags_class},
    "forms": {"oracle": oracle_forms, "key": _key, "tags": lambda p: ["form:" + p["form"]]},
    "ident": {"oracle": oracle_ident, "key": _key, "tags": _tags_ident},
    # same correspondence tolerance as kind minvar (function entry, NFFT <= MODEL_MAX_NFFT, non-degenerate records only)
    "zerok": {"impl": impl_minvar, "model": model_zerok, "oracle": oracle_zerok, "rtol": 1e-7, "atol": 1e-300, "key": _key_zerok, "tags": _tags_zerok},
}


def _ok(x, m):
    a, rho, ks = _burg(x, m - 1)
    return rho >= 1e-7 * float(np.mean(np.abs(np.asarray(x)) ** 2))


KINDS["single"] = single.kind("C16")

def gen(rng, nrng, tier):
    yield from single.gen("C16", nrng, tier)
    n = 90 if tier == "quick" else 1200
    kinds = ["noise", "tone", "int", "trend"]
    nffts_seen = [32, 33, 40, 64, 65]
    for i in range(n):
        cplx = bool(nrng.integers(0, 2))
        N = int(nrng.integers(8, 129))
        x, dk = gen_data(nrng, N, cplx, kind=kinds[i % 4])
        x = np.asarray(x, dtype=complex if cplx else float)
        m = int(nrng.integers(2, min(N // 2, 16) + 1)) if i % 6 else min(N // 2, 16)   # incl. the largest admissible order
        # reuse a few NFFT values with varying m (per-NFFT state must not leak between calls)
        nfft = nffts_seen[i % 5] if nffts_seen[i % 5] >= 2 * m else 2 * m + (i % 2)
        if not _ok(x, m):
            continue
        yield ("minvar", {"x": x, "m": m, "nfft": nfft, "fs": [1.0, 2.5, 100.0][i % 3]})
    for i in range(24 if tier == "quick" else 300):        # class form, NFFT below / at / above the record length
        cplx = bool(i % 2)
        N = int(nrng.integers(12, 80))
        x, dk = gen_data(nrng, N, cplx, kind=kinds[i % 4])
        x = np.asarray(x, dtype=complex if cplx else float)
        m = int(nrng.integers(2, min(N // 2, 8) + 1))
        if not _ok(x, m):
            continue
        nfft = [2 * m, 2 * m + 1, max(2 * m, N // 2), N - 1, N, N + 1, 2 * N][i % 7]
        yield ("class", {"x": x, "m": m, "nfft": max(nfft, 2 * m), "fs": [1.0, 2.5][i % 2]})
    ni = 24 if tier == "quick" else 300
    for i in range(ni):
        cplx = bool(i % 2)
        N = int(nrng.integers(8, 17))
        x, dk = gen_data(nrng, N, cplx, kind=["noise", "int"][i % 2], exact=True)
        x = np.asarray(x, dtype=complex if cplx else float)
        m = 2 + i % 4
        if not _ok(x, m):
            continue
        yield ("ident", {"x": x, "m": m})

    # ---- audited gaps (appended: the streams of the loops above are unchanged) ----------------------------------------------
    quick = tier == "quick"
    FS_F = [1.0, 2.5, 100.0, 0.01]
    FS_C = [0.5, 100.0, 1.0, 2.5]

    def data(i, N, cplx, kind=None):
        x, _ = gen_data(nrng, N, cplx, kind=kind or kinds[i % 4])
        return np.asarray(x, dtype=complex if cplx else float)

    # (1) smallest sizes and equal-parameter boundaries, both kinds, real and complex
    corners = [(8, 4, 8), (8, 2, 4), (9, 4, 9), (32, 16, 32), (10, 5, 10), (8, 4, 9), (16, 8, 16)]
    j = 0
    for rep in range(1 if quick else 3):
        for ci, (N, m, nfft) in enumerate(corners):
            for cplx in (False, True):
                x = data(j, N, cplx, kind=["noise", "tone", "trend", "int"][(j // 2 + rep) % 4])
                j += 1
                if not _ok(x, m):
                    continue
                yield ("minvar", {"x": x, "m": m, "nfft": nfft, "fs": FS_F[(ci + rep) % 4]})
                yield ("class", {"x": x, "m": m, "nfft": nfft, "fs": FS_C[(ci + rep) % 4], "scale": bool((ci // 2 + rep + cplx) % 2)})

    # (2) the NFFT boundary for every small order: NFFT = 2m and 2m+1 (never reached by the first loop: 2m <= 32 there)
    j = 0
    for rep in range(1 if quick else 4):
        for m in range(2, 9):
            for d in (0, 1):
                cplx = bool((j + rep) % 2)
                j += 1
                N = int(nrng.integers(2 * m, 129))
                x = data(j // 2, N, cplx)
                if not _ok(x, m):
                    continue
                yield ("minvar", {"x": x, "m": m, "nfft": 2 * m + d, "fs": FS_F[(j // 2) % 3]})
    # other NFFT never compared with the quadratic form before: below 32, primes, powers of two >= 128, the default 4096
    small = [11, 13, 16, 17, 19, 23, 24, 29, 31]
    big = [127, 128, 257, 1024, 4096, 131, 256, 300, 301, 512, 2048, 4097]
    nlist = (small[::2] + big[:5]) if quick else (small + big) * 2
    for i, nfft in enumerate(nlist):
        cplx = bool((i + i // len(small + big)) % 2)
        mmax = min(nfft // 2, 16)
        N = int(nrng.integers(max(8, 2 * 2), 129))
        mmax = min(mmax, N // 2)
        m = mmax if i % 3 == 0 else int(nrng.integers(2, mmax + 1))
        x = data(i // 2, N, cplx)
        if not _ok(x, m):
            continue
        yield ("minvar", {"x": x, "m": m, "nfft": nfft, "fs": FS_F[(i // 2) % 4]})

    # (3) container / dtype actually handed to the API (reference and model get the same values as float64 / complex128)
    dks = ["int64", "int16", "list", "list", "czero"]
    for i in range(10 if quick else 60):
        dk = dks[i % 5]
        N = int(nrng.integers(8, 97))
        if dk == "int64":
            x = nrng.integers(-2 ** 40, 2 ** 40, N).astype(float)          # squares exceed 2^63
        elif dk == "int16":
            x = nrng.integers(-32768, 32768, N).astype(float)              # squares exceed the int16 (and int32 sums the) range
        elif dk == "czero":
            x = data(i // 5, N, False, kind=kinds[(i // 5) % 4]).astype(complex)
        else:
            x = data(i // 5, N, bool(i % 5 == 3), kind=kinds[(i // 5) % 4])
        m = int(nrng.integers(2, min(N // 2, 16) + 1))
        if not _ok(x, m):
            continue
        q = {"x": x, "m": m, "dkind": dk}
        nf = [2 * m, 2 * m + 1, 32, N, N + 1, 64, 129][(i // 5) % 7]
        yield ("minvar", dict(q, nfft=max(nf, 2 * m), fs=FS_F[(i // 5) % 3]))
        nf = [N, 2 * m, N + 1, 2 * m + 1, 2 * N, N - 1][(i // 5) % 6]
        yield ("class", dict(q, nfft=max(nf, 2 * m), fs=FS_C[(i // 5) % 4], scale=bool((i // 10) % 2)))
    # czero: the function value is the one of the real record; the class takes the two-sided branch (checked by oracle_class
    # through the dtype of what it is handed)

    # (4) class form: orders up to 16, scale_by_freq on, sampling in {0.5, 100}, against the independent reference
    for i in range(16 if quick else 160):
        cplx = bool(i % 2)
        N = int(nrng.integers(8, 100))
        x = data(i // 2, N, cplx)
        mmax = min(N // 2, 16)
        m = mmax if i % 5 == 0 else int(nrng.integers(2, mmax + 1))
        if not _ok(x, m):
            continue
        nf = [2 * m, 2 * m + 1, N, N + 1, max(2 * m, N - 1), 2 * N, 2 * N + 1, 128, 255][(i // 2) % 9]
        yield ("class", {"x": x, "m": m, "nfft": max(nf, 2 * m), "fs": FS_C[(i // 2) % 2], "scale": bool((i // 4) % 2 == 0)})

    # (5) entry points / argument forms
    for i in range(len(FORMS) * (2 if quick else 12)):
        form = FORMS[i % len(FORMS)]
        cplx = bool((i // len(FORMS)) % 2)
        N = int(nrng.integers(8, 80))
        x = data(i // len(FORMS), N, cplx)
        m = 4 if i < 2 * len(FORMS) else int(nrng.integers(2, min(N // 2, 8) + 1))
        if N < 2 * m or not _ok(x, m):
            continue
        nfft = 16 if i < 2 * len(FORMS) else [2 * m, 2 * m + 1, 4 * m, 33, 64][(i // len(FORMS)) % 5]
        yield ("forms", {"x": x, "m": m, "nfft": max(nfft, 2 * m), "form": form})

    # (6) histories on re-used estimator objects (kind "reuse"): see _gen_reuse
    yield from _gen_reuse(nrng, tier)

    # (7) structured records with exactly-zero intermediate quantities of the Burg recursion (kind "zerok"): see _gen_zerok
    yield from _gen_zerok(nrng, tier)

    # (8) sequences of calls on records that are different inputs but look alike (kind "seq"): see _gen_seq
    yield from _gen_seq(nrng, tier)


FS_REUSE = [1.0, 2.5, 100.0, 0.01, 0.5, 3]


def _gen_reuse(nrng, tier):
    """ONE pminvar object (or 2-3 objects with equal N / order alive at once) carried through a history: records assigned to
    .data once, twice (load + remove the mean / taper / gain; a; b), three times, in place, from itself, as temporaries /
    views of a pool / lists / arrays the caller keeps (and modifies afterwards), same and changing length, real, complex and
    real<->complex; ar_order / NFFT / sampling / scale_by_freq changed; computations that fail in between; observations by
    reading psd (once, twice) or after an explicit p().  Flavours: "batch" (a loop over the records of a pool with the same
    double-assignment idiom, same N and order throughout: the ordinary batch script), "walk" (random mixture of everything),
    "multi" (several objects, operations interleaved), "alias" (the caller modifies the arrays it handed over)."""
    quick = tier == "quick"
    kinds = ["noise", "tone", "int", "trend"]
    flavours = ["batch", "walk", "multi", "batch", "walk", "alias"]
    double = ["set-demean", "set-set", "set-window", "set-gain", "set-many", "self-self"]
    ncase = 36 if quick else 150
    for ci in range(ncase):
        fl = flavours[ci % len(flavours)]
        ctype = ["real", "complex", "mixed"][(ci // len(flavours) + ci) % 3]
        cplx = ctype != "real"
        K = int(nrng.integers(3, 7))
        N = int(nrng.integers(8, 129)) if ci % 4 else [8, 9, 16, 128][(ci // 4) % 4]
        amp = [0, 0, 0, 40, -40, 0, 10][ci % 7]
        recs = []
        for r in range(K):
            x, _ = gen_data(nrng, N, cplx, kind=kinds[(ci + r) % 4])
            x = np.asarray(x, dtype=complex if cplx else float)
            # every record has its own offset: removing the mean is a real change of the record
            recs.append((x + (float(nrng.integers(1, 9)) if r % 3 != 2 else 0.0)) * 2.0 ** amp)
        recs = np.array(recs)
        nobj = 1 if fl in ("batch", "walk") else int(nrng.integers(2, 4)) if fl == "multi" else 1 + ci % 2
        m = int(nrng.integers(2, min(N // 2, 16) + 1)) if ci % 5 else min(N // 2, 16)
        nfft = [2 * m, 2 * m + 1, max(2 * m, N), max(2 * m, N + 1), 64, 33, 128][ci % 7]
        nfft = max(nfft, 2 * m)
        fs = FS_REUSE[ci % len(FS_REUSE)]

        def src(n=None, k=None):
            i = int(nrng.integers(0, K)) if k is None else k
            re = int(ctype == "mixed" and nrng.integers(0, 2) == 1)
            return [i, N if n is None else n, re]

        init = [src(k=k % K) for k in range(nobj)]
        st = [{"n": N, "m": m, "nfft": nfft} for _ in range(nobj)]
        ops = []

        def check(k, mode=None):
            ops.append([k, "check", mode or ["psd", "call", "psd", "psd2"][int(nrng.integers(0, 4))]])

        def data_op(k, name, n=None):
            n = st[k]["n"] if n is None else n
            if name in ("set", "set-set"):
                how = ["new", "view", "list"][int(nrng.integers(0, 3))]
                ops.append([k, name, src(n), how] if name == "set" else [k, name, src(n), src(n), how])
            elif name == "set-many":
                ops.append([k, name] + [src(n) for _ in range(int(nrng.integers(3, 6)))])
            elif name in ("set-gain",):
                ops.append([k, name, src(n), REUSE_GAINS[int(nrng.integers(0, len(REUSE_GAINS)))]])
            elif name in ("inplace-gain", "self-self"):
                ops.append([k, name, REUSE_GAINS[int(nrng.integers(0, len(REUSE_GAINS)))]])
            elif name in ("inplace-demean", "self-demean"):
                ops.append([k, name])
            else:
                ops.append([k, name, src(n)])
            st[k]["n"] = n

        def attr_op(k):
            s = st[k]
            w = int(nrng.integers(0, 4))
            if w == 0:
                s["m"] = int(nrng.integers(2, min(s["n"] // 2, 16) + 1))
                ops.append([k, "order", s["m"]])
                if s["nfft"] < 2 * s["m"]:
                    s["nfft"] = 2 * s["m"] + int(nrng.integers(0, 2))
                    ops.append([k, "nfft", s["nfft"]])
            elif w == 1:
                s["nfft"] = int(nrng.integers(2 * s["m"], 2 * s["m"] + 140))
                ops.append([k, "nfft", s["nfft"]])
            elif w == 2:
                ops.append([k, "fs", FS_REUSE[int(nrng.integers(0, len(FS_REUSE)))]])
            else:
                ops.append([k, "scale", bool(nrng.integers(0, 2))])

        if fl == "batch":
            # the first record is read (a fit exists), then every further record goes through the SAME idiom
            idiom = double[(ci // len(flavours)) % len(double)]
            check(0, "psd" if ci % 2 else "call")
            for r in range(int(nrng.integers(3, 7))):
                data_op(0, idiom)
                check(0, "psd" if (ci + r) % 3 else "call")
                if r % 2 and ci % 3 == 0:          # refine the grid on the same record, and back
                    ops.append([0, "nfft", 2 * nfft + 1])
                    check(0, "psd")
                    ops.append([0, "nfft", nfft])
        elif fl in ("walk", "multi"):
            allops = double + ["set", "set", "set-keep", "inplace-gain", "inplace-demean", "self-demean", "attr", "attr", "attr", "fail", "len"]
            for k in range(nobj):
                if nrng.integers(0, 4):
                    check(k)
            for step in range(int(nrng.integers(6, 15)) * (1 if fl == "walk" else 2)):
                k = int(nrng.integers(0, nobj))
                name = allops[int(nrng.integers(0, len(allops)))]
                if name == "attr":
                    attr_op(k)
                elif name == "fail":
                    ops.append([k, "fail", ["order0", "call-order0", "nfft-bad"][int(nrng.integers(0, 3))]])
                elif name == "len":
                    # another record length (the order stays admissible)
                    n = int(nrng.integers(max(8, 2 * st[k]["m"]), N + 1))
                    data_op(k, ["set", "set-demean", "set-set"][int(nrng.integers(0, 3))], n)
                else:
                    data_op(k, name)
                if nrng.integers(0, 3):
                    check(int(nrng.integers(0, nobj)) if fl == "multi" and nrng.integers(0, 2) else k)
            for k in range(nobj):
                check(k)
        else:   # alias
            for k in range(nobj):
                if ci % 4 < 2:
                    check(k)
                ops.append([k, "mutate-caller"])
                if ci % 3 == 0:
                    attr_op(k)
                check(k)
                ops.append([k, "set-keep", src()])
                if ci % 4 >= 2:
                    check(k, "call")
                ops.append([k, "mutate-caller"])
                check(k)
                ops.append([k, "nfft", st[k]["nfft"] + 3])
                st[k]["nfft"] += 3
                check(k)
        q = {"recs": recs, "init": init, "m": m, "nfft": nfft, "fs": fs, "scale": bool(ci % 3 == 1), "ops": ops, "flavour": fl,
             "pool": ["temp", "kept"][(ci // 2) % 2]}
        if amp:
            q["amp"] = amp
        # inside the quantifier at every observation: 8 <= N <= 128, 2 <= m <= min(N/2, 16), NFFT >= 2m, non-degenerate Burg error
        ok = True
        for j, k, s, mode in _expected_states(q):
            n_ = len(s["x"])
            if not (8 <= n_ <= 128 and 2 <= s["m"] <= min(n_ // 2, 16) and s["nfft"] >= 2 * s["m"] and _ok(s["x"], s["m"])):
                ok = False
                break
        if ok:
            yield ("reuse", q)


def _gen_zerok(nrng, tier):
    """every structure class x real / complex x sample flavours (small integers, dyadic, float noise, tone in noise) x
    m = 2..12 x both entry points (minvar; pminvar with scale_by_freq off / on) x NFFT at / above 2m, even / odd x the sampling
    values of the module; integer records also as int8 / int16 / int64 arrays and lists.  A few records per pass are degenerate on
    purpose (a pure fs/4 carrier, a pure alternating-sign record, a constant on a 1-in-2 grid: the prediction error becomes exactly
    zero): the predicate must exclude them, the tag counts them.  Structured small-integer records also go through the exact
    Musicus identity (kind ident)."""
    quick = tier == "quick"
    flav = ["int", "dyadic", "noise", "tone"]
    cases = []
    j = nd = 0
    for rep in range(3 if quick else 10):
        for si, name in enumerate(STRUCTS):
            for cplx in (False, True):
                j += 1
                fl = flav[(rep + si + cplx) % 4]
                N = int(nrng.integers(8, 129)) if (j % 3) else int(nrng.integers(8, 33))
                if name == "barker":
                    N = [11, 13, max(N, 13)][j % 3] if not (j % 3 == 2 and N < 13) else 13
                    fl = "int"
                elif name in ("pm1", "shortint"):
                    fl = "int"
                    if name == "shortint":
                        N = 8 + (N - 8) % 17             # 8..24: longer records hardly ever cancel exactly
                mmax = min(N // 2, 12)
                m = mmax if j % 5 == 0 else int(nrng.integers(2, mmax + 1)) if j % 7 else int(nrng.integers(2, min(mmax, 4) + 1))
                x, info = structured(nrng, name, N, cplx, fl)
                if (j // 2 + cplx + rep) % 4 == 1 and name in ZK_LEAKY and fl != "int":
                    # nearly structured: the samples that were exactly zero hold a leak 2^-20 .. 2^-50 below the record, the
                    # reflection coefficients that were exactly zero are now tiny but NOT zero (a stage must not be skipped
                    # below a threshold either)
                    e = [20, 35, 50][(j // 2 + rep) % 3]
                    z = x == 0
                    lk = nrng.standard_normal(N) + (1j * nrng.standard_normal(N) if cplx else 0)
                    x = x + z * lk * float(np.max(np.abs(x))) * 2.0 ** -e
                    info += "~leak2^-%d" % e
                    fl = "leak2^-%d" % e
                entry = ["minvar", "pminvar", "minvar"][(j + rep) % 3]
                nfft = max([2 * m, 2 * m + 1, 32, 64, 33, N, N + 1, 128][(j + si) % 8], 2 * m)
                q = {"x": x, "m": m, "nfft": nfft, "fs": FS_REUSE[j % len(FS_REUSE)] if entry == "pminvar" else [1.0, 2.5, 100.0, 0.01][j % 4],
                     "entry": entry, "struct": info, "sclass": name, "flavour": fl}
                if entry == "pminvar":
                    q["scale"] = bool((j // 3) % 2)
                if fl == "int" and (j // 2 + cplx + rep) % 2:
                    q["dkind"] = ["int8", "list", "int16", "int64"][nd % 4] if not cplx else "list"
                    nd += 1 - cplx
                cases.append(("zerok", q))
                if fl == "int" and N <= 16 and rep < (1 if quick else 4):
                    mi = 3 + j % 3
                    if mi <= N // 2 and _ok(x, mi):
                        cases.append(("ident", {"x": x, "m": mi}))
    # records that are degenerate on purpose (the predicate and its tag are exercised in every pass)
    for i in range(4 if quick else 8):
        N = int(nrng.integers(8, 65))
        n = np.arange(N)
        amp = float(nrng.integers(1, 6))
        x = [amp * np.cos(np.pi * n / 2).round(), amp * (-1.0) ** n, amp * (n % 2 == 0), amp * np.sin(np.pi * n / 2).round() * (1 + 2j)][i % 4]
        x = np.asarray(x, dtype=complex if np.iscomplexobj(x) else float) + 0.0
        cases.append(("zerok", {"x": x, "m": int(nrng.integers(3, min(N // 2, 8) + 1)), "nfft": 32, "fs": 1.0, "entry": ["minvar", "pminvar"][i % 2],
                                "struct": ["pure-carrier4", "pure-alternating", "constant-on-grid2", "pure-carrier4"][i % 4], "flavour": "const"}))
    _zk_prefetch(cases)
    yield from cases


# ---- short SEQUENCES of calls on records that are different inputs but look alike (kind "seq") --------------------------------------
# Every other kind hands the library a stream of UNRELATED records (or, kind reuse, the records of one object).  A result that is
# remembered inside the package (arburg / minvar / the class) under an incomplete description of the input - the raw bytes without
# the dtype, a few samples, the length, sum and energy, the address, "numerically close", the record without the order - is wrong
# only when two DIFFERENT inputs that agree in that description follow each other.  A case of this kind is such a sequence:
#
#   pool    list of float64 / complex128 arrays (the caller's records)
#   steps   [record index, reading, entry, m, NFFT, sampling, scale_by_freq]
#
# reading = how the caller hands the record's memory to the library:
#   asis  the array itself            copy  a fresh copy built on the spot and freed after the call (CPython recycles its address)
#   list  a python list               f64   .view(float64): a complex record as its interleaved re,im stream (real, length 2N)
#   c128  .view(complex128): an even-length real record read as I/Q pairs (complex, length N/2)
#   i64 / u64  the same bytes read as (unsigned) 64-bit integers - a valid integer record (no NaN / inf patterns exist; a record
#         holding -0.0 = INT64_MIN is not generated)
#   c64 / f32  the same bytes read as single-precision pairs (only for records built from single-precision values, so that every
#         reading is an ordinary finite record)
# entry = minvar | pminvar (both checked) | arburg | pburg (NOT checked here - C13's -: another Burg analysis the caller made in
# between, at order m-1, the order minvar uses).
#
# Oracle: (1) every minvar / pminvar call against the module's independent reference (own Burg recursion, sampling/(e^H R^-1 e)),
# on the VALUES of the reading; (2) the result of a call must not depend on the calls made before it: each call is made a second
# time right after an analysis of an unrelated record and must return the same numbers.

SEQ_READINGS = ("asis", "copy", "list", "f64", "c128", "i64", "u64", "c64", "f32")
SEQ_SINGLE = ("c64", "f32")


def _seq_read(p, rec, reading):
    """a NEW object (view / copy / list) on record `rec` of the pool, read as `reading`"""
    a = p["pool"][int(rec)]
    if reading == "asis":
        return a
    if reading == "copy":
        return np.array(a)
    if reading == "list":
        return [complex(v) for v in a] if np.iscomplexobj(a) else [float(v) for v in a]
    dt = {"f64": np.float64, "c128": np.complex128, "i64": np.int64, "u64": np.uint64, "c64": np.complex64, "f32": np.float32}[reading]
    return np.ascontiguousarray(a).view(dt)


def _seq_values(p, rec, reading):
    """the sample VALUES of that reading as float64 / complex128 (what the reference is computed from)"""
    v = np.asarray(_seq_read(p, rec, reading))
    return v.astype(complex) if np.iscomplexobj(v) else v.astype(float)


def _seq_step_ok(p, st):
    """inside the quantifier: finite values, 8 <= N <= 128, 2 <= m <= min(N/2, 16), NFFT >= 2m, non-degenerate Burg error;
    integer readings: no INT64_MIN (= the bit pattern of -0.0: its absolute value does not exist in int64)"""
    rec, reading, entry, m, nfft = st[0], st[1], st[2], int(st[3]), int(st[4])
    a = p["pool"][int(rec)]
    if reading == "c128" and (np.iscomplexobj(a) or len(a) % 2):
        return False
    if reading == "f64" and not np.iscomplexobj(a):
        return False
    if reading in ("i64", "u64") and np.any((a.view(np.float64) == 0) & np.signbit(a.view(np.float64))):
        return False
    with np.errstate(all="ignore"):
        x = _seq_values(p, rec, reading)
        if not np.all(np.isfinite(x)) or not 8 <= len(x) <= 128 or not 2 <= m <= min(len(x) // 2, 16) or nfft < 2 * m:
            return False
        return bool(_ok(x, m))


# single-precision containers (complex64 / float32 handed to the library): arburg forms the zero-lag energy with the precision
# of the container (abs(x)**2. stays float32), the recursion itself runs in complex128.  Measured on the unchanged tree (the
# sequences of 6 quick + 6 thorough generator passes, 2016 sequences, 312 minvar calls on complex64 / float32 arrays, N 8..128,
# m 2..16): AR vector within 5.9e-7, reflection coefficients within 6.4e-7 (max-norm, relative) of the double-precision Burg fit
# of the same sample values, PSD within 3.8e-7.  5e-5 is > 75 x the worst observed; a fit of ANOTHER record is off by O(1).
# (Double-precision readings of the same passes - asis, copy, list, f64, c128, i64, u64 - stay within the existing tolerances:
# AR 2.6e-13, reflection 4.2e-14 vs 1e-8; PSD 3.4e-7 of _tol(cond).)
SEQ_SP_TOL = 5e-5
# second call vs first call of the same step: bitwise equal on the unchanged tree (deviation 0.0 in the same 2016 sequences and in
# the quick checks with seeds 0..4 and one thorough check; it is the same code on the same numbers).  Same bound as REUSE_TOL.
SEQ_REPEAT_TOL = 1e-13

SEQ_FLUSH = np.cos(0.9 * np.arange(11.0) ** 1.3) + 0.25 * np.sin(2.3 * np.arange(11.0))     # the unrelated record of pass 2


class _SeqObj(object):
    """the three observables of a pminvar object, as copies (what _check_class_output looks at)"""
    def __init__(self, got):
        self.psd, self.ar, self.reflection = got


def _seq_exec(sp, p, st):
    """one step on the real code, nothing else: the input object is built inside the call expression and is not kept (a fresh
    copy is freed when the call returns and CPython hands its address to the next one).  -> what minvar returned / the pminvar
    object after its psd has been read; None for the unchecked entries"""
    rec, reading, entry, m, nfft, fs, scale = st[0], st[1], st[2], int(st[3]), int(st[4]), st[5], bool(st[6])
    if entry == "arburg":
        sp.arburg(_seq_read(p, rec, reading), m - 1)
        return None
    if entry == "pburg":
        sp.pburg(_seq_read(p, rec, reading), m - 1, NFFT=nfft, sampling=fs).psd
        return None
    if entry == "minvar":
        return sp.minvar(_seq_read(p, rec, reading), m, sampling=fs, NFFT=nfft)      # (no copies: the harness allocates nothing here)
    o = sp.pminvar(_seq_read(p, rec, reading), m, NFFT=nfft, sampling=fs, scale_by_freq=scale)
    o.psd                                                                             # the computation happens here
    return o


def _seq_check(p, st, got):
    """the clauses of the property on the result of one step"""
    rec, reading, entry, m, nfft, fs, scale = st[0], st[1], st[2], int(st[3]), int(st[4]), st[5], bool(st[6])
    x = _seq_values(p, rec, reading)
    what = "record %d read as %s: N=%d m=%d NFFT=%d fs=%s %s via %s" % (rec, reading, len(x), m, nfft, fs, "complex" if np.iscomplexobj(x) else "real", entry)
    if reading not in SEQ_SINGLE:
        if entry == "minvar":
            return _check_function_output(got, x, m, nfft, float(fs), what)
        return _check_class_output(_SeqObj(got), x, x, m, nfft, fs, scale, what)
    # single-precision container: the same clauses with the tolerance such a container achieves
    out = []
    ref, a, ks, cond = _reference(x, m, nfft, float(fs))
    if entry == "pminvar":
        ref = _fold(ref, np.iscomplexobj(x), nfft) * (2 * np.pi / (fs / float(nfft)) if scale else 1.0)
    psd, A, k = np.asarray(got[0]), c(got[1]), c(got[2])
    if psd.shape != ref.shape or np.iscomplexobj(psd) or not np.all(np.isfinite(psd)) or not np.all(psd > 0):
        out.append("%s estimate is not a real, finite, strictly positive vector of the expected length (%s)" % (entry, what))
    elif rel(psd, ref) > max(SEQ_SP_TOL, _tol(cond)):
        out.append("%s PSD != sampling/(e^H R^-1 e): rel err %.2e (%s)" % (entry, rel(psd, ref), what))
    if len(A) != m or A[0] != 1 or rel(A[1:], a) > SEQ_SP_TOL:
        out.append("%s does not return the Burg AR vector (with leading 1) of order m-1 (%s)" % (entry, what))
    if len(k) != m - 1 or rel(k, ks) > SEQ_SP_TOL:
        out.append("%s does not return the Burg reflection coefficients (%s)" % (entry, what))
    return out


def _seq_dev(u, v):
    return max(_binrel(c(a), c(b)) if np.shape(a) == np.shape(b) else float("inf") for a, b in zip(u, v))


def oracle_seq(p):
    sp = _sp()
    p = dict(p, pool=[np.array(a) for a in p["pool"]])
    steps = p["steps"]
    out = []
    # pass 1: the sequence as the caller runs it, back to back (nothing is computed by the harness between two calls)
    first = [_seq_exec(sp, p, st) for st in steps]
    first = [None if g is None else tuple(np.array(v) for v in (g if isinstance(g, tuple) else (g.psd, g.ar, g.reflection))) for g in first]
    for j, st in enumerate(steps):
        if first[j] is not None:
            out += ["step %d of the sequence (%s): %s" % (j, p.get("family"), f) for f in _seq_check(p, st, first[j])]
            if len(out) >= 4:
                return out
    # pass 2: every checked call once more, each right after an analysis of an unrelated record with another order
    for j, st in enumerate(steps):
        if first[j] is None:
            continue
        sp.minvar(np.array(SEQ_FLUSH), 3, NFFT=8)
        got = _seq_exec(sp, p, st)
        got = tuple(np.array(v) for v in (got if isinstance(got, tuple) else (got.psd, got.ar, got.reflection)))
        dev = _seq_dev(got, first[j])
        if dev > SEQ_REPEAT_TOL:
            prev = steps[j - 1] if j else None
            fails = _seq_check(p, st, got)
            out.append("step %d of the sequence (%s): %s of record %d read as %s (m=%d NFFT=%d) returns other numbers after %s than after an "
                       "unrelated record (per-bin rel deviation %.2e; the second result %s the independent reference): the result depends on "
                       "the calls made before" % (j, p.get("family"), st[2], st[0], st[1], int(st[3]), int(st[4]),
                                                  "the call before it (%s of record %d read as %s, m=%d)" % (prev[2], prev[0], prev[1], int(prev[3])) if prev else "nothing",
                                                  dev, "fails" if fails else "agrees with"))
        if len(out) >= 4:
            break
    return out


def _tags_seq(p):
    t = ["seq:family=%s" % p.get("family"), "seq:steps=%d" % len(p["steps"])]
    for st in p["steps"]:
        t.append("seq-step:read=%s" % st[1])
        t.append("seq-step:entry=%s" % st[2])
    for s0, s1 in zip(p["steps"][:-1], p["steps"][1:]):
        if s0[0] == s1[0] and s0[1] != s1[1] and int(s0[3]) == int(s1[3]):
            a, b = sorted((s0[1], s1[1]))
            t.append("seq-pair:same-bytes-same-m:%s/%s" % (a, b))
    return t


def _key_seq(p):
    import zlib
    crc = 0
    for a in p["pool"]:
        crc = zlib.crc32(np.ascontiguousarray(a).tobytes(), crc)
    return "seq|%s|%d|%d|%d" % (p.get("family"), len(p["pool"]), crc, zlib.crc32(repr([list(s) for s in p["steps"]]).encode()))


KINDS["seq"] = {"oracle": oracle_seq, "key": _key_seq, "tags": _tags_seq}

SEQ_FAMILIES = ["reinterp", "reinterp-int", "reinterp-single", "lookalike", "config-return", "copies", "close", "reinterp"]


def _gen_seq(nrng, tier):
    """see the comment of the kind.  Families:
    reinterp         a complex128 record and its float64 interleaved view / an even-length float64 record and its complex128
                     reading, both orders, same m (NFFT / sampling / entry point may differ), sometimes with the direct arburg /
                     pburg analysis of one reading first
    reinterp-int     a float64 / complex128 record and the int64 / uint64 reading of its bytes
    reinterp-single  a float64 record built from single-precision values and its complex64 / float32 / int64 readings
    lookalike        records of equal length, equal first and last sample, equal sum and energy: interior samples permuted, one
                     pair exchanged, reversed, negated, conjugated, two samples moved by +d / -d; a record and its prefix
    config-return    ONE record: configuration A, then another m / NFFT / sampling / entry point, then A again
    copies           a record, a copy of it, the list of it, the copy again: equal values in different objects
    close            records that are numerically close: relative perturbation 2^-52 .. 2^-20 of one / all samples, and unrelated
                     records at amplitude 2^-40 (all of them 'equal' to each other within an absolute tolerance)"""
    quick = tier == "quick"
    kinds = ["noise", "tone", "int", "noise", "trend"]
    FS = [1.0, 2.5, 100.0, 0.01, 0.5, 3]
    n_emit = 0
    occ = {}
    for ci in range(96 if quick else 240):
        fam = SEQ_FAMILIES[ci % len(SEQ_FAMILIES)]
        fi = occ[fam] = occ.get(fam, -1) + 1          # how many sequences of this family came before: selects the variant inside the family
        cplx = bool(fi % 2)
        knd = kinds[(ci // 2) % len(kinds)]
        pool = []
        steps = []

        def cfg(m, j):
            nf = [2 * m, 2 * m + 1, 32, 33, 64, 48][(fi + ci + j) % 6]
            return [m, max(nf, 2 * m), FS[(fi + ci + j) % len(FS)], bool((fi + ci + j) % 3 == 0)]

        def entry(j):
            return ["minvar", "pminvar", "minvar"][(fi + ci + j) % 3]

        def rec(N, cx, kind=None):
            x, _ = gen_data(nrng, N, cx, kind=kind or knd)
            return np.asarray(x, dtype=complex if cx else float)

        if fam == "reinterp":
            if cplx:
                n = int(nrng.integers(8, 65))
                pool.append(rec(n, True))
                other, nmin = "f64", n
            else:
                n = 2 * int(nrng.integers(8, 65))
                pool.append(rec(n, False))
                other, nmin = "c128", n // 2
            m = int(nrng.integers(2, min(nmin // 2, 16) + 1))
            order = [("asis", other), (other, "asis")][(fi // 2) % 2]
            same_cfg = fi % 3 == 0
            w = (fi // 4) % 4
            if w == 1:      # the caller first ran the Burg analysis itself
                steps.append([0, order[0], "arburg"] + cfg(m, 0))
                steps.append([0, order[1], entry(1)] + cfg(m, 1))
                steps.append([0, order[0], entry(2)] + cfg(m, 2))
            elif w == 2:
                steps.append([0, order[0], "pburg"] + cfg(m, 0))
                steps.append([0, order[1], entry(1)] + cfg(m, 1))
            else:
                steps.append([0, order[0], entry(0)] + cfg(m, 0))
                steps.append([0, order[1], entry(0 if same_cfg else 1)] + cfg(m, 0 if same_cfg else 1))
                if w == 3:  # and back, and once more with another order in between
                    steps.append([0, order[0], entry(2)] + cfg(m, 2))
                    m2 = 2 + (m - 1) % max(1, min(nmin // 2, 16) - 1)
                    steps.append([0, order[1], entry(3)] + cfg(m2, 3))
                    steps.append([0, order[1], entry(4)] + cfg(m, 4))
        elif fam == "reinterp-int":
            n = int(nrng.integers(8, 65)) if cplx else int(nrng.integers(8, 129))
            pool.append(rec(n, cplx, kind=["noise", "int", "noise", "tone"][(fi // 2) % 4]))
            m = int(nrng.integers(2, min(n // 2, 16) + 1))
            rd = ["i64", "u64"][(fi // 2) % 2]
            seq = [["asis", rd], [rd, "asis"], ["asis", "i64", "u64", "asis"], [rd, "copy", rd]][(fi // 4) % 4]
            if cplx and fi % 3 == 0:
                seq = ["f64"] + seq
            for j, r in enumerate(seq):
                steps.append([0, r, entry(j)] + cfg(m, j if fi % 2 else 0))
        elif fam == "reinterp-single":
            # a float64 record whose two 32-bit halves are ordinary single-precision numbers (what numpy.frombuffer gives for a
            # file of complex64 samples read with the wrong dtype): every reading is a finite record
            n = int(nrng.integers(8, 33))
            c64 = ((nrng.uniform(0.25, 8, n) * nrng.choice([-1, 1], n)) + 1j * (nrng.uniform(0.25, 8, n) * nrng.choice([-1, 1], n))).astype(np.complex64)
            pool.append(np.array(c64.view(np.float64)))
            m = int(nrng.integers(2, min(n // 2, 16) + 1))
            seq = [["asis", "c64"], ["c64", "asis"], ["f32", "asis", "c64"], ["c64", "i64", "asis", "f32"]][fi % 4]
            for j, r in enumerate(seq):
                steps.append([0, r, entry(j)] + cfg(m, j if fi % 2 else 0))
        elif fam == "lookalike":
            n = int(nrng.integers(10, 129))
            x = rec(n, cplx)
            if fi % 3 != 2:
                x = np.round(x * 1024) / 1024       # dyadic samples: sum and energy are exact, whatever the order of summation
            pool.append(x)
            # members 1..5 agree with x in length, first and last sample, sum and energy
            for _ in range(2):
                y = x.copy()
                y[1:-1] = x[1:-1][nrng.permutation(n - 2)]        # interior samples permuted
                pool.append(y)
            y = x.copy()
            i = int(nrng.integers(1, n - 2))
            y[i], y[i + 1] = x[i + 1], x[i]                       # one interior pair exchanged
            pool.append(y)
            y = x.copy()
            y[1:-1] = np.roll(x[1:-1], 1 + int(nrng.integers(0, n - 3)))     # interior rotated
            pool.append(y)
            y = x.copy()
            y[1:-1] = x[1:-1][::-1]                               # interior reversed
            pool.append(y)
            nlike = len(pool)
            # the others agree in some of them only
            pool.append(x[::-1].copy())
            pool.append(-x)
            y = x.copy()
            d = 0.5 * float(np.max(np.abs(x)))
            i, k = 1 + int(nrng.integers(0, (n - 2) // 2)), n - 2 - int(nrng.integers(0, (n - 2) // 2 - 1))
            if i != k:
                y[i] += d
                y[k] -= d                                         # same sum, ends, length
            pool.append(y)
            pool.append(np.conj(x) if cplx else x[: n - 1 - int(nrng.integers(0, 2))].copy())     # conjugate / a prefix
            m = int(nrng.integers(2, min((n - 2) // 2, 16) + 1))
            idx = [int(v) for v in nrng.permutation(nlike)[: int(nrng.integers(3, 6))]]
            far = nlike + int(nrng.integers(0, len(pool) - nlike))
            idx = (idx + [far] + idx[:2]) if fi % 2 else ([far] + idx)
            for j, r in enumerate(idx):
                steps.append([r, ["asis", "copy"][(fi + j) % 2], entry(j)] + cfg(m, j if fi % 3 else 0))
        elif fam == "config-return":
            n = int(nrng.integers(8, 129))
            pool.append(rec(n, cplx))
            mmax = min(n // 2, 16)
            m = int(nrng.integers(2, mmax + 1))
            m2 = m - 1 if m > 2 else min(m + 1, mmax)
            A = cfg(m, 0)
            e0 = entry(0)
            steps.append([0, "asis", e0] + A)
            alts = [[m2, max(A[1], 2 * m2), A[2], A[3]], [m, A[1] + 1, A[2], A[3]], [m, A[1], A[2] * 4, A[3]], [m, 2 * A[1], A[2], not A[3]],
                    [min(m + 1, mmax), max(A[1], 2 * min(m + 1, mmax)), A[2], A[3]]]
            for j in range(int(nrng.integers(2, 5))):
                alt = alts[int(nrng.integers(0, len(alts)))]
                steps.append([0, ["asis", "copy"][j % 2], entry(j + ci) if j % 2 else e0] + alt)
                if j % 2 == 0 or fi % 2:
                    steps.append([0, "asis", e0] + A)
            steps.append([0, "copy", e0] + A)
        elif fam == "copies":
            n = int(nrng.integers(8, 129))
            pool.append(rec(n, cplx))
            pool.append(rec(n, cplx))
            m = int(nrng.integers(2, min(n // 2, 16) + 1))
            A = cfg(m, 0)
            for j, (r, rd) in enumerate([(0, "asis"), (0, "copy"), (1, "copy"), (0, "copy"), (0, "list"), (1, "list"), (1, "asis"), (0, "asis")][: int(nrng.integers(4, 9))]):
                steps.append([r, rd, entry(j // 2)] + (A if fi % 2 else cfg(m, j // 3)))
        else:   # close
            n = int(nrng.integers(8, 129))
            w = (fi // 2) % 3
            if w == 2:
                for _ in range(3):
                    pool.append(rec(n, cplx, kind=["noise", "tone", "int"][len(pool) % 3]) * 2.0 ** -40)
            else:
                x = rec(n, cplx, kind=["noise", "tone"][fi % 2])
                pool.append(x)
                for e in ([52, 44, 30, 20] if w == 0 else [50, 36, 24]):
                    y = x.copy()
                    if w == 0:
                        i = int(nrng.integers(0, n))
                        y[i] = y[i] * (1 + 2.0 ** -e) if y[i] != 0 else 2.0 ** -e
                    else:
                        y = y * (1 + 2.0 ** -e * nrng.choice([-1.0, 1.0], n))
                    pool.append(y)
            m = int(nrng.integers(2, min(n // 2, 16) + 1))
            idx = [int(v) for v in nrng.permutation(len(pool))]
            idx = idx + idx[:1]
            for j, r in enumerate(idx):
                steps.append([r, ["asis", "copy"][(fi + j) % 2], entry(j // 2)] + cfg(m, 0 if fi % 2 else j // 2))
        q = {"pool": pool, "steps": steps, "family": fam}
        if all(_seq_step_ok(q, st) for st in steps):
            n_emit += 1
            yield ("seq", q)
