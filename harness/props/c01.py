"""C01  Periodogram equals the windowed-DFT definition and conserves power."""
import numpy as np

import single

import proto
from common import gen_data, as_input, rel, nfft_choices

TRUSTED_BASE = [
    "numpy.fft.fft/rfft are modelled as the DFT sum (parameter of the model; its twiddle table is e^{-2 pi i m/NFFT}); the "
    "oracle's reference is the DFT sum itself (twiddle matrix product) for N*NFFT <= 70000 and numpy.fft.fft above that",
    "window samples are taken from the implementation (Window(N, name).data): window shape is C20's business",
    "float64 rounding is not modelled: model/implementation agreement is to relative tolerance 1e-9 of the output's max-norm; "
    "the oracle checks every bin to 1e-9 of that bin's own reference value plus 1e-12 of the largest bin",
    "per-bin check (every func / class / 2-D column case with N*NFFT <= 4e7): reference = the defining DFT sum of x*w in "
    "numpy.longdouble (64-bit mantissa, eps 1.08e-19; twiddle table cos/sin(2 pi m/NFFT) in longdouble, phase index reduced mod "
    "NFFT in integers; no FFT routine involved; its own error is about eps_longdouble log2(NFFT) ||x*w||_2, 2000 times below the "
    "double precision FFT's and 2e5 times below the allowance d); allowed error at bin k = 400 eps P_k + (2 |X_k| d + d^2)/N with "
    "d = 100 eps log2(2 NFFT) ||x*w||_2: the forward error model of a double precision FFT (amplitude error d whatever the size "
    "of the bin) with its constants MEASURED on the unchanged code: worst ratio 2.08 against the same model with constants 4 and 1 "
    "over 24 000 records (N <= 1031 incl. prime NFFT, 29 windows, amplitudes 1e-100..1e100), so the margin is 48.  A bin is thereby "
    "judged relative to ITS OWN size as soon as |X_k| exceeds a few d, i.e. down to about -270 dB under the largest bin; below "
    "that floor nothing is claimed, and a bin returned as exactly 0.0 above it is reported as such.  numpy.longdouble must be wider "
    "than float64 (checked at import; otherwise the per-bin check is skipped and PARTIAL says so)",
    "Wiener-Khinchin per bin: |correlogram_k - P_k| <= 16 eps N sum|x|^2 (P_k in longdouble); the correlogram sums N products "
    "per lag in double precision, so unlike the periodogram it resolves only about eps x (N x total power) per bin: constant 16 = "
    "38 x the worst ratio (0.42) measured on the unchanged code over 12 000 records (N = 2..257, both correlation methods)",
    "the Lean model is evaluated for N <= 600 only (list-based DFT sum); longer records are checked by the oracle alone",
]
PARTIAL = []
ASSUMPTIONS = ["detrend off (False / None / class default), scale_by_freq off (False / None / 0) as the property states; "
               "the sampling frequency is varied (0.01, 1, 1024): with scaling off the result does not depend on it",
               "flag-spelling cases: 'off' is also written as numpy.False_, numpy.bool_(0), the result of a comparison, an element "
               "of a boolean array, 0, 0.0, numpy.int64(0), numpy.float64(0), a 0-d boolean array (and None / False): function: both "
               "flags; Periodogram / FourierSpectrum: scale_by_freq (constructor, or built with True and switched off by attribute "
               "assignment; None is not generated there), detrend only as None (omitted / constructor / attribute: the one 'off' "
               "value the classes document; the setter rejects False and 0).  Each spelling x route was measured on the unchanged "
               "code to return the bit-identical array of the literal spelling, and that (tolerance 0) is what the oracle demands "
               "in addition to the definition.  'On' spellings (True, 'mean', 1, numpy.True_) are outside the statement "
               "(ruling 0.6 (vi)) and never generated; the sampling frequency is also given as int / numpy.int64 / float32 / float64, and "
               "on a fifth of these cases the options are passed positionally in the order of the documented signatures",
               "class calls on 2-D data pass NFFT explicitly (the class default is the total number of samples, not the "
               "number of rows)"]
RULE = ("random data classes (noise, constant, integer, integer dtype, Python list, large dynamic range, tone, "
        "complex dtype with zero imaginary part, all-zero) x all 29 window names x NFFT in {N, N+1, 2N-1, 2N, prime, 2^k} "
        "given explicitly (Python or numpy integer), by default (None / omitted -> N) or as 'nextpow2' (class); "
        "N = 1..96 plus {128, 500, 1024, 4099}; 1-D function, class (.psd, P(), P.run(), FourierSpectrum.periodogram()), "
        "2-D column-wise (function and class; array, nested list, Fortran order, transposed view; all data classes; "
        "amplitudes 2^-30 and 2^17), and Wiener-Khinchin cases (N = 1..32, 64, 100; Y omitted or given; both correlation "
        "methods); coherent high-dynamic-range records (data classes hdr-lines: a strong on-bin tone plus 1-3 weak on-bin tones, "
        "amplitude ratios 1e-3 .. 3e-13, rectangular / rectangle window, NFFT = N, 2N, 3N, 4N, N = 8..256 incl. odd and prime; "
        "hdr-skirt: constant or a pure on-bin tone under the 12 fast-decaying windows (3 in 4) or any window, N = 64..1024 "
        "(thorough: ..2048), NFFT in {N, N+1, 2N-1, 2N, 2^k, 4N}; hdr-int: integer dtype / list, 10^e (+-1 at Nyquist or DC) plus a "
        "1,0,-1,0 pattern, e = 6..14; overall amplitudes 1, 2^-30, 1e-100, 1e100; real and complex; function, class in its four "
        "calling forms, 2-D with unrelated columns of size 1e-12 .. 1e7 beside them (all four containers / layouts), and "
        "Wiener-Khinchin with lines down to 1e-6); flag-spelling cases (tag flag-spelling-case; 149 per quick run, 298 per thorough "
        "round): 11 spellings of 'off' for detrend and scale_by_freq (ASSUMPTIONS) in changing pairs x function 1-D / function 2-D / "
        "Periodogram (.psd, P(), run()) / FourierSpectrum.periodogram() / 2-D class, flag through the constructor or the attribute, on "
        "records whose mean is far from zero (data classes offset: noise or a tone on a constant of 5 / 30 / 1000 standard deviations, "
        "amplitudes 1, 2^-20, 2^12; counts: Poisson counts of mean 3 / 50 / 1000 as integer dtype, integer-valued floats, complex, "
        "or a Python list of ints (counts-list); const; and the older classes), real and complex, N = 1..48 (96) and 64, 100, 128, all "
        "window names in turn, every NFFT spelling: the definition at every bin AND bit-identity with the literal spelling; EVERY func / class / 2-D case, old and new, is also compared bin by bin with "
        "the extended-precision definition on the bin's own scale (TRUSTED_BASE; of the 4099-point records one per thorough round); non-trivial = N >= 2 and non-zero data; "
        "distinct = distinct (kind, shape, NFFT, NFFT spelling, window, data class, api, real/complex, data hash)")

_DIRECT_MAX = 70000          # N*NFFT up to which the reference is the DFT sum written out (no FFT routine involved)
_MODEL_MAX_N = 600           # the list-based Lean model is too slow beyond this record length
_DETREND = {"False": False, "None": None}
_SBF = {"False": False, "None": None, "0": 0}
# Spellings of a flag that is OFF.  The property says "(no detrending, no frequency scaling)"; it does not say that the two
# flags are written as the Python literal False.  A boolean that comes out of numerical code is a numpy.bool_ (result of a
# comparison, element of a boolean array), one read from an option table / .npz file is a numpy scalar or a 0-d array, one
# read from a config file is 0 or 0.0.  Every spelling below was MEASURED on the unchanged code for every route it is
# generated for (function: detrend and scale_by_freq; class / FourierSpectrum: scale_by_freq through the constructor or by
# attribute assignment; detrend of the class only as None, the one "off" value the class documents and its setter accepts):
# the result is bit-identical to the literal spelling (the unchanged code tests `detrend == True` and `scale_by_freq is True`).
# "On" spellings (True, 'mean', 1, numpy.True_) are outside C01's statement and are never generated (DESIGN 0.6 (vi)).
_OFF = ["False", "None", "0", "np.False_", "np.bool_(0)", "0.0", "cmp", "elem", "np.int64(0)", "np.float64(0)", "arr0d"]
_OFF_CLASS = [s_ for s_ in _OFF if s_ != "None"]      # scale_by_freq of the classes (None: not documented there, not generated)


def _flag(name):
    """the object passed for a flag that is off, spelled as `name` (built afresh for every call)"""
    if name in _SBF:
        return _SBF[name]
    if name == "np.False_":
        return np.False_
    if name == "np.bool_(0)":
        return np.bool_(0)
    if name == "0.0":
        return 0.0
    if name == "cmp":
        return (np.array([1]) > 2)[0]                # result of a comparison
    if name == "elem":
        return np.array([True, False, True])[1]      # one entry of a boolean table of run options
    if name == "np.int64(0)":
        return np.int64(0)
    if name == "np.float64(0)":
        return np.float64(0.0)
    if name == "arr0d":
        return np.array(False)                       # what numpy.load returns for a flag stored in an .npz file
    raise ValueError("unknown flag spelling %r" % (name,))


def _flag_repr(name):
    v = _flag(name)
    return "%s [%s.%s]" % (name, type(v).__module__, type(v).__name__)
_worst = [0.0]               # largest (error / tolerance) ratio seen by the oracle (diagnostics only)


def _spectrum():
    import spectrum
    return spectrum


def _win(N, name):
    from spectrum.window import Window
    return np.asarray(Window(N, name).data, dtype=float)


def _dft(v, nfft):
    """DFT_NFFT of the zero-padded vector: the defining sum for small sizes, numpy's FFT for long records"""
    v = np.asarray(v).astype(complex)
    N = len(v)
    if N * nfft > _DIRECT_MAX:
        return np.fft.fft(v, nfft)
    k = np.arange(nfft).reshape(-1, 1)
    n = np.arange(N).reshape(1, -1)
    return np.exp(-2j * np.pi * ((k * n) % nfft) / nfft) @ v


def _ref(x, w, nfft):
    xa = np.asarray(x)
    ref = np.abs(_dft(xa * w, nfft)) ** 2 / len(xa)
    if np.isrealobj(xa):
        ref = ref[: nfft // 2 + 1]
    return ref


# ---- per-bin check against an extended-precision reference -------------------------------------------
#
# The max-norm comparisons above cannot see a bin that is wrong by 100 % of its own value when that value lies more than
# 180-240 dB under the largest bin of the record, although "large-dynamic-range data" is inside the quantifier and the
# property says "at every returned bin".  What can be demanded of such a bin?  The library returns |X^|^2/N with X^ the double
# precision FFT of fl(x*w).  A double precision FFT (and the rounding of the products x*w) perturbs every X_k by at most
# d = c eps log2(NFFT) ||x*w||_2 in AMPLITUDE, independently of |X_k|; hence
#       | |X^_k|^2/N - |X_k|^2/N |  <=  (2 |X_k| d + d^2)/N  +  (a few ulp of the value: abs, square, division),
# i.e. a bin is returned with relative error ~ 2 d/|X_k|: with d ~ 1e-15 of the peak amplitude a line 180 dB under the peak
# still has 6 correct digits.  The resolution floor is d in amplitude = d^2/N in power = eps^2 x peak power (about -300 dB),
# NOT eps x peak power (-156 dB).  Constants c and "a few" are measured on the UNCHANGED code (/tmp-style sweep kept in the
# comment of _PB_C below) and enter with a margin >= 30.
_LD = np.longdouble
_EPS = float(np.finfo(float).eps)
_LD_OK = float(np.finfo(_LD).eps) < 1e-18          # x86 extended precision: eps = 1.08e-19
_PI_LD = _LD("3.14159265358979323846264338327950288")
_LD_MAX = 4.0e7              # N*NFFT up to which the extended-precision reference is evaluated (chunked; 4099 x 8198 = 1.4 s)
# unchanged code, 24 000 records (N = 1..99, 127..1031 incl. primes; 29 windows; noise / constant / on-bin tone / sums of on-bin
# tones with amplitude ratios down to 1e-12 / 2^+-20 dynamic range / integers; real and complex; NFFT in {N, N+1, 2N-1, 2N,
# 3N, 4N, N+j}; amplitudes 1, 2^-40, 1e-100, 1e100): worst  err_k / (4 eps P_k + (2|X_k| d1 + d1^2)/N),  d1 = eps log2(2 NFFT) ||xw||_2,
# was 2.08 (tone, N = 1021, NFFT = 1022); the thorough tier (71 000 cases) stays below 2.5.  Both constants x 100 => margin 40-48.
_PB_C = 100.0                # d = _PB_C * eps * log2(2 NFFT) * ||x*w||_2
_PB_R = 400.0                # relative term: _PB_R * eps * P_k
_WK_C = 16.0                 # Wiener-Khinchin: |correlogram_k - P_k| <= _WK_C * eps * N * sum|x|^2   (worst measured ratio 0.42)
_worst_pb = [0.0]
_worst_wk = [0.0]
_tw_cache = {}
_mat_cache = {}

if not _LD_OK:
    PARTIAL.append("numpy.longdouble is not wider than float64 on this platform: the per-bin (own-scale) comparison of C01 and the "
                   "per-bin Wiener-Khinchin bound are NOT evaluated; only the max-norm comparisons are")


def _twiddles(nfft):
    t = _tw_cache.get(nfft)
    if t is None:
        if len(_tw_cache) > 6:
            _tw_cache.clear()
        a = np.arange(nfft, dtype=_LD) * (2 * _PI_LD / _LD(nfft))
        t = _tw_cache[nfft] = (np.cos(a), np.sin(a))
    return t


def _dft_ld(yr, yi, nfft, K):
    """bins 0..K-1 of DFT_NFFT of the zero-padded longdouble record yr + i yi (yi may be None): the defining sum, row by row"""
    N = len(yr)
    ct, st = _twiddles(nfft)
    n = np.arange(N, dtype=np.int64)
    Xr = np.empty(K, dtype=_LD)
    Xi = np.empty(K, dtype=_LD)
    step = max(1, 250000 // max(N, 1))
    for k0 in range(0, K, step):
        k1 = min(K, k0 + step)
        key = (N, nfft, k0, k1)
        cs = _mat_cache.get(key)
        if cs is None:
            idx = (np.arange(k0, k1, dtype=np.int64).reshape(-1, 1) * n) % nfft
            cs = (ct[idx], st[idx])
            if K <= step:                       # whole matrix in one block: keep it for the other columns / APIs of the same size
                if len(_mat_cache) > 3:
                    _mat_cache.clear()
                _mat_cache[key] = cs
        c, s = cs
        if yi is None:
            Xr[k0:k1] = c @ yr
            Xi[k0:k1] = -(s @ yr)
        else:
            Xr[k0:k1] = c @ yr + s @ yi
            Xi[k0:k1] = c @ yi - s @ yr
    return Xr, Xi


def _ref_ld(x, w, nfft):
    """(P, |X|, ||x*w||_2) of the definition in extended precision; P and |X| stay longdouble.  x*w is formed in longdouble
    from the float64 samples and window values (the library's own rounding of the products is part of its error budget)"""
    x = np.asarray(x)
    N = len(x)
    wl = np.asarray(w, dtype=float).astype(_LD)
    real = np.isrealobj(x)
    yr = np.real(x).astype(_LD) * wl
    yi = None if real else np.imag(x).astype(_LD) * wl
    K = nfft // 2 + 1 if real else nfft
    Xr, Xi = _dft_ld(yr, yi, nfft, K)
    P2 = Xr * Xr + Xi * Xi
    nrm = np.sqrt(np.sum(yr * yr) + (0 if yi is None else np.sum(yi * yi)))
    return P2 / _LD(N), np.sqrt(P2), nrm


def _perbin(x, w, nfft, got, label, desc):
    """every returned bin against the extended-precision definition, each bin on its own scale (error model above)"""
    x = np.asarray(x)
    N = len(x)
    if not _LD_OK or N * nfft > _LD_MAX or N == 0:
        return []
    P, A, nrm = _ref_ld(x, w, nfft)
    got = np.asarray(got)
    if got.shape != P.shape:
        return []
    with np.errstate(all="ignore"):
        d = _LD(_PB_C * _EPS * np.log2(2.0 * nfft)) * nrm
        tol = _LD(_PB_R * _EPS) * P + (2 * A * d + d * d) / _LD(N)
        err = np.abs(got.astype(_LD) - P)
        q = np.where(err == 0, _LD(0), err / np.where(tol > 0, tol, _LD(1e-4900)))
    if not q.size:
        return []
    k = int(np.argmax(q))
    e = float(q[k])
    if np.isfinite(e) and e > _worst_pb[0]:
        _worst_pb[0] = e
    if not e > 1.0:
        return []
    # the tripwire reads better on a bin that came back as exactly 0.0 (if there is one among the failing bins)
    z = np.nonzero((q > 1.0) & (got == 0))[0]
    peak = float(np.max(P))
    if z.size:
        k = int(z[np.argmax(P[z])])
        what = "is exactly 0.0 although"
    else:
        what = "is %.6e," % float(got[k])
    with np.errstate(all="ignore"):
        db = 10 * np.log10(float(P[k]) / peak) if peak > 0 and P[k] > 0 else float("-inf")
        floor_db = 10 * np.log10(float(d * d / _LD(N)) / peak) if peak > 0 and d > 0 else float("-inf")
    return ["%s bin %d %s |DFT(x*w)|^2/N = %.6e there (own-scale relative error %.2e; the bin lies %.1f dB under the largest bin "
            "%.3e, double precision resolves bins down to %.1f dB; allowed error %.2e = 400 eps P_k + (2|X_k|d + d^2)/N, "
            "d = 100 eps log2(2 NFFT) ||xw||; %d bins fail; N=%d NFFT=%d %s)" % (
                label, k, what, float(P[k]), float(err[k] / P[k]) if P[k] > 0 else float("inf"), -db, peak, floor_db,
                float(tol[k]), int(np.sum(q > 1.0)), N, nfft, desc)]


def _pow2(N):
    """2**ceil(log2 N) in integer arithmetic"""
    p = 1
    while p < N:
        p *= 2
    return p


def _key(p):
    x = np.asarray(p["x"])
    return "%s|%s|%s|%s|%s|%d|%s" % (x.shape, p.get("nfft"), p.get("window"), p.get("dkind"),
                                     np.iscomplexobj(x), hash(x.tobytes()) & 0xFFFFFF,
                                     "/".join(str(p.get(k, "")) for k in ("nfft_arg", "api", "form", "method", "ygiven", "detrend", "sbf",
                                                                              "sbf_route", "det_route", "sampling_type", "argstyle")))


def _nontrivial(p):
    x = np.asarray(p["x"])
    return x.shape[0] >= 2 and bool(np.any(x))


def _opt_tags(p):
    t = []
    if p.get("nfft_arg"):
        t.append("nfftarg:" + p["nfft_arg"])
    if "sampling" in p:
        t.append("sampling:%g" % p["sampling"])
    if p.get("detrend", "False") != "False":
        t.append("detrend:" + p["detrend"])
    if p.get("sbf", "False") != "False":
        t.append("scale_by_freq:" + p["sbf"])
    if p.get("call"):
        t.append("class-call:" + p["call"])
    if p.get("sbf_route"):
        t.append("scale_by_freq-route:" + p["sbf_route"])
    if p.get("det_route"):
        t.append("class-detrend:None(%s)" % p["det_route"])
    if p.get("sampling_type"):
        t.append("sampling-type:" + p["sampling_type"])
    if p.get("argstyle"):
        t.append("args:positional")
    if p.get("flagcase"):
        t.append("flag-spelling-case")
    if p.get("perbin", 1) == 0:
        t.append("perbin:off(cost)")
    if p.get("nomodel"):
        t.append("model:off(cost)")
    return t


def _tags(p):
    x = np.asarray(p["x"])
    n = p.get("nfft")
    return ["data:" + p.get("dkind", "?"), "complex" if np.iscomplexobj(x) else "real",
            "nfft:" + ("odd" if n % 2 else "even"), "win:" + p.get("window", "-"),
            "N:" + ("1" if len(x) == 1 else "2-96" if len(x) <= 96 else "128-600" if len(x) <= 600 else ">600")] + _opt_tags(p) + (
                _hdr_tags(p) if str(p.get("dkind", "")).startswith("hdr") else [])


# ---- 1-D function ---------------------------------------------------------------------------------

def _nfft_kw(p):
    """the NFFT keyword as the case spells it: explicit (Python or numpy integer), None, 'nextpow2', or left out"""
    a = p.get("nfft_arg", "explicit")
    if a == "omit":
        return {}
    if a == "None":
        return {"NFFT": None}
    if a == "nextpow2":
        return {"NFFT": "nextpow2"}
    nfft = p["nfft"]
    if p.get("npint"):
        nfft = [np.int64, np.int32, np.intp][p["npint"] - 1](nfft)     # e.g. 2**nextpow2(N): the library's own helper returns numpy.int64
    return {"NFFT": nfft}


def _sampling_kw(p):
    if "sampling" not in p:
        return {}
    s_ = p["sampling"]
    t = p.get("sampling_type")            # the same number as a Python int / numpy scalar (scaling is off: no influence)
    if t:
        s_ = {"int": int, "np.int64": np.int64, "np.float32": np.float32, "np.float64": np.float64}[t](s_)
    return {"sampling": s_}


def _inp(p):
    """the data in the container the case asks for"""
    if p.get("dkind") == "counts-list":
        return [int(v) for v in np.asarray(p["x"])]          # Python list of Python ints (event counts)
    return as_input(p["x"], p["dkind"])


def _call_func(sp, x, p, kw):
    """speriodogram with the options as keywords, or -- argstyle 'pos' -- in the order of the documented signature
    speriodogram(x, NFFT, detrend, sampling, scale_by_freq, window)"""
    det = _flag(p.get("detrend", "False"))
    sbf = _flag(p.get("sbf", "False"))
    if p.get("argstyle") == "pos":
        return sp.speriodogram(x, kw.get("NFFT"), det, kw.get("sampling", 1.0), sbf, p["window"])
    return sp.speriodogram(x, detrend=det, scale_by_freq=sbf, window=p["window"], **kw)


def impl_func(p):
    sp = _spectrum()
    x = _inp(p)
    kw = dict(_nfft_kw(p))
    kw.update(_sampling_kw(p))
    r = _call_func(sp, x, p, kw)
    return [np.asarray(r)]


def _class_psd(p, x):
    sp = _spectrum()
    kw = dict(_nfft_kw(p))
    kw.update(_sampling_kw(p))
    call = p.get("call")
    # scaling off: through the constructor (default: the literal False), or -- route 'attr' -- the object is built with scaling ON
    # (given explicitly: Periodogram's default is False, FourierSpectrum's True, and the setter ignores an assignment that
    # compares equal to the current value) and the flag is switched off by assignment before anything is computed
    route = p.get("sbf_route", "ctor")
    kw["scale_by_freq"] = _flag(p.get("sbf", "False")) if route == "ctor" else True
    # detrending off: not mentioned (default), or None given to the constructor, or None assigned to the attribute
    if p.get("det_route") == "ctor":
        kw["detrend"] = None
    if p.get("argstyle") == "pos":
        # the documented orders: Periodogram(data, sampling, window, NFFT, scale_by_freq, detrend),
        #                        FourierSpectrum(data, sampling, window, NFFT, detrend, scale_by_freq)
        a = [x, kw.get("sampling", 1.0), p["window"], kw.get("NFFT")]
        P = sp.FourierSpectrum(*(a + [None, kw["scale_by_freq"]])) if call == "alias" else sp.Periodogram(*(a + [kw["scale_by_freq"], None]))
    else:
        P = (sp.FourierSpectrum if call == "alias" else sp.Periodogram)(x, window=p["window"], **kw)
    if route == "attr":
        P.scale_by_freq = _flag(p.get("sbf", "False"))
    if p.get("det_route") == "attr":
        P.detrend = None
    if call == "alias":
        P.periodogram()
    else:
        if call == "call":
            P()
        elif call == "run":
            P.run()
    return np.asarray(P.psd)


def impl_class(p):
    return [_class_psd(p, _inp(p))]


def model_1d(p):
    x = np.asarray(p["x"])
    if len(x) > _MODEL_MAX_N or p.get("nomodel"):
        return None
    w = _win(len(x), p["window"])
    return ("F", proto.request("sper", "F", [1 if np.isrealobj(x) else 0, p["nfft"]], [x, w]))


def _excess(got, ref):
    """max over bins of |got-ref| / (1e-9 |ref_k| + 1e-12 max|ref|); 0 when equal everywhere"""
    d = np.abs(got - ref)
    tol = 1e-9 * np.abs(ref) + 1e-12 * float(np.max(np.abs(ref)))
    bad = d > tol
    with np.errstate(divide="ignore", invalid="ignore"):
        q = np.where(d == 0, 0.0, d / np.where(tol > 0, tol, 1e-300))
    e = float(np.max(q)) if q.size else 0.0
    if np.isfinite(e) and e > _worst[0]:
        _worst[0] = e
    return e, (int(np.argmax(q)) if bad.any() else -1)


def _check_column(x, w, nfft, got, label, desc, perbin=True):
    """the property statement for one record: bins, realness, value of every bin, Parseval (complex data)"""
    x = np.asarray(x)
    ref = _ref(x, w, nfft)
    out = []
    got = np.asarray(got)
    if got.shape != ref.shape:
        out.append("%s: %d values returned, definition has %d bins (N=%d NFFT=%d %s %s)" % (
            label, got.size, ref.size, len(x), nfft, "complex" if np.iscomplexobj(x) else "real", desc))
        return out
    if got.dtype.kind != "f" or not np.all(np.isfinite(got)):
        out.append("%s: result not real (floating) and finite: dtype %s (N=%d NFFT=%d %s)" % (label, got.dtype, len(x), nfft, desc))
        return out
    r = rel(got, ref)
    if r > 1e-9:
        out.append("%s differs from |DFT(x*w)|^2/N: rel err %.2e (N=%d NFFT=%d %s)" % (label, r, len(x), nfft, desc))
    e, k = _excess(got, ref)
    if k >= 0 and r <= 1e-9:
        out.append("%s differs from |DFT(x*w)|^2/N at bin %d: %.6g returned, definition %.6g (largest bin %.3g; "
                   "tolerance 1e-9 of the bin + 1e-12 of the largest; N=%d NFFT=%d %s)" % (
                       label, k, got[k], ref[k], float(np.max(ref)), len(x), nfft, desc))
    if not np.any(x) and np.any(got != 0):
        out.append("%s of an all-zero record is not exactly zero (N=%d NFFT=%d %s)" % (label, len(x), nfft, desc))
    if np.iscomplexobj(x):
        lhs = float(np.mean(got))
        rhs = float(np.sum(np.abs(x * w) ** 2) / len(x))
        if abs(lhs - rhs) > 1e-9 * max(abs(rhs), 1e-300):
            out.append("%s: Parseval fails: mean(P)=%.12g, sum|xw|^2/N=%.12g (N=%d NFFT=%d %s)" % (
                label, lhs, rhs, len(x), nfft, desc))
    if not out and perbin:
        out += _perbin(x, w, nfft, got, label, desc)       # every bin on its own scale (extended-precision reference)
    return out


def _desc(p):
    return "window=%s data=%s%s" % (p["window"], p["dkind"], "".join(" " + t for t in _opt_tags(p)))


def _oracle_vals(p, got, label):
    x = np.asarray(p["x"])
    return _check_column(x, _win(len(x), p["window"]), p["nfft"], got, label, _desc(p), perbin=p.get("perbin", 1) != 0)


_SPELL_KEYS = ("detrend", "sbf", "sbf_route", "det_route", "sampling_type", "argstyle")


def _spelled(p):
    return any(p.get(k) not in (None, "False") for k in _SPELL_KEYS)


def _same_as_literal(p, got, impl, label):
    """a case that writes 'off' (or the sampling frequency) in another way must return EXACTLY what the literal spelling
    detrend=False / scale_by_freq=False (class: scale_by_freq=False to the constructor, detrend not mentioned) returns for the
    same data: tolerance 0, which is what the unchanged code achieves (same code path, deterministic arithmetic; measured on
    every spelling x route generated here)"""
    if not _spelled(p):
        return []
    lit = impl({k: v for k, v in p.items() if k not in _SPELL_KEYS})
    hows = []
    if "detrend" in p:
        hows.append("detrend=" + _flag_repr(p["detrend"]))
    if "sbf" in p:
        hows.append("scale_by_freq=" + _flag_repr(p["sbf"]) + (" set by attribute" if p.get("sbf_route") == "attr" else ""))
    if p.get("det_route"):
        hows.append("detrend=None (%s)" % p["det_route"])
    if p.get("sampling_type"):
        hows.append("sampling as " + str(p["sampling_type"]))
    if p.get("argstyle"):
        hows.append("options given positionally")
    how = ", ".join(hows)
    if len(lit) != len(got):
        return ["%s with %s returns %d arrays, with the literal spelling (False) %d" % (label, how, len(got), len(lit))]
    for j, (a, b) in enumerate(zip(got, lit)):
        a = np.asarray(a)
        b = np.asarray(b)
        if a.shape != b.shape or not np.array_equal(a, b, equal_nan=True):
            if a.shape == b.shape and a.size:
                d = np.abs(a.astype(complex) - b.astype(complex))
                k = int(np.nanargmax(d)) if np.any(np.isfinite(d)) else 0
                det = "largest difference %.3e at bin %d (%.6g against %.6g)" % (float(d.ravel()[k]), k, float(np.real(a.ravel()[k])),
                                                                           float(np.real(b.ravel()[k])))
            else:
                det = "shapes %s / %s" % (a.shape, b.shape)
            x = np.asarray(p["x"])
            return ["%s with %s is not what the literal spelling (detrend=False, scale_by_freq=False) returns for the same data: %s"
                    " (output %d; 'off' written in another way must change nothing; data mean %.3g, shape %s, NFFT=%s %s)" % (
                        label, how, det, j, float(np.abs(np.mean(x))) if x.size else 0.0, x.shape, p.get("nfft"), _desc(p))]
    return []


def oracle_func(p):
    got = impl_func(p)
    return _oracle_vals(p, got[0], "speriodogram") + _same_as_literal(p, got, impl_func, "speriodogram")


def oracle_class(p):
    label = {"alias": "FourierSpectrum.periodogram() psd"}.get(p.get("call"), "Periodogram.psd")
    got = impl_class(p)
    return _oracle_vals(p, got[0], label) + _same_as_literal(p, got, impl_class, label)


# ---- 2-D ------------------------------------------------------------------------------------------

def _x2d(p):
    """the 2-D input in the form the case asks for (replays store the plain C-ordered array)"""
    x = np.asarray(p["x"])
    form = p.get("form", "array")
    if form == "list":
        return x.tolist()
    if form == "fortran":
        return np.asfortranarray(x)
    if form == "tview":
        return np.ascontiguousarray(x.T).T          # transposed view of a (c, r) array
    return x


def impl_2d(p):
    sp = _spectrum()
    if p.get("api") == "class":
        r = _class_psd(p, _x2d(p))
    else:
        kw = dict(_nfft_kw(p))
        kw.update(_sampling_kw(p))
        r = _call_func(sp, _x2d(p), p, kw)
    r = np.asarray(r)
    if r.ndim != 2:
        raise ValueError("2-D input: result has %d dimensions" % r.ndim)
    return [r[:, j] for j in range(r.shape[1])]


def model_2d(p):
    x = np.asarray(p["x"])
    if x.shape[0] > _MODEL_MAX_N:
        return None
    w = _win(x.shape[0], p["window"])
    cols = [x[:, j] for j in range(x.shape[1])]
    return ("F", proto.request("sper2", "F", [1 if np.isrealobj(x) else 0, p["nfft"]], [w] + cols))


def oracle_2d(p):
    x = np.asarray(p["x"])
    got = impl_2d(p)
    w = _win(x.shape[0], p["window"])
    label = "2-D Periodogram.psd" if p.get("api") == "class" else "2-D speriodogram"
    if len(got) != x.shape[1]:
        return ["%s: %d columns returned for %d input columns" % (label, len(got), x.shape[1])]
    for j in range(x.shape[1]):
        out = _check_column(x[:, j], w, p["nfft"], got[j], "%s column %d" % (label, j),
                            "shape %s form=%s %s" % (x.shape, p.get("form", "array"), _desc(p)))
        if out:
            return out[:2]
    return _same_as_literal(p, got, impl_2d, label)


def _tags_2d(p):
    x = np.asarray(p["x"])
    return ["2d", "win:" + p["window"], "2d-data:" + p["dkind"], "2d-form:" + p.get("form", "array"),
            "2d-api:" + p.get("api", "func"), "2d-dtype:" + str(x.dtype),
            "2d-rows:" + ("1" if x.shape[0] == 1 else "<=24" if x.shape[0] <= 24 else ">24")] + (
                ["2d-amp:" + p["amp"]] if p.get("amp") else []) + _opt_tags(p) + (
                    _hdr_tags(p) if str(p.get("dkind", "")).startswith("hdr") else [])


# ---- Wiener-Khinchin ------------------------------------------------------------------------------

def impl_wk(p):
    sp = _spectrum()
    x = as_input(p["x"], p["dkind"])
    N = len(x)
    kw = {}
    if p.get("ygiven"):
        kw["Y"] = as_input(np.array(p["x"]).copy(), p["dkind"])      # the same record passed explicitly as second channel
    r = sp.CORRELOGRAMPSD(x, lag=N - 1, window="rectangular", norm="biased", NFFT=p["nfft"],
                          correlation_method=p["method"], **kw)
    return [np.asarray(r)]


def model_wk(p):
    x = np.asarray(p["x"])
    N = len(x)
    w = np.ones(N - 1)
    return ("F", proto.request("corrgramd", "F", [N - 1, p["nfft"], "biased"], [x, x, w]))


def oracle_wk(p):
    x = np.asarray(p["x"])
    got = impl_wk(p)[0]
    ref = np.abs(_dft(x, p["nfft"])) ** 2 / len(x)
    if got.shape != ref.shape:
        return ["correlogram has %d values, periodogram %d" % (got.size, ref.size)]
    if got.dtype.kind != "f" or not np.all(np.isfinite(got)):
        return ["correlogram not real and finite: dtype %s (N=%d NFFT=%d %s)" % (got.dtype, len(x), p["nfft"], p["method"])]
    d = float(np.max(np.abs(got - ref)))
    if d > 1e-9 * max(float(np.max(np.abs(ref))), 1e-300):
        return ["Wiener-Khinchin fails: correlogram (rectangular, lag N-1, biased, NFFT=%d>=2N-1, %s, Y %s, data=%s) differs "
                "from the periodogram by %.2e (N=%d)" % (p["nfft"], p["method"], "given" if p.get("ygiven") else "omitted",
                                                        p["dkind"], d, len(x))]
    # per bin: the correlogram is a double precision FFT of lag products summed in double precision, so each bin carries an
    # absolute error of the order eps x (N x total power) whatever its own size (measured constant: see _WK_C); a weak line is
    # therefore compared on its own scale as long as it stands above that, and no bin may be flushed / clipped above it
    N = len(x)
    if _LD_OK and N * p["nfft"] <= _LD_MAX:
        P, _, nrm = _ref_ld(x.astype(complex), np.ones(N), p["nfft"])
        tol = _LD(_WK_C * _EPS * N) * nrm * nrm
        err = np.abs(got.astype(_LD) - P)
        k = int(np.argmax(err))
        if tol > 0:
            _worst_wk[0] = max(_worst_wk[0], float(err[k] / tol))
        if err[k] > tol:
            return ["Wiener-Khinchin fails at bin %d: correlogram %.6e, periodogram |DFT(x)|^2/N = %.6e (difference %.2e = %.2e of "
                    "that bin; allowed 16 eps N sum|x|^2 = %.2e; largest bin %.3e; rectangular, lag N-1, biased, NFFT=%d>=2N-1, %s, "
                    "Y %s, data=%s, N=%d)" % (k, float(got[k]), float(P[k]), float(err[k]),
                                             float(err[k] / P[k]) if P[k] > 0 else float("inf"), float(tol), float(np.max(P)),
                                             p["nfft"], p["method"], "given" if p.get("ygiven") else "omitted", p["dkind"], N)]
    return []


# ---- coherent high-dynamic-range records ------------------------------------------------------------
# Random / noisy records span some 40 dB; the "dyn" class has samples of very different size but a flat spectrum.  A bin far
# under the largest one only exists when the record is coherent with the transform: sums of tones that fall ON bins of
# DFT_NFFT (rectangular window, NFFT a multiple of N), or a constant / on-bin tone under a window with a fast-decaying skirt.

_FAST = ["blackman", "blackman_harris", "blackman_nuttall", "bohman", "flattop", "hann", "hanning", "nuttall", "parzen",
         "bartlett_hann", "hamming", "tukey"]
_HDR_AMPS = [None, None, None, ("1e-100", 1e-100), ("1e100", 1e100), ("2^-30", 2.0 ** -30)]


def _hdr_lines(nrng, N, cplx, i, umax=13.0):
    """strong on-bin line plus 1-3 weak on-bin lines, amplitude ratios 10^-u with u cycling through 3..umax-0.5
    (the default reaches 3e-13: -250 dB, 20 dB above what double precision resolves).
    Returns (x, smallest ratio)"""
    n = np.arange(N)
    pool = np.arange(N) if cplx else np.arange(1, (N - 1) // 2 + 1)          # real: strictly between DC and Nyquist
    nl = min(len(pool), 2 + int(nrng.integers(0, 3)))
    bins = nrng.choice(pool, size=nl, replace=False)
    span = max(1, int(umax - 3 + 0.5))
    us = [0.0] + [min(umax, 3 + ((i + 2 * j) % span) + float(nrng.uniform(0, 0.5))) for j in range(nl - 1)]
    x = np.zeros(N, dtype=complex if cplx else float)
    for k, u in zip(bins, us):
        ph = float(nrng.uniform(0, 2 * np.pi))
        a = 10.0 ** -u
        x = x + (a * np.exp(1j * (2 * np.pi * int(k) * n / N + ph)) if cplx else a * np.cos(2 * np.pi * int(k) * n / N + ph))
    return x, 10.0 ** -max(us)


def _hdr_skirt(nrng, N, cplx, i):
    """constant, or a pure tone exactly on a bin of DFT_N: under a smooth window everything away from the line is skirt"""
    n = np.arange(N)
    if i % 3 == 0:
        c = float(nrng.integers(1, 5))
        return np.full(N, c) + (1j * float(nrng.integers(-3, 4)) if cplx else 0.0)
    k = int(nrng.integers(0, N if cplx else N // 2 + 1))
    ph = float(nrng.uniform(0, 2 * np.pi))
    return np.exp(1j * (2 * np.pi * k * n / N + ph)) if cplx else np.cos(2 * np.pi * k * n / N + ph)


def _hdr_int(nrng, N, i):
    """integer dtype: A*(+-1 at Nyquist, or DC) plus a 1,0,-1,0 pattern (bin N/4), A = 10^6..10^14; N a multiple of 4"""
    n = np.arange(N)
    e = 6 + i % 9
    A = 10 ** e
    s1 = np.where(n % 2 == 0, 1, -1) if i % 2 else np.ones(N, dtype=np.int64)
    s2 = np.array([1, 0, -1, 0], dtype=np.int64)[n % 4] * int(nrng.integers(1, 4))
    return (A * s1 + s2).astype(np.int64), 0.5 / A


def _hdr_tags(p):
    t = []
    if p.get("ratio"):
        t.append("hdr-weakest-line:1e%d" % int(np.floor(np.log10(p["ratio"]) + 1e-9)))
    if p.get("hdr_amp"):
        t.append("hdr-amp:" + p["hdr_amp"])
    if p.get("nfft_mult"):
        t.append("hdr-nfft:%dN" % p["nfft_mult"])
    return t



KINDS = {
    "func": {"impl": impl_func, "model": model_1d, "oracle": oracle_func, "rtol": 1e-9, "atol": 1e-300,
             "key": _key, "nontrivial": _nontrivial, "tags": _tags},
    "class": {"impl": impl_class, "model": model_1d, "oracle": oracle_class, "rtol": 1e-9, "atol": 1e-300,
              "key": _key, "nontrivial": _nontrivial, "tags": _tags},
    "twod": {"impl": impl_2d, "model": model_2d, "oracle": oracle_2d, "rtol": 1e-9, "atol": 1e-300,
             "key": _key, "nontrivial": _nontrivial, "tags": _tags_2d},
    "wk": {"impl": impl_wk, "model": model_wk, "oracle": oracle_wk, "rtol": 1e-9, "atol": 1e-300,
           "key": _key, "nontrivial": _nontrivial,
           "tags": lambda p: ["wk:" + p["method"], "wk-data:" + p["dkind"], "wk-Y:" + ("given" if p.get("ygiven") else "omitted"),
                              "wk-dtype:" + str(np.asarray(p["x"]).dtype),
                              "wk-N:" + ("1" if len(p["x"]) == 1 else "2-32" if len(p["x"]) <= 32 else ">32")] + (
                                  _hdr_tags(p) if str(p.get("dkind", "")).startswith("hdr") else [])},
}


KINDS["single"] = single.kind("C01")


def _options(nrng, api):
    """spellings that must not change the result (scaling off): sampling frequency on a quarter of the cases, the
    function's detrend / scale_by_freq values, the way the class is made to compute.  One draw, mixed-radix decoded, so
    the choices are independent of each other and of the loop index."""
    o = int(nrng.integers(0, 4 * 2 * 2 * 3 * 6))
    q = {}
    if o % 4 == 0:
        q["sampling"] = [0.01, 1024.0][(o // 4) % 2]
    o //= 8
    if api == "func":
        if o % 2:
            q["detrend"] = "None"
        if (o // 2) % 3:
            q["sbf"] = ["False", "None", "0"][(o // 2) % 3]
    elif api == "class":
        c = [None, None, None, "call", "run", "alias"][(o // 6) % 6]
        if c:
            q["call"] = c
    return q


def _nzmean(nrng, N, cplx, i):
    """records whose mean is far from zero (the flag cases: whether the mean is removed or not must be visible at every bin):
    noise / a tone riding on a constant offset of 5, 30 or 1000 standard deviations, non-negative integer counts (integer dtype,
    Python list of ints, or integer-valued floats), a constant, and now and then any class of gen_data.  Returns (x, tag)"""
    t = i % 6
    n = np.arange(N)
    if t in (0, 3):
        k = [5.0, 30.0, 1000.0][(i // 6) % 3]
        amp = [1.0, 1.0, 2.0 ** -20, 2.0 ** 12][(i // 18) % 4]
        if t == 0:
            x = nrng.standard_normal(N) + (1j * nrng.standard_normal(N) if cplx else 0)
        else:
            f = float(nrng.uniform(0.05, 0.45))
            ph = float(nrng.uniform(0, 6))
            x = np.exp(1j * (2 * np.pi * f * n + ph)) if cplx else np.sqrt(2.0) * np.cos(2 * np.pi * f * n + ph)
            x = x + 0.05 * nrng.standard_normal(N)
        off = k * (np.exp(1j * float(nrng.uniform(0, 6))) if cplx else [1.0, -1.0][(i // 2) % 2])
        return amp * (x + off), "offset"
    if t in (1, 4):
        lam = [3.0, 50.0, 1000.0][(i // 6) % 3]
        c = nrng.poisson(lam, N).astype(np.int64)
        if not np.any(c):
            c[0] = 1
        if cplx:
            return c.astype(float) + 1j * nrng.poisson(lam, N), "counts"      # integer-valued complex samples
        if t == 4:
            return c, "counts-list"          # handed over as a Python list of ints (see _inp)
        return (c, "counts") if (i // 6) % 2 == 0 else (c.astype(float), "counts")
    if t == 2:
        return gen_data(nrng, N, cplx, kind="const")
    return gen_data(nrng, N, cplx, kind=["trend", "int", "noise", "intdtype", "list", "tone"][(i // 6) % 6])


def _matrix(nrng, r, c, cplx, dkind, i):
    """an (r, c) matrix whose columns are records of the data classes of gen_data"""
    if dkind == "mixed":
        cols = [gen_data(nrng, r, cplx, kind=["noise", "const", "dyn", "tone", "int", "trend"][(j + i) % 6])[0] for j in range(c)]
    else:
        cols = [gen_data(nrng, r, cplx, kind=dkind)[0] for j in range(c)]
    return np.stack(cols, axis=1)


def gen(rng, nrng, tier):
    yield from single.gen("C01", nrng, tier)
    from spectrum.window import window_names
    names = sorted(window_names)
    quick = tier == "quick"
    n_main = 260 if quick else 4000
    maxN = 48 if quick else 96
    for i in range(n_main):
        N = int(nrng.integers(1, maxN + 1)) if i % 7 else int(nrng.integers(1, 5))
        cplx = bool(nrng.integers(0, 2))
        x, dk = gen_data(nrng, N, cplx)
        nfft = nfft_choices(nrng, N)
        name = names[i % len(names)]
        q = {"x": x, "dkind": dk, "nfft": nfft, "window": name}
        if i % 10 == 3:
            q["npint"] = 1 + (i // 10) % 3
        api = "func" if i % 2 == 0 else "class"
        q.update(_options(nrng, api))
        yield (api, q)

    # default / alternative padding: NFFT None or left out (-> N), 'nextpow2' (class; -> 2**ceil(log2 N))
    n_def = 72 if quick else 720
    special = [1, 2, 3, 12, 16, 17]
    for i in range(n_def):
        j = i // 3
        N = special[(j // 2) % len(special)] if j % 2 == 0 else int(nrng.integers(1, maxN + 1))
        cplx = bool(nrng.integers(0, 2))
        x, dk = gen_data(nrng, N, cplx)
        api, arg = [("func", "None"), ("class", "None"), ("class", "nextpow2")][i % 3]
        if arg == "None" and (i // 6) % 2:
            arg = "omit"
        q = {"x": x, "dkind": dk, "nfft": _pow2(N) if arg == "nextpow2" else N, "nfft_arg": arg,
             "window": names[int(nrng.integers(0, len(names)))]}
        q.update(_options(nrng, api))
        yield (api, q)

    # long records (oracle only above N = 600: the model is list-based)
    big = [128, 500, 1024, 4099]
    for i in range(12):
        N = big[i % 4]
        cplx = bool(nrng.integers(0, 2))
        x, dk = gen_data(nrng, N, cplx, kind=["noise", "tone", "dyn"][i % 3])
        nfft = [N, N + 1, 2 * N - 1, 2 * N][int(nrng.integers(0, 4))]
        api = "func" if nrng.integers(0, 2) else "class"
        q = {"x": x, "dkind": dk, "nfft": nfft, "window": names[int(nrng.integers(0, len(names)))]}
        if N * nfft > 1.2e7 and (quick or i >= 4):
            q["perbin"] = 0          # the extended-precision reference of a 4099-point record costs 1-1.5 s: one per round of the
            #                          thorough tier only (the per-bin check is new; the max-norm checks of these records are unchanged)
        q.update(_options(nrng, api))
        yield (api, q)

    # all-zero records: the definition is exactly zero at every bin
    for k, (N, nfft, cplx, api, arg) in enumerate([(8, 8, False, "func", None), (7, 16, True, "func", None),
                                                   (1, 1, False, "class", None), (5, 9, True, "class", None),
                                                   (12, 12, False, "func", "None"), (6, 8, True, "class", "nextpow2"),
                                                   (16, 31, False, "class", None), (3, 6, True, "func", None)]):
        q = {"x": np.zeros(N, dtype=complex if cplx else float), "dkind": "zero", "nfft": nfft,
             "window": names[(7 * k + 3) % len(names)]}
        if arg:
            q["nfft_arg"] = arg
        yield (api, q)
    for k, (r, c, nfft, cplx, form) in enumerate([(5, 3, 8, False, "array"), (4, 2, 4, True, "list"), (1, 2, 3, False, "fortran")]):
        yield ("twod", {"x": np.zeros((r, c), dtype=complex if cplx else float), "dkind": "zero", "nfft": nfft,
                        "window": names[(11 * k + 5) % len(names)], "form": form})

    n2 = 40 if quick else 400
    for i in range(n2):
        r = int(nrng.integers(2, 17)) if i % 5 else [1, 1, 2, 3][(i // 5) % 4]   # incl. one-row and square inputs
        c = int(nrng.integers(1, 5)) if i % 5 else [2, 3, 2, 3][(i // 5) % 4]
        cplx = bool(nrng.integers(0, 2))
        x = nrng.standard_normal((r, c)) + (1j * nrng.standard_normal((r, c)) if cplx else 0)
        yield ("twod", {"x": x, "dkind": "noise", "nfft": nfft_choices(nrng, r), "window": names[(3 * i) % len(names)]})

    # 2-D: every data class, larger shapes, input containers / memory layouts, amplitudes, defaults, the class
    kinds2 = ["noise", "intdtype", "const", "dyn", "czero", "int", "mixed", "tone"]
    shapes = [(6, 40), (96, 3), (200, 3)]
    n2b = 64 if quick else 400
    for i in range(n2b):
        if i % 4 == 0:
            r, c = shapes[(i // 4) % 3]
        else:
            r, c = int(nrng.integers(1, 25)), int(nrng.integers(1, 7))
        dk = kinds2[(i + i // 8) % 8]
        cplx = bool(nrng.integers(0, 2)) and dk != "intdtype"
        x = _matrix(nrng, r, c, cplx, dk, i)
        o = int(nrng.integers(0, 4 * 6 * 6 * 5))
        q = {"x": x, "dkind": dk, "window": names[int(nrng.integers(0, len(names)))], "form": ["array", "list", "fortran", "tview"][o % 4]}
        o //= 4
        if o % 6 < 2 and x.dtype.kind != "i":
            amp = [-30, 17][o % 6]
            q["x"] = x * 2.0 ** amp
            q["amp"] = "2^%d" % amp
        o //= 6
        api = "class" if o % 6 == 0 else "func"
        o //= 6
        q["nfft"] = nfft_choices(nrng, r)
        if api == "class":
            q["api"] = "class"
        elif o == 0:
            q["nfft"] = r
            q["nfft_arg"] = ["None", "omit"][i % 2]
        q.update(_options(nrng, api))
        yield ("twod", q)

    nw = 60 if quick else 400
    kinds_w = ["noise", "int", "const", "tone", "intdtype", "list", "czero", "dyn"]
    for i in range(nw):
        N = [1, 64, 100][(i // 5) % 3] if i % 5 == 4 else int(nrng.integers(2, 33))
        dk = kinds_w[(i + i // 8) % 8]
        cplx = bool(nrng.integers(0, 2)) and dk != "intdtype"        # integer dtype arrays are real
        x, dk = gen_data(nrng, N, cplx, kind=dk)
        if dk not in ("intdtype", "list"):
            x = np.asarray(x, dtype=complex if np.iscomplexobj(x) else float)
        nfft = nfft_choices(nrng, 2 * N - 1)
        q = {"x": x, "dkind": dk, "nfft": nfft, "window": "rectangular",
             "method": "xcorr" if i % 2 else "CORRELATION"}
        if (i // 2) % 2:
            q["ygiven"] = True
        yield ("wk", q)

    # ---- coherent high-dynamic-range records (see _hdr_lines / _hdr_skirt / _hdr_int): every bin on its own scale ----------
    rect = ["rectangular", "rectangle"]
    calls = [None, "call", "run", "alias"]
    # (a) sums of on-bin lines, rectangular window, NFFT = N, 2N, 3N, 4N; any N >= 8 (odd, prime, power of two)
    n_lines = 36 if quick else 100
    sizes = [64, 16, 30, 128, 9, 50, 97, 256, 12, 33, 100]            # 11 entries: independent of the period-2/3/4 choices below
    for i in range(n_lines):
        N = sizes[i % len(sizes)] if i % 3 else int(nrng.integers(8, 97))
        cplx = bool((i // 2) % 2)
        x, ratio = _hdr_lines(nrng, N, cplx, i)
        m = [1, 1, 2, 4, 3, 2][(i // 4) % 6]
        api = "func" if i % 2 == 0 else "class"
        q = {"dkind": "hdr-lines", "nfft": m * N, "nfft_mult": m, "window": rect[(i // 3) % 2], "ratio": ratio}
        a = _HDR_AMPS[(i // 5) % len(_HDR_AMPS)]
        if a:
            x = x * a[1]
            q["hdr_amp"] = a[0]
        q["x"] = x
        if m == 1 and i % 5 == 0:
            q["nfft_arg"] = ["None", "omit"][(i // 5) % 2]
        q.update(_options(nrng, api))
        if api == "class":
            q.pop("call", None)
            if calls[(i // 2) % 4]:
                q["call"] = calls[(i // 2) % 4]            # all four ways of making the class compute, in turn
        yield (api, q)
    # (b) constant / on-bin tone under a window: the skirt of the window IS the spectrum; N >= 64, any NFFT >= N
    n_sk = 30 if quick else 66
    sk_sizes = [128, 256, 64, 200, 500, 256, 1024] if quick else [128, 256, 64, 200, 500, 512, 96, 1024, 300, 2048, 257]   # 7 / 11 entries
    for i in range(n_sk):
        N = sk_sizes[i % len(sk_sizes)]
        cplx = bool((i // 2) % 2)
        x = _hdr_skirt(nrng, N, cplx, i)
        name = _FAST[(i + i // len(_FAST)) % len(_FAST)] if i % 4 else names[int(nrng.integers(0, len(names)))]
        nfft = [N, 2 * N, N + 1, 2 * N - 1, _pow2(N + 1), 4 * N][(i // 3) % 6] if N < 500 else (
            [N, N + 1, 2 * N - 1, 2 * N][(i // 3) % 4] if N <= 1024 else N)          # cost of the model / of the reference
        api = "func" if i % 2 == 0 else "class"
        q = {"dkind": "hdr-skirt", "nfft": nfft, "window": name}
        if N * nfft > _DIRECT_MAX:
            q["nomodel"] = 1         # the list-based model needs 0.2-0.5 s for such a record and compares in max-norm only: it has
            #                          nothing to say about bins 160 dB down; the smaller records of this class still go through it
        a = _HDR_AMPS[(i // 3) % len(_HDR_AMPS)]
        if a:
            x = x * a[1]
            q["hdr_amp"] = a[0]
        q["x"] = x
        q.update(_options(nrng, api))
        yield (api, q)
    # (c) integer dtype with 120-280 dB between its two lines
    for i in range(9 if quick else 18):
        N = [8, 16, 64, 12, 100, 32][i % 6]
        x, ratio = _hdr_int(nrng, N, i)
        m = [1, 2, 4][(i // 2) % 3]
        api = "func" if i % 2 == 0 else "class"
        q = {"x": x, "dkind": "hdr-int", "nfft": m * N, "nfft_mult": m, "window": rect[i % 2], "ratio": ratio}
        if i % 4 == 1:
            q["dkind"] = "list"                       # the same integers as Python floats in a list
            q["x"] = x.astype(float)
        q.update(_options(nrng, api))
        yield (api, q)
    # (d) 2-D: a high-dynamic-range column next to unrelated columns of very different size (per column, not per matrix)
    n_h2 = 16 if quick else 32
    for i in range(n_h2):
        skirt = i % 4 == 3
        r = [128, 256][(i // 4) % 2] if skirt else [64, 16, 30, 97, 128, 12][(i // 2) % 6]
        c = 2 + int(nrng.integers(0, 3))
        cplx = bool(i % 2)
        cols = []
        ratio = 1.0
        for j in range(c):
            t = (i + j) % 4
            if t == 0 or (skirt and t == 2):
                col = nrng.standard_normal(r) + (1j * nrng.standard_normal(r) if cplx else 0)
                col = col * [1e-12, 3.0, 1e7][(i + j) % 3]
            elif skirt:
                col = _hdr_skirt(nrng, r, cplx, i + j)
            else:
                col, rt = _hdr_lines(nrng, r, cplx, i + 3 * j)
                ratio = min(ratio, rt)
            cols.append(np.asarray(col, dtype=complex if cplx else float))
        if not skirt and ratio == 1.0:
            cols[0], ratio = _hdr_lines(nrng, r, cplx, i + 5)
        x = np.stack(cols, axis=1)
        m = 1 if skirt else [1, 2, 1, 4][(i // 3) % 4]
        q = {"x": x, "dkind": "hdr-skirt" if skirt else "hdr-lines", "nfft": m * r,
             "window": _FAST[i % len(_FAST)] if skirt else rect[i % 2], "form": ["array", "list", "fortran", "tview"][(i // 2) % 4]}
        if not skirt:
            q["ratio"] = ratio
            q["nfft_mult"] = m
        a = _HDR_AMPS[(i // 2) % len(_HDR_AMPS)]
        if a:
            q["x"] = x * a[1]
            q["hdr_amp"] = a[0]
        api = "class" if i % 3 == 2 else "func"
        if api == "class":
            q["api"] = "class"
        q.update(_options(nrng, api))
        yield ("twod", q)
    # (e) Wiener-Khinchin on records with lines down to 1e-6 of the strongest (what the double precision lag sums resolve)
    for i in range(12 if quick else 24):
        N = [16, 32, 9, 64, 24, 50][i % 6]
        cplx = bool((i // 2) % 2)
        x, ratio = _hdr_lines(nrng, N, cplx, i, umax=6.0)
        m = [2, 4, 3][(i // 3) % 3]
        q = {"x": np.asarray(x, dtype=complex if cplx else float), "dkind": "hdr-lines", "nfft": m * N, "nfft_mult": m,
             "window": "rectangular", "method": "xcorr" if i % 2 else "CORRELATION", "ratio": ratio}
        if (i // 4) % 2:
            q["ygiven"] = True
        yield ("wk", q)

    # ---- (f) the way "off" is written ---------------------------------------------------------------------------------------
    # Every case above passes detrend / scale_by_freq as a Python literal (False, None, 0).  Here the spelling of each flag is a
    # generated dimension (_OFF: numpy.bool_ from a comparison / a boolean table, numpy scalars, 0, 0.0, 0-d array, None, False)
    # for the function (1-D and 2-D), and for scale_by_freq of Periodogram / FourierSpectrum through the constructor or the
    # attribute, on data whose mean is far from zero (so that a mean that IS removed shows at every bin).  The oracle is the
    # property's own statement (every bin = |DFT(x*w)|^2/N, Parseval) plus "bit-identical to the literal spelling".
    # New random draws come after all the older ones: the cases above are the same as before for a given seed.
    L = len(_OFF)
    stypes = ["int", "np.int64", "np.float32", "np.float64"]
    n_ff = 66 if quick else 132
    for i in range(n_ff):
        N = int(nrng.integers(1, maxN + 1)) if i % 8 else [1, 2, 64, 100, 3, 128][(i // 8) % 6]
        cplx = bool((i // 2) % 2)            # period 4 against the period 6 of the data classes: all 12 combinations
        x, dk = _nzmean(nrng, N, cplx, i)
        q = {"x": x, "dkind": dk, "nfft": nfft_choices(nrng, N), "window": names[(5 * i + 2) % len(names)], "flagcase": 1,
             "detrend": _OFF[i % L], "sbf": _OFF[(5 * i + i // L + 3) % L]}        # 5 is prime to 11: the pairs change from row to row
        if i % 6 == 5:
            q["nfft"] = N
            q["nfft_arg"] = ["None", "omit"][(i // 6) % 2]
        if i % 4 == 1:
            q["sampling"] = [2.0, 1024.0, 0.5, 48000.0][(i // 4) % 4]
            q["sampling_type"] = stypes[(i // 4) % 4] if q["sampling"] != 0.5 else "np.float32"
        if i % 5 == 2 and q.get("nfft_arg") != "omit":
            q["argstyle"] = "pos"         # speriodogram(x, NFFT, detrend, sampling, scale_by_freq, window)
        yield ("func", q)
    LC = len(_OFF_CLASS)
    n_fc = 50 if quick else 100
    for i in range(n_fc):
        N = int(nrng.integers(1, maxN + 1)) if i % 8 else [1, 2, 64, 100, 3, 128][(i // 8) % 6]
        cplx = bool((i // 2) % 2)
        x, dk = _nzmean(nrng, N, cplx, i + 1)
        o = int(nrng.integers(0, 2 * 4 * 3 * 4))
        q = {"x": x, "dkind": dk, "nfft": nfft_choices(nrng, N), "window": names[(7 * i + 4) % len(names)], "flagcase": 1,
             "sbf": _OFF_CLASS[i % LC]}
        if o % 2:
            q["sbf_route"] = "attr"
        o //= 2
        if calls[o % 4]:
            q["call"] = calls[o % 4]
        o //= 4
        if o % 3:
            q["det_route"] = ["ctor", "attr"][o % 3 - 1]
        o //= 3
        if o == 0:
            q["sampling"] = [2.0, 1024.0, 0.5, 48000.0][i % 4]
            q["sampling_type"] = stypes[i % 4] if q["sampling"] != 0.5 else "np.float32"
        elif o == 1:
            q["nfft"] = N
            q["nfft_arg"] = ["None", "omit"][i % 2]
        if i % 5 == 2 and q.get("nfft_arg") != "omit" and not q.get("det_route"):
            q["argstyle"] = "pos"         # constructor arguments in the documented order (differs between the two classes)
        yield ("class", q)
    n_f2 = 33 if quick else 66
    for i in range(n_f2):
        r = int(nrng.integers(2, 25)) if i % 5 else [1, 2, 64, 3][(i // 5) % 4]
        c = int(nrng.integers(1, 5))
        cplx = bool((i // 2) % 2)
        if i % 4 == 1 and not cplx:
            x = nrng.poisson([3.0, 50.0, 1000.0][(i // 4) % 3], (r, c)).astype(np.int64)       # a table of counts, integer dtype
            if not np.any(x):
                x[0, 0] = 1
        else:
            cols = [np.asarray(_nzmean(nrng, r, cplx, [0, 3, 2, 0, 3, 1][(i + j) % 6] + 6 * (i + j))[0]) for j in range(c)]
            x = np.stack([np.asarray(v, dtype=complex if cplx else float) for v in cols], axis=1)
        api = "class" if i % 3 == 2 else "func"
        q = {"x": x, "dkind": "nzmean", "nfft": nfft_choices(nrng, r), "window": names[(11 * i + 1) % len(names)], "flagcase": 1,
             "form": ["array", "list", "fortran", "tview"][(i // 3) % 4]}
        if api == "class":
            q["api"] = "class"
            q["sbf"] = _OFF_CLASS[(i // 3) % LC]
            o = int(nrng.integers(0, 2 * 4 * 3))
            if o % 2:
                q["sbf_route"] = "attr"
            if calls[(o // 2) % 4]:
                q["call"] = calls[(o // 2) % 4]
            if (o // 8) % 3:
                q["det_route"] = ["ctor", "attr"][(o // 8) % 3 - 1]
        else:
            q["detrend"] = _OFF[i % L]
            q["sbf"] = _OFF[(5 * i + 7) % L]
            if i % 7 == 3:
                q["nfft"] = r
                q["nfft_arg"] = ["None", "omit"][(i // 7) % 2]
            elif i % 5 == 1:
                q["argstyle"] = "pos"
        yield ("twod", q)
