"""C01  Periodogram equals the windowed-DFT definition and conserves power."""
import numpy as np

import single

import proto
from common import gen_data, as_input, rel, nfft_choices

TRUSTED_BASE = [
    "numpy.fft.fft/rfft are modelled as the DFT sum (parameter of the model; its twiddle table is e^{-2 pi i m/NFFT}); the "
    "oracle's reference is the DFT sum itself (twiddle matrix product) for N*NFFT <= 70000 and numpy.fft.fft above that",
    "window samples are taken from the implementation (Window(N, name).data): window shape is C20's business",
    "float64 rounding is not modelled: model/implementation agreement is to relative tolerance 1e-9 of the output's max-norm; "
    "the oracle checks every bin to 1e-9 of that bin's own reference value plus 1e-12 of the largest bin",
    "the Lean model is evaluated for N <= 600 only (list-based DFT sum); longer records are checked by the oracle alone",
]
PARTIAL = []
ASSUMPTIONS = ["detrend off (False / None / class default), scale_by_freq off (False / None / 0) as the property states; "
               "the sampling frequency is varied (0.01, 1, 1024): with scaling off the result does not depend on it",
               "class calls on 2-D data pass NFFT explicitly (the class default is the total number of samples, not the "
               "number of rows)"]
RULE = ("random data classes (noise, constant, integer, integer dtype, Python list, large dynamic range, tone, "
        "complex dtype with zero imaginary part, all-zero) x all 29 window names x NFFT in {N, N+1, 2N-1, 2N, prime, 2^k} "
        "given explicitly (Python or numpy integer), by default (None / omitted -> N) or as 'nextpow2' (class); "
        "N = 1..96 plus {128, 500, 1024, 4099}; 1-D function, class (.psd, P(), P.run(), FourierSpectrum.periodogram()), "
        "2-D column-wise (function and class; array, nested list, Fortran order, transposed view; all data classes; "
        "amplitudes 2^-30 and 2^17), and Wiener-Khinchin cases (N = 1..32, 64, 100; Y omitted or given; both correlation "
        "methods); non-trivial = N >= 2 and non-zero data; "
        "distinct = distinct (kind, shape, NFFT, NFFT spelling, window, data class, api, real/complex, data hash)")

_DIRECT_MAX = 70000          # N*NFFT up to which the reference is the DFT sum written out (no FFT routine involved)
_MODEL_MAX_N = 600           # the list-based Lean model is too slow beyond this record length
_DETREND = {"False": False, "None": None}
_SBF = {"False": False, "None": None, "0": 0}
_worst = [0.0]               # largest (error / tolerance) ratio seen by the oracle (diagnostics only)


def _spectrum():
    import spectrum
    return spectrum


def _win(N, name):
    from spectrum.window import Window
    return np.asarray(Window(N, name).data, dtype=float)


def _dft(v, nfft):
    """DFT_NFFT of the zero-padded vector: the defining sum for small sizes, numpy's FFT for long records"""
    v = np.asarray(v).astype(complex)
    N = len(v)
    if N * nfft > _DIRECT_MAX:
        return np.fft.fft(v, nfft)
    k = np.arange(nfft).reshape(-1, 1)
    n = np.arange(N).reshape(1, -1)
    return np.exp(-2j * np.pi * ((k * n) % nfft) / nfft) @ v


def _ref(x, w, nfft):
    xa = np.asarray(x)
    ref = np.abs(_dft(xa * w, nfft)) ** 2 / len(xa)
    if np.isrealobj(xa):
        ref = ref[: nfft // 2 + 1]
    return ref


def _pow2(N):
    """2**ceil(log2 N) in integer arithmetic"""
    p = 1
    while p < N:
        p *= 2
    return p


def _key(p):
    x = np.asarray(p["x"])
    return "%s|%s|%s|%s|%s|%d|%s" % (x.shape, p.get("nfft"), p.get("window"), p.get("dkind"),
                                     np.iscomplexobj(x), hash(x.tobytes()) & 0xFFFFFF,
                                     "/".join(str(p.get(k, "")) for k in ("nfft_arg", "api", "form", "method", "ygiven")))


def _nontrivial(p):
    x = np.asarray(p["x"])
    return x.shape[0] >= 2 and bool(np.any(x))


def _opt_tags(p):
    t = []
    if p.get("nfft_arg"):
        t.append("nfftarg:" + p["nfft_arg"])
    if "sampling" in p:
        t.append("sampling:%g" % p["sampling"])
    if p.get("detrend", "False") != "False":
        t.append("detrend:" + p["detrend"])
    if p.get("sbf", "False") != "False":
        t.append("scale_by_freq:" + p["sbf"])
    if p.get("call"):
        t.append("class-call:" + p["call"])
    return t


def _tags(p):
    x = np.asarray(p["x"])
    n = p.get("nfft")
    return ["data:" + p.get("dkind", "?"), "complex" if np.iscomplexobj(x) else "real",
            "nfft:" + ("odd" if n % 2 else "even"), "win:" + p.get("window", "-"),
            "N:" + ("1" if len(x) == 1 else "2-96" if len(x) <= 96 else "128-600" if len(x) <= 600 else ">600")] + _opt_tags(p)


# ---- 1-D function ---------------------------------------------------------------------------------

def _nfft_kw(p):
    """the NFFT keyword as the case spells it: explicit (Python or numpy integer), None, 'nextpow2', or left out"""
    a = p.get("nfft_arg", "explicit")
    if a == "omit":
        return {}
    if a == "None":
        return {"NFFT": None}
    if a == "nextpow2":
        return {"NFFT": "nextpow2"}
    nfft = p["nfft"]
    if p.get("npint"):
        nfft = [np.int64, np.int32, np.intp][p["npint"] - 1](nfft)     # e.g. 2**nextpow2(N): the library's own helper returns numpy.int64
    return {"NFFT": nfft}


def _sampling_kw(p):
    return {"sampling": p["sampling"]} if "sampling" in p else {}


def impl_func(p):
    sp = _spectrum()
    x = as_input(p["x"], p["dkind"])
    kw = dict(_nfft_kw(p))
    kw.update(_sampling_kw(p))
    r = sp.speriodogram(x, detrend=_DETREND[p.get("detrend", "False")], scale_by_freq=_SBF[p.get("sbf", "False")],
                        window=p["window"], **kw)
    return [np.asarray(r)]


def _class_psd(p, x):
    sp = _spectrum()
    kw = dict(_nfft_kw(p))
    kw.update(_sampling_kw(p))
    call = p.get("call")
    if call == "alias":
        P = sp.FourierSpectrum(x, window=p["window"], scale_by_freq=False, **kw)
        P.periodogram()
    else:
        P = sp.Periodogram(x, window=p["window"], scale_by_freq=False, **kw)
        if call == "call":
            P()
        elif call == "run":
            P.run()
    return np.asarray(P.psd)


def impl_class(p):
    return [_class_psd(p, as_input(p["x"], p["dkind"]))]


def model_1d(p):
    x = np.asarray(p["x"])
    if len(x) > _MODEL_MAX_N:
        return None
    w = _win(len(x), p["window"])
    return ("F", proto.request("sper", "F", [1 if np.isrealobj(x) else 0, p["nfft"]], [x, w]))


def _excess(got, ref):
    """max over bins of |got-ref| / (1e-9 |ref_k| + 1e-12 max|ref|); 0 when equal everywhere"""
    d = np.abs(got - ref)
    tol = 1e-9 * np.abs(ref) + 1e-12 * float(np.max(np.abs(ref)))
    bad = d > tol
    with np.errstate(divide="ignore", invalid="ignore"):
        q = np.where(d == 0, 0.0, d / np.where(tol > 0, tol, 1e-300))
    e = float(np.max(q)) if q.size else 0.0
    if np.isfinite(e) and e > _worst[0]:
        _worst[0] = e
    return e, (int(np.argmax(q)) if bad.any() else -1)


def _check_column(x, w, nfft, got, label, desc):
    """the property statement for one record: bins, realness, value of every bin, Parseval (complex data)"""
    x = np.asarray(x)
    ref = _ref(x, w, nfft)
    out = []
    got = np.asarray(got)
    if got.shape != ref.shape:
        out.append("%s: %d values returned, definition has %d bins (N=%d NFFT=%d %s %s)" % (
            label, got.size, ref.size, len(x), nfft, "complex" if np.iscomplexobj(x) else "real", desc))
        return out
    if got.dtype.kind != "f" or not np.all(np.isfinite(got)):
        out.append("%s: result not real (floating) and finite: dtype %s (N=%d NFFT=%d %s)" % (label, got.dtype, len(x), nfft, desc))
        return out
    r = rel(got, ref)
    if r > 1e-9:
        out.append("%s differs from |DFT(x*w)|^2/N: rel err %.2e (N=%d NFFT=%d %s)" % (label, r, len(x), nfft, desc))
    e, k = _excess(got, ref)
    if k >= 0 and r <= 1e-9:
        out.append("%s differs from |DFT(x*w)|^2/N at bin %d: %.6g returned, definition %.6g (largest bin %.3g; "
                   "tolerance 1e-9 of the bin + 1e-12 of the largest; N=%d NFFT=%d %s)" % (
                       label, k, got[k], ref[k], float(np.max(ref)), len(x), nfft, desc))
    if not np.any(x) and np.any(got != 0):
        out.append("%s of an all-zero record is not exactly zero (N=%d NFFT=%d %s)" % (label, len(x), nfft, desc))
    if np.iscomplexobj(x):
        lhs = float(np.mean(got))
        rhs = float(np.sum(np.abs(x * w) ** 2) / len(x))
        if abs(lhs - rhs) > 1e-9 * max(abs(rhs), 1e-300):
            out.append("%s: Parseval fails: mean(P)=%.12g, sum|xw|^2/N=%.12g (N=%d NFFT=%d %s)" % (
                label, lhs, rhs, len(x), nfft, desc))
    return out


def _desc(p):
    return "window=%s data=%s%s" % (p["window"], p["dkind"], "".join(" " + t for t in _opt_tags(p)))


def _oracle_vals(p, got, label):
    x = np.asarray(p["x"])
    return _check_column(x, _win(len(x), p["window"]), p["nfft"], got, label, _desc(p))


def oracle_func(p):
    return _oracle_vals(p, impl_func(p)[0], "speriodogram")


def oracle_class(p):
    return _oracle_vals(p, impl_class(p)[0], {"alias": "FourierSpectrum.periodogram() psd"}.get(p.get("call"), "Periodogram.psd"))


# ---- 2-D ------------------------------------------------------------------------------------------

def _x2d(p):
    """the 2-D input in the form the case asks for (replays store the plain C-ordered array)"""
    x = np.asarray(p["x"])
    form = p.get("form", "array")
    if form == "list":
        return x.tolist()
    if form == "fortran":
        return np.asfortranarray(x)
    if form == "tview":
        return np.ascontiguousarray(x.T).T          # transposed view of a (c, r) array
    return x


def impl_2d(p):
    sp = _spectrum()
    if p.get("api") == "class":
        r = _class_psd(p, _x2d(p))
    else:
        kw = dict(_nfft_kw(p))
        kw.update(_sampling_kw(p))
        r = sp.speriodogram(_x2d(p), detrend=_DETREND[p.get("detrend", "False")],
                            scale_by_freq=_SBF[p.get("sbf", "False")], window=p["window"], **kw)
    r = np.asarray(r)
    if r.ndim != 2:
        raise ValueError("2-D input: result has %d dimensions" % r.ndim)
    return [r[:, j] for j in range(r.shape[1])]


def model_2d(p):
    x = np.asarray(p["x"])
    if x.shape[0] > _MODEL_MAX_N:
        return None
    w = _win(x.shape[0], p["window"])
    cols = [x[:, j] for j in range(x.shape[1])]
    return ("F", proto.request("sper2", "F", [1 if np.isrealobj(x) else 0, p["nfft"]], [w] + cols))


def oracle_2d(p):
    x = np.asarray(p["x"])
    got = impl_2d(p)
    w = _win(x.shape[0], p["window"])
    label = "2-D Periodogram.psd" if p.get("api") == "class" else "2-D speriodogram"
    if len(got) != x.shape[1]:
        return ["%s: %d columns returned for %d input columns" % (label, len(got), x.shape[1])]
    for j in range(x.shape[1]):
        out = _check_column(x[:, j], w, p["nfft"], got[j], "%s column %d" % (label, j),
                            "shape %s form=%s %s" % (x.shape, p.get("form", "array"), _desc(p)))
        if out:
            return out[:2]
    return []


def _tags_2d(p):
    x = np.asarray(p["x"])
    return ["2d", "win:" + p["window"], "2d-data:" + p["dkind"], "2d-form:" + p.get("form", "array"),
            "2d-api:" + p.get("api", "func"), "2d-dtype:" + str(x.dtype),
            "2d-rows:" + ("1" if x.shape[0] == 1 else "<=24" if x.shape[0] <= 24 else ">24")] + (
                ["2d-amp:" + p["amp"]] if p.get("amp") else []) + _opt_tags(p)


# ---- Wiener-Khinchin ------------------------------------------------------------------------------

def impl_wk(p):
    sp = _spectrum()
    x = as_input(p["x"], p["dkind"])
    N = len(x)
    kw = {}
    if p.get("ygiven"):
        kw["Y"] = as_input(np.array(p["x"]).copy(), p["dkind"])      # the same record passed explicitly as second channel
    r = sp.CORRELOGRAMPSD(x, lag=N - 1, window="rectangular", norm="biased", NFFT=p["nfft"],
                          correlation_method=p["method"], **kw)
    return [np.asarray(r)]


def model_wk(p):
    x = np.asarray(p["x"])
    N = len(x)
    w = np.ones(N - 1)
    return ("F", proto.request("corrgramd", "F", [N - 1, p["nfft"], "biased"], [x, x, w]))


def oracle_wk(p):
    x = np.asarray(p["x"])
    got = impl_wk(p)[0]
    ref = np.abs(_dft(x, p["nfft"])) ** 2 / len(x)
    if got.shape != ref.shape:
        return ["correlogram has %d values, periodogram %d" % (got.size, ref.size)]
    if got.dtype.kind != "f" or not np.all(np.isfinite(got)):
        return ["correlogram not real and finite: dtype %s (N=%d NFFT=%d %s)" % (got.dtype, len(x), p["nfft"], p["method"])]
    d = float(np.max(np.abs(got - ref)))
    if d > 1e-9 * max(float(np.max(np.abs(ref))), 1e-300):
        return ["Wiener-Khinchin fails: correlogram (rectangular, lag N-1, biased, NFFT=%d>=2N-1, %s, Y %s, data=%s) differs "
                "from the periodogram by %.2e (N=%d)" % (p["nfft"], p["method"], "given" if p.get("ygiven") else "omitted",
                                                        p["dkind"], d, len(x))]
    return []


KINDS = {
    "func": {"impl": impl_func, "model": model_1d, "oracle": oracle_func, "rtol": 1e-9, "atol": 1e-300,
             "key": _key, "nontrivial": _nontrivial, "tags": _tags},
    "class": {"impl": impl_class, "model": model_1d, "oracle": oracle_class, "rtol": 1e-9, "atol": 1e-300,
              "key": _key, "nontrivial": _nontrivial, "tags": _tags},
    "twod": {"impl": impl_2d, "model": model_2d, "oracle": oracle_2d, "rtol": 1e-9, "atol": 1e-300,
             "key": _key, "nontrivial": _nontrivial, "tags": _tags_2d},
    "wk": {"impl": impl_wk, "model": model_wk, "oracle": oracle_wk, "rtol": 1e-9, "atol": 1e-300,
           "key": _key, "nontrivial": _nontrivial,
           "tags": lambda p: ["wk:" + p["method"], "wk-data:" + p["dkind"], "wk-Y:" + ("given" if p.get("ygiven") else "omitted"),
                              "wk-dtype:" + str(np.asarray(p["x"]).dtype),
                              "wk-N:" + ("1" if len(p["x"]) == 1 else "2-32" if len(p["x"]) <= 32 else ">32")]},
}


KINDS["single"] = single.kind("C01")


def _options(nrng, api):
    """spellings that must not change the result (scaling off): sampling frequency on a quarter of the cases, the
    function's detrend / scale_by_freq values, the way the class is made to compute.  One draw, mixed-radix decoded, so
    the choices are independent of each other and of the loop index."""
    o = int(nrng.integers(0, 4 * 2 * 2 * 3 * 6))
    q = {}
    if o % 4 == 0:
        q["sampling"] = [0.01, 1024.0][(o // 4) % 2]
    o //= 8
    if api == "func":
        if o % 2:
            q["detrend"] = "None"
        if (o // 2) % 3:
            q["sbf"] = ["False", "None", "0"][(o // 2) % 3]
    elif api == "class":
        c = [None, None, None, "call", "run", "alias"][(o // 6) % 6]
        if c:
            q["call"] = c
    return q


def _matrix(nrng, r, c, cplx, dkind, i):
    """an (r, c) matrix whose columns are records of the data classes of gen_data"""
    if dkind == "mixed":
        cols = [gen_data(nrng, r, cplx, kind=["noise", "const", "dyn", "tone", "int", "trend"][(j + i) % 6])[0] for j in range(c)]
    else:
        cols = [gen_data(nrng, r, cplx, kind=dkind)[0] for j in range(c)]
    return np.stack(cols, axis=1)


def gen(rng, nrng, tier):
    yield from single.gen("C01", nrng, tier)
    from spectrum.window import window_names
    names = sorted(window_names)
    quick = tier == "quick"
    n_main = 260 if quick else 4000
    maxN = 48 if quick else 96
    for i in range(n_main):
        N = int(nrng.integers(1, maxN + 1)) if i % 7 else int(nrng.integers(1, 5))
        cplx = bool(nrng.integers(0, 2))
        x, dk = gen_data(nrng, N, cplx)
        nfft = nfft_choices(nrng, N)
        name = names[i % len(names)]
        q = {"x": x, "dkind": dk, "nfft": nfft, "window": name}
        if i % 10 == 3:
            q["npint"] = 1 + (i // 10) % 3
        api = "func" if i % 2 == 0 else "class"
        q.update(_options(nrng, api))
        yield (api, q)

    # default / alternative padding: NFFT None or left out (-> N), 'nextpow2' (class; -> 2**ceil(log2 N))
    n_def = 72 if quick else 720
    special = [1, 2, 3, 12, 16, 17]
    for i in range(n_def):
        j = i // 3
        N = special[(j // 2) % len(special)] if j % 2 == 0 else int(nrng.integers(1, maxN + 1))
        cplx = bool(nrng.integers(0, 2))
        x, dk = gen_data(nrng, N, cplx)
        api, arg = [("func", "None"), ("class", "None"), ("class", "nextpow2")][i % 3]
        if arg == "None" and (i // 6) % 2:
            arg = "omit"
        q = {"x": x, "dkind": dk, "nfft": _pow2(N) if arg == "nextpow2" else N, "nfft_arg": arg,
             "window": names[int(nrng.integers(0, len(names)))]}
        q.update(_options(nrng, api))
        yield (api, q)

    # long records (oracle only above N = 600: the model is list-based)
    big = [128, 500, 1024, 4099]
    for i in range(12):
        N = big[i % 4]
        cplx = bool(nrng.integers(0, 2))
        x, dk = gen_data(nrng, N, cplx, kind=["noise", "tone", "dyn"][i % 3])
        nfft = [N, N + 1, 2 * N - 1, 2 * N][int(nrng.integers(0, 4))]
        api = "func" if nrng.integers(0, 2) else "class"
        q = {"x": x, "dkind": dk, "nfft": nfft, "window": names[int(nrng.integers(0, len(names)))]}
        q.update(_options(nrng, api))
        yield (api, q)

    # all-zero records: the definition is exactly zero at every bin
    for k, (N, nfft, cplx, api, arg) in enumerate([(8, 8, False, "func", None), (7, 16, True, "func", None),
                                                   (1, 1, False, "class", None), (5, 9, True, "class", None),
                                                   (12, 12, False, "func", "None"), (6, 8, True, "class", "nextpow2"),
                                                   (16, 31, False, "class", None), (3, 6, True, "func", None)]):
        q = {"x": np.zeros(N, dtype=complex if cplx else float), "dkind": "zero", "nfft": nfft,
             "window": names[(7 * k + 3) % len(names)]}
        if arg:
            q["nfft_arg"] = arg
        yield (api, q)
    for k, (r, c, nfft, cplx, form) in enumerate([(5, 3, 8, False, "array"), (4, 2, 4, True, "list"), (1, 2, 3, False, "fortran")]):
        yield ("twod", {"x": np.zeros((r, c), dtype=complex if cplx else float), "dkind": "zero", "nfft": nfft,
                        "window": names[(11 * k + 5) % len(names)], "form": form})

    n2 = 40 if quick else 400
    for i in range(n2):
        r = int(nrng.integers(2, 17)) if i % 5 else [1, 1, 2, 3][(i // 5) % 4]   # incl. one-row and square inputs
        c = int(nrng.integers(1, 5)) if i % 5 else [2, 3, 2, 3][(i // 5) % 4]
        cplx = bool(nrng.integers(0, 2))
        x = nrng.standard_normal((r, c)) + (1j * nrng.standard_normal((r, c)) if cplx else 0)
        yield ("twod", {"x": x, "dkind": "noise", "nfft": nfft_choices(nrng, r), "window": names[(3 * i) % len(names)]})

    # 2-D: every data class, larger shapes, input containers / memory layouts, amplitudes, defaults, the class
    kinds2 = ["noise", "intdtype", "const", "dyn", "czero", "int", "mixed", "tone"]
    shapes = [(6, 40), (96, 3), (200, 3)]
    n2b = 64 if quick else 400
    for i in range(n2b):
        if i % 4 == 0:
            r, c = shapes[(i // 4) % 3]
        else:
            r, c = int(nrng.integers(1, 25)), int(nrng.integers(1, 7))
        dk = kinds2[(i + i // 8) % 8]
        cplx = bool(nrng.integers(0, 2)) and dk != "intdtype"
        x = _matrix(nrng, r, c, cplx, dk, i)
        o = int(nrng.integers(0, 4 * 6 * 6 * 5))
        q = {"x": x, "dkind": dk, "window": names[int(nrng.integers(0, len(names)))], "form": ["array", "list", "fortran", "tview"][o % 4]}
        o //= 4
        if o % 6 < 2 and x.dtype.kind != "i":
            amp = [-30, 17][o % 6]
            q["x"] = x * 2.0 ** amp
            q["amp"] = "2^%d" % amp
        o //= 6
        api = "class" if o % 6 == 0 else "func"
        o //= 6
        q["nfft"] = nfft_choices(nrng, r)
        if api == "class":
            q["api"] = "class"
        elif o == 0:
            q["nfft"] = r
            q["nfft_arg"] = ["None", "omit"][i % 2]
        q.update(_options(nrng, api))
        yield ("twod", q)

    nw = 60 if quick else 400
    kinds_w = ["noise", "int", "const", "tone", "intdtype", "list", "czero", "dyn"]
    for i in range(nw):
        N = [1, 64, 100][(i // 5) % 3] if i % 5 == 4 else int(nrng.integers(2, 33))
        dk = kinds_w[(i + i // 8) % 8]
        cplx = bool(nrng.integers(0, 2)) and dk != "intdtype"        # integer dtype arrays are real
        x, dk = gen_data(nrng, N, cplx, kind=dk)
        if dk not in ("intdtype", "list"):
            x = np.asarray(x, dtype=complex if np.iscomplexobj(x) else float)
        nfft = nfft_choices(nrng, 2 * N - 1)
        q = {"x": x, "dkind": dk, "nfft": nfft, "window": "rectangular",
             "method": "xcorr" if i % 2 else "CORRELATION"}
        if (i // 2) % 2:
            q["ygiven"] = True
        yield ("wk", q)
