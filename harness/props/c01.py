"""C01  Periodogram equals the windowed-DFT definition and conserves power."""
import numpy as np

import single

import proto
from common import gen_data, as_input, rel, nfft_choices

TRUSTED_BASE = [
    "numpy.fft.fft/rfft are modelled as the DFT sum (parameter of the model; its twiddle table is e^{-2 pi i m/NFFT})",
    "window samples are taken from the implementation (Window(N, name).data): window shape is C20's business",
    "float64 rounding is not modelled: agreement is to relative tolerance 1e-9 of the output's max-norm",
]
PARTIAL = []
ASSUMPTIONS = ["detrend off, scale_by_freq off (as the property states)"]
RULE = ("random data classes (noise, constant, integer, integer dtype, Python list, large dynamic range, tone, "
        "complex dtype with zero imaginary part) x all 29 window names x NFFT in {N, N+1, 2N-1, 2N, prime, 2^k}; "
        "1-D function, class, 2-D column-wise, and Wiener-Khinchin cases; non-trivial = N >= 2 and non-zero data; "
        "distinct = distinct (kind, N, NFFT, window, data class, real/complex, data hash)")


def _spectrum():
    import spectrum
    return spectrum


def _win(N, name):
    from spectrum.window import Window
    return np.asarray(Window(N, name).data, dtype=float)


def _ref(x, w, nfft):
    xa = np.asarray(x)
    ref = np.abs(np.fft.fft(xa * w, nfft)) ** 2 / len(xa)
    if np.isrealobj(xa):
        ref = ref[: nfft // 2 + 1]
    return ref


def _key(p):
    x = np.asarray(p["x"])
    return "%s|%s|%s|%s|%s|%d" % (x.shape, p.get("nfft"), p.get("window"), p.get("dkind"),
                                  np.iscomplexobj(x), hash(x.tobytes()) & 0xFFFFFF)


def _nontrivial(p):
    x = np.asarray(p["x"])
    return x.shape[0] >= 2 and bool(np.any(x))


def _tags(p):
    x = np.asarray(p["x"])
    n = p.get("nfft")
    return ["data:" + p.get("dkind", "?"), "complex" if np.iscomplexobj(x) else "real",
            "nfft:" + ("odd" if n % 2 else "even"), "win:" + p.get("window", "-")]


# ---- 1-D function ---------------------------------------------------------------------------------

def impl_func(p):
    sp = _spectrum()
    x = as_input(p["x"], p["dkind"])
    nfft = p["nfft"]
    if p.get("npint"):
        nfft = [np.int64, np.int32, np.intp][p["npint"] - 1](nfft)
    r = sp.speriodogram(x, NFFT=nfft, detrend=False, scale_by_freq=False, window=p["window"])
    return [np.asarray(r)]


def impl_class(p):
    sp = _spectrum()
    x = as_input(p["x"], p["dkind"])
    nfft = p["nfft"]
    if p.get("npint"):
        nfft = [np.int64, np.int32, np.intp][p["npint"] - 1](nfft)     # e.g. 2**nextpow2(N): the library's own helper returns numpy.int64
    P = sp.Periodogram(x, window=p["window"], NFFT=nfft, scale_by_freq=False)
    return [np.asarray(P.psd)]


def model_1d(p):
    x = np.asarray(p["x"])
    w = _win(len(x), p["window"])
    return ("F", proto.request("sper", "F", [1 if np.isrealobj(x) else 0, p["nfft"]], [x, w]))


def _oracle_vals(p, got, label):
    x = np.asarray(p["x"])
    w = _win(len(x), p["window"])
    ref = _ref(x, w, p["nfft"])
    out = []
    got = np.asarray(got)
    if got.shape != ref.shape:
        out.append("%s: %d values returned, definition has %d bins (N=%d NFFT=%d %s %s)" % (
            label, got.size, ref.size, len(x), p["nfft"], "complex" if np.iscomplexobj(x) else "real", p["window"]))
        return out
    if np.iscomplexobj(got) or not np.all(np.isfinite(got)):
        out.append("%s: result not real and finite" % label)
        return out
    r = rel(got, ref)
    if r > 1e-9:
        out.append("%s differs from |DFT(x*w)|^2/N: rel err %.2e (N=%d NFFT=%d window=%s data=%s)" % (
            label, r, len(x), p["nfft"], p["window"], p["dkind"]))
    if np.iscomplexobj(x):
        lhs = float(np.mean(got))
        rhs = float(np.sum(np.abs(x * w) ** 2) / len(x))
        if abs(lhs - rhs) > 1e-9 * max(abs(rhs), 1e-300):
            out.append("%s: Parseval fails: mean(P)=%.12g, sum|xw|^2/N=%.12g" % (label, lhs, rhs))
    return out


def oracle_func(p):
    return _oracle_vals(p, impl_func(p)[0], "speriodogram")


def oracle_class(p):
    return _oracle_vals(p, impl_class(p)[0], "Periodogram.psd")


# ---- 2-D ------------------------------------------------------------------------------------------

def impl_2d(p):
    sp = _spectrum()
    r = sp.speriodogram(p["x"], NFFT=p["nfft"], detrend=False, scale_by_freq=False, window=p["window"])
    r = np.asarray(r)
    return [r[:, j] for j in range(r.shape[1])]


def model_2d(p):
    x = np.asarray(p["x"])
    w = _win(x.shape[0], p["window"])
    cols = [x[:, j] for j in range(x.shape[1])]
    return ("F", proto.request("sper2", "F", [1 if np.isrealobj(x) else 0, p["nfft"]], [w] + cols))


def oracle_2d(p):
    x = np.asarray(p["x"])
    got = impl_2d(p)
    w = _win(x.shape[0], p["window"])
    out = []
    if len(got) != x.shape[1]:
        return ["2-D speriodogram: %d columns returned for %d input columns" % (len(got), x.shape[1])]
    for j in range(x.shape[1]):
        ref = _ref(x[:, j], w, p["nfft"])
        if got[j].shape != ref.shape or rel(got[j], ref) > 1e-9:
            out.append("2-D speriodogram column %d differs from the definition (shape %s window=%s)" % (
                j, x.shape, p["window"]))
            break
    return out


# ---- Wiener-Khinchin ------------------------------------------------------------------------------

def impl_wk(p):
    sp = _spectrum()
    x = np.asarray(p["x"])
    N = len(x)
    r = sp.CORRELOGRAMPSD(x, lag=N - 1, window="rectangular", norm="biased", NFFT=p["nfft"],
                          correlation_method=p["method"])
    return [np.asarray(r)]


def model_wk(p):
    x = np.asarray(p["x"])
    N = len(x)
    w = np.ones(N - 1)
    return ("F", proto.request("corrgramd", "F", [N - 1, p["nfft"], "biased"], [x, x, w]))


def oracle_wk(p):
    x = np.asarray(p["x"])
    got = impl_wk(p)[0]
    ref = np.abs(np.fft.fft(x, p["nfft"])) ** 2 / len(x)
    if got.shape != ref.shape:
        return ["correlogram has %d values, periodogram %d" % (got.size, ref.size)]
    d = float(np.max(np.abs(got - ref)))
    if d > 1e-9 * max(float(np.max(np.abs(ref))), 1e-300):
        return ["Wiener-Khinchin fails: correlogram (rectangular, lag N-1, biased, NFFT=%d>=2N-1, %s) differs from "
                "the periodogram by %.2e (N=%d)" % (p["nfft"], p["method"], d, len(x))]
    return []


KINDS = {
    "func": {"impl": impl_func, "model": model_1d, "oracle": oracle_func, "rtol": 1e-9, "atol": 1e-300,
             "key": _key, "nontrivial": _nontrivial, "tags": _tags},
    "class": {"impl": impl_class, "model": model_1d, "oracle": oracle_class, "rtol": 1e-9, "atol": 1e-300,
              "key": _key, "nontrivial": _nontrivial, "tags": _tags},
    "twod": {"impl": impl_2d, "model": model_2d, "oracle": oracle_2d, "rtol": 1e-9, "atol": 1e-300,
             "key": _key, "nontrivial": _nontrivial,
             "tags": lambda p: ["2d", "win:" + p["window"]]},
    "wk": {"impl": impl_wk, "model": model_wk, "oracle": oracle_wk, "rtol": 1e-9, "atol": 1e-12,
           "key": _key, "nontrivial": _nontrivial,
           "tags": lambda p: ["wk:" + p["method"]]},
}


KINDS["single"] = single.kind("C01")

def gen(rng, nrng, tier):
    yield from single.gen("C01", nrng, tier)
    from spectrum.window import window_names
    names = sorted(window_names)
    n_main = 260 if tier == "quick" else 4000
    maxN = 48 if tier == "quick" else 96
    for i in range(n_main):
        N = int(nrng.integers(1, maxN + 1)) if i % 7 else int(nrng.integers(1, 5))
        cplx = bool(nrng.integers(0, 2))
        x, dk = gen_data(nrng, N, cplx)
        nfft = nfft_choices(nrng, N)
        name = names[i % len(names)]
        q = {"x": x, "dkind": dk, "nfft": nfft, "window": name}
        if i % 10 == 3:
            q["npint"] = 1 + (i // 10) % 3
        yield ("func" if i % 2 == 0 else "class", q)
    n2 = 40 if tier == "quick" else 400
    for i in range(n2):
        r = int(nrng.integers(2, 17)) if i % 5 else [1, 1, 2, 3][(i // 5) % 4]   # incl. one-row and square inputs
        c = int(nrng.integers(1, 5)) if i % 5 else [2, 3, 2, 3][(i // 5) % 4]
        cplx = bool(nrng.integers(0, 2))
        x = nrng.standard_normal((r, c)) + (1j * nrng.standard_normal((r, c)) if cplx else 0)
        yield ("twod", {"x": x, "dkind": "noise", "nfft": nfft_choices(nrng, r), "window": names[(3 * i) % len(names)]})
    nw = 40 if tier == "quick" else 400
    for i in range(nw):
        N = int(nrng.integers(2, 33))
        cplx = bool(nrng.integers(0, 2))
        x, dk = gen_data(nrng, N, cplx, kind=["noise", "int", "const", "tone"][i % 4])
        x = np.asarray(x, dtype=complex if cplx else float)
        nfft = nfft_choices(nrng, 2 * N - 1)
        yield ("wk", {"x": x, "dkind": dk, "nfft": nfft, "window": "rectangular",
                      "method": "xcorr" if i % 2 else "CORRELATION"})
